#!/usr/bin/env python3
"""Evaluate a seeded change: tools_seeded.py <dir with change.diff + demo.py> [--props C01,C06] [--tier quick]
1. scratch copy of /repo/src + tests (outside /repo and /verif), apply the patch
2. pinned baseline on the copy (must still be 254 stable passes)
3. demo on the copy (must exit non-zero) and on /repo (must exit 0)
4. the named checks against the copy (expect exit 1)
Prints a JSON summary."""
import argparse, json, os, shutil, subprocess, sys, tempfile, xml.etree.ElementTree as ET
VERIF = os.path.dirname(os.path.abspath(__file__))
ap = argparse.ArgumentParser()
ap.add_argument("dir"); ap.add_argument("--patch", default="patch.diff"); ap.add_argument("--demo", default="demo.py")
ap.add_argument("--props", required=True); ap.add_argument("--tier", default="quick"); ap.add_argument("--skip-baseline", action="store_true")
a = ap.parse_args()
root = tempfile.mkdtemp(prefix="irisverif-seed-", dir="/tmp")
res = {"dir": a.dir}
try:
    for sub in ("src", "tests"):
        shutil.copytree(os.path.join("/repo", sub), os.path.join(root, sub), ignore=shutil.ignore_patterns("__pycache__", "*.pyc"))
    shutil.copy("/repo/pyproject.toml", root)
    p = subprocess.run(["patch", "-p1", "-s", "-d", root, "-i", os.path.abspath(os.path.join(a.dir, a.patch))], capture_output=True, text=True)
    res["patch_applies"] = p.returncode == 0
    if p.returncode != 0:
        res["patch_error"] = (p.stdout + p.stderr)[-400:]
        print(json.dumps(res)); sys.exit(1)
    env = dict(os.environ, PYTHONPATH=os.path.join(root, "src"), IRISVERIF_REPO=root)
    env.pop("IRISPIE_VERIF", None)
    if not a.skip_baseline:
        base = json.load(open("/root/.vp/BASELINE.json")); want = set(base["stable_pass"])
        xml = os.path.join(root, "junit.xml")
        subprocess.run(["/venv/bin/python", "-m", "pytest", "-q", "-p", "no:cacheprovider", "--timeout=900", "--continue-on-collection-errors", f"--junitxml={xml}"],
                       cwd=root, env=env, capture_output=True, text=True)
        passed = set()
        for tc in ET.parse(xml).getroot().iter("testcase"):
            if not any(ch.tag in ("failure", "error", "skipped") for ch in tc):
                passed.add(f"{tc.get('classname')}::{tc.get('name')}")
        res["baseline_missing"] = sorted(want - passed)[:5]
        res["baseline_ok"] = not (want - passed)
    demo = os.path.abspath(os.path.join(a.dir, a.demo))
    d1 = subprocess.run(["/venv/bin/python", "-W", "ignore", demo], cwd=root, env=env, capture_output=True, text=True, timeout=900)
    d0 = subprocess.run(["/venv/bin/python", "-W", "ignore", demo], cwd="/tmp", env={k: v for k, v in os.environ.items() if k != "PYTHONPATH"}, capture_output=True, text=True, timeout=900)
    res["demo_with_change_rc"] = d1.returncode; res["demo_on_repo_rc"] = d0.returncode
    res["demo_tail"] = (d1.stdout + d1.stderr).strip().splitlines()[-2:]
    fired = {}
    for prop in a.props.split(","):
        c = subprocess.run([os.path.join(VERIF, "check"), prop, "--tier", a.tier, "--no-evidence"], env=env, capture_output=True, text=True, timeout=7200)
        fired[prop] = {"rc": c.returncode, "detail": [l[:260] for l in c.stdout.splitlines() if l.startswith("VIOLATION-DETAIL")][:2]}
    res["checks"] = fired
finally:
    shutil.rmtree(root, ignore_errors=True)
print(json.dumps(res, indent=1))
