#!/usr/bin/env python3
"""Regenerates MANIFEST.json from the property modules present in irisverif/props (keeps it valid at all times)."""
import json, os, re, sys
HERE = os.path.dirname(os.path.abspath(__file__))
props = [json.loads(l) for l in open(os.path.join(HERE, "properties.jsonl"))]
meta = json.load(open(os.path.join(HERE, "manifest_meta.json")))
checks, na = [], []
for p in props:
    pid = p["id"]
    m = meta["checks"].get(pid)
    if m and os.path.exists(os.path.join(HERE, "irisverif", "props", pid.lower() + ".py")):
        checks.append({
            "property_id": pid,
            "quick_cmd": f"./check {pid} --tier quick",
            "thorough_cmd": f"./check {pid} --tier thorough",
            "evidence_file": f"/verif/evidence/{pid}.json",
            "replay_cmd_template": f"./check {pid} --replay {{path}}",
            "engine": "irisverif",
            "level_claimed": {"category": "exploration", "text": m["text"], "design_ref": m.get("design_ref", f"DESIGN.md section 3 ({pid})")},
            "level_note": m["note"],
            "technique": m["technique"],
        })
    else:
        na.append({"property_id": pid, "reason": meta.get("not_applicable", {}).get(pid, "check not built yet in this round (runtime monitoring applies; see DESIGN.md section 3)")})
man = {
    "version": 1,
    "setup_cmd": "./check --setup",
    "hooks": {
        "guard": "IRISPIE_VERIF",
        "enable": "harness-side monitors: irisverif.props.<id>.install() wraps the live irispie functions in the check's worker processes (IRISPIE_VERIF=1 is set there); no guarded source change in /repo is needed",
        "baseline_off_cmd": "cd /repo && /venv/bin/python -m pytest -ra -q -p no:cacheprovider --timeout=900 --continue-on-collection-errors",
        "source_commits": meta.get("hook_commits", []),
        "add_only": True,
    },
    "engines": [{"name": "irisverif", "path": "/verif/irisverif", "serves_properties": [c["property_id"] for c in checks],
                 "kind_free_text": "runtime monitors (postcondition / reference-model / invariant wrappers on the real irispie functions) driven by seeded hostile workloads sharded over subprocesses; sys.monitoring reach monitor; mutation self-test"}],
    "checks": checks,
    "not_applicable": na,
    "notes": meta.get("notes", ""),
}
json.dump(man, open(os.path.join(HERE, "MANIFEST.json"), "w"), indent=1)
print(f"MANIFEST.json: {len(checks)} checks, {len(na)} not claimed")
