#!/usr/bin/env python3
import glob, json, os
HERE = os.path.dirname(os.path.abspath(__file__))
rows = []
for f in sorted(glob.glob(os.path.join(HERE, "seeded", "*", "meta.json"))):
    m = json.load(open(f))
    note = (m.get("needs_to_manifest") or "").strip().splitlines()
    first = next((l.strip("# ").strip() for l in note if l.strip()), "")
    cf = m.get("confirmed", {})
    ok = cf.get("pinned_suite_still_254_passes") and cf.get("demo_exit_with_change") not in (0, None) and cf.get("demo_exit_on_repo") == 0
    rows.append(f"| {m['id']} | {m['breaks_property']} | {first[:110]} | {'yes' if ok else 'NO'} | {', '.join(m.get('caught_by') or []) or '**missed**'} | {m.get('first_result', 'caught')} | {m.get('strengthening', '')} |")
open(os.path.join(HERE, "seeded", "INDEX.md"), "w").write(
    "# Seeded third-party breakages\n\nEach directory holds patch.diff (git apply on /repo), demo.py (exits 0 on /repo, non-zero with the patch), notes.md (author's notes) and meta.json (what was run, results).\n"
    "`python tools_seeded.py seeded/<id> --props Cxx[,Cyy]` re-evaluates one.\n\n| id | property | change | confirmed (suite unchanged, demo fails with / passes without) | quick checks that fire (now) | first result | strengthening that was needed |\n|---|---|---|---|---|---|---|\n" + "\n".join(rows) + "\n")
print(len(rows), "seeded changes indexed")
