#!/usr/bin/env python3
"""regenerate the tables of seeded rounds 2 and 3 in DESIGN.md (between the seeded-rounds markers) from seeded/*/meta.json"""
import glob, json, os, re
HERE = os.path.dirname(os.path.abspath(__file__))
metas = [json.load(open(f)) for f in sorted(glob.glob(os.path.join(HERE, "seeded", "*", "meta.json")))]
out = []
for rnd in (2, 3, 4, 5, 6):
    ms = [m for m in metas if m.get("round") == rnd]
    missed = [m for m in ms if m.get("first_result") == "missed"]
    outside = [m for m in ms if m.get("first_result") == "not caught"]
    out.append(f"**Round {rnd}** — {len(ms)} changes, {len(ms) - len(missed) - len(outside)} caught by the checks as they stood, {len(missed)} missed at first"
               + (f", {len(outside)} judged not to violate the property as worded and left uncaught ({', '.join(m['id'] for m in outside)})" if outside else "")
               + f"; {len([m for m in ms if m.get('caught_by')])} are caught now.\n")
    out.append("| change | what it needs to manifest | quick checks that fire now | first result → strengthening |")
    out.append("|---|---|---|---|")
    for m in ms:
        fr = m.get("first_result", "caught")
        st = m.get("strengthening", "")
        out.append(f"| {m['id']} {m.get('change_in_one_line', '')} | {m.get('trigger', '')} | {', '.join(m.get('caught_by') or []) or '**missed**'} | "
                   f"{'missed → ' + st if fr == 'missed' else ('not caught — ' + m.get('assessment', '') if fr == 'not caught' else 'caught')} |")
    out.append("")
text = "\n".join(out)
p = os.path.join(HERE, "DESIGN.md")
s = open(p).read()
a, b = "<!-- seeded-rounds-2-3:begin -->", "<!-- seeded-rounds-2-3:end -->"
assert a in s and b in s
s = s[:s.index(a) + len(a)] + "\n" + text + s[s.index(b):]
open(p, "w").write(s)
print("DESIGN.md tables regenerated:", sum(1 for m in metas if m.get("round") in (2, 3, 4, 5, 6)), "changes")
