#!/usr/bin/env python3
"""Runs the repository's pinned baseline (guard OFF) and compares with BASELINE.json's stable_pass list."""
import json, os, subprocess, sys, tempfile, xml.etree.ElementTree as ET, glob
base = json.load(open("/root/.vp/BASELINE.json"))
want = set(base["stable_pass"])
out = tempfile.mktemp(suffix=".xml", prefix="irisverif-baseline-")
env = {k: v for k, v in os.environ.items() if k != "IRISPIE_VERIF"}
cmd = f"cd /repo && /venv/bin/python -m pytest -ra -q -p no:cacheprovider --timeout=900 --continue-on-collection-errors --junitxml={out} -x --co -q >/dev/null 2>&1; /venv/bin/python -m pytest -ra -q -p no:cacheprovider --timeout=900 --continue-on-collection-errors --junitxml={out}"
p = subprocess.run(cmd, shell=True, env=env, stdout=subprocess.PIPE, stderr=subprocess.STDOUT, text=True)
passed = set()
for tc in ET.parse(out).getroot().iter("testcase"):
    if not any(ch.tag in ("failure", "error", "skipped") for ch in tc):
        passed.add(f"{tc.get('classname')}::{tc.get('name')}")
os.remove(out)
for f in set(glob.glob("/repo/tmp*.*")):
    try:
        os.remove(f)
    except OSError:
        pass
missing = sorted(want - passed)
print(p.stdout.strip().splitlines()[-1])
print(f"baseline: {len(want & passed)}/{len(want)} stable tests pass; missing: {missing[:10]}")
sys.exit(0 if not missing else 1)
