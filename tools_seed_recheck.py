#!/usr/bin/env python3
"""tools_seed_recheck.py [ids...] [--jobs N]: re-run the quick checks against every seeded change (scratch copy, no pinned suite)
and refresh "checks"/"caught_by" in seeded/<id>/meta.json; prints one line per change and a summary."""
import json, os, subprocess, sys, glob, concurrent.futures as cf
HERE = os.path.dirname(os.path.abspath(__file__))
args = [a for a in sys.argv[1:] if not a.startswith("--")]
jobs = int(next((a.split("=")[1] for a in sys.argv[1:] if a.startswith("--jobs=")), "4"))
dirs = sorted(glob.glob(os.path.join(HERE, "seeded", "C*-*")))
if args:
    dirs = [d for d in dirs if os.path.basename(d) in args]

def one(d):
    meta = json.load(open(os.path.join(d, "meta.json")))
    props = sorted(set([meta["breaks_property"]] + list((meta.get("checks") or {}).keys())))
    p = subprocess.run([sys.executable, os.path.join(HERE, "tools_seeded.py"), d, "--props", ",".join(props), "--skip-baseline"], capture_output=True, text=True)
    try:
        res = json.loads(p.stdout)
    except Exception:
        return os.path.basename(d), None, (p.stdout + p.stderr)[-300:]
    meta["checks"] = res.get("checks")
    meta["caught_by"] = [c for c, r in (res.get("checks") or {}).items() if r.get("rc") == 1]
    meta["confirmed"]["demo_exit_with_change"] = res.get("demo_with_change_rc")
    meta["confirmed"]["demo_exit_on_repo"] = res.get("demo_on_repo_rc")
    json.dump(meta, open(os.path.join(d, "meta.json"), "w"), indent=1)
    return os.path.basename(d), meta["caught_by"], {c: r.get("rc") for c, r in (res.get("checks") or {}).items()}

missed = []
with cf.ThreadPoolExecutor(jobs) as ex:
    for name, caught, info in ex.map(one, dirs):
        print(name, "caught by", caught, info, flush=True)
        if not caught:
            missed.append(name)
print(f"{len(dirs)} changes, missed: {missed}")
sys.exit(1 if missed else 0)
