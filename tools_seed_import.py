#!/usr/bin/env python3
"""tools_seed_import.py Cxx [extra props]: copy /tmp/seed-out/Cxx/change{k}.diff etc. into seeded/Cxx-k/, evaluate, write meta.json"""
import json, os, shutil, subprocess, sys
pid = sys.argv[1]; extra = sys.argv[2:] 
HERE = os.path.dirname(os.path.abspath(__file__))
prop = {json.loads(l)["id"]: json.loads(l) for l in open(os.path.join(HERE, "properties.jsonl"))}[pid]
for k in [int(x) for x in os.environ.get("SEED_KS", "1,2,3,4,5,6").split(",")]:
    src = f"/tmp/seed-out/{pid}"
    if not os.path.exists(f"{src}/change{k}.diff"):
        continue
    d = os.path.join(HERE, "seeded", f"{pid}-{k}")
    os.makedirs(d, exist_ok=True)
    shutil.copy(f"{src}/change{k}.diff", f"{d}/patch.diff")
    shutil.copy(f"{src}/demo{k}.py", f"{d}/demo.py")
    if os.path.exists(f"{src}/notes{k}.md"):
        shutil.copy(f"{src}/notes{k}.md", f"{d}/notes.md")
    props = ",".join([pid] + extra)
    p = subprocess.run([sys.executable, os.path.join(HERE, "tools_seeded.py"), d, "--props", props], capture_output=True, text=True)
    try:
        res = json.loads(p.stdout)
    except Exception:
        res = {"error": (p.stdout + p.stderr)[-800:]}
    meta = {
        "id": f"{pid}-{k}", "breaks_property": pid, "property_title": prop["title"],
        "origin": "fresh sub-agent given only the property text and a private scratch worktree",
        "needs_to_manifest": open(f"{d}/notes.md").read()[:1500] if os.path.exists(f"{d}/notes.md") else "",
        "confirmed": {"patch_applies_to_repo_head": res.get("patch_applies"), "pinned_suite_still_254_passes": res.get("baseline_ok"),
                      "demo_exit_with_change": res.get("demo_with_change_rc"), "demo_exit_on_repo": res.get("demo_on_repo_rc"), "demo_tail": res.get("demo_tail")},
        "what_was_run": f"python tools_seeded.py seeded/{pid}-{k} --props {props}  (scratch copy of /repo/src + tests with the patch; pinned suite; demo with/without; ./check <prop> --tier quick against the copy)",
        "checks": res.get("checks"), "caught_by": [c for c, r in (res.get("checks") or {}).items() if r.get("rc") == 1],
    }
    if os.path.exists(f"{d}/meta.json"):
        try:
            prev = json.load(open(f"{d}/meta.json"))
            for k_ in ("strengthening", "first_result"):
                if k_ in prev:
                    meta[k_] = prev[k_]
        except Exception:
            pass
    if "error" in res or "patch_error" in res:
        meta["error"] = res.get("error") or res.get("patch_error")
    json.dump(meta, open(f"{d}/meta.json", "w"), indent=1)
    print(json.dumps({"id": meta["id"], "confirmed": meta["confirmed"], "caught_by": meta["caught_by"], "checks": {c: r.get("rc") for c, r in (res.get("checks") or {}).items()}, "err": meta.get("error")}))
