"""
C16 -- block decomposition of an incidence matrix is a valid sequential ordering

Deciding monitors (postconditions on the real functions, independent graph oracle):
  blaze          wrapper on irispie.incidences.blazer.blaze  (every call, also the
                 internal ones from split_into_blocks / solve_steady)
  sequentialize  wrapper on Sequential.sequentialize (order valid, or raised and untouched)
  is_sequential  wrapper on the Sequential.is_sequential property
"""

from __future__ import annotations

import itertools
import re

import numpy as np

from .. import runtime as rt
from ..oracles import graph

ID = "C16"
TIERS = {
    "quick": {"shards": 8, "budget_s": 40},
    "thorough": {"shards": 16, "budget_s": 420},
}
MIN_EVENTS = {"quick": 4000, "thorough": 40000}
DECIDING = {"blaze", "sequentialize", "is_sequential", "split_into_blocks"}
EXHAUSTIVE = {"quick": True, "thorough": True}
RULE = (
    "blaze: EXHAUSTIVE over all boolean n x n matrices with a perfect matching for n<=4 (1, 7, 247, 37823 "
    "matrices; counts re-measured each run, see extra.perfect_matching_counts) under drawn non-contiguous id labelings, "
    "plus random n<=30 matrices (planted block-triangular under row/column permutations, dense, sparse, triangular, "
    "cycles, chains) and the steady incidence matrices of generated models through split_into_blocks; Sequential: random recursive "
    "models shuffled, with planted zero-shift cycles. distinct key = the matrix itself (n<=4) or "
    "(n, nnz, #blocks, largest block) / (n_eq, #deps, cyclic?, shuffled?); non-trivial = n>=2 and not a diagonal matrix."
)
ASSUMPTIONS = [
    "oracle: own augmenting-path bipartite matcher (cross-checked by permutation enumeration for n<=4 on every matrix)",
    "zero-shift dependencies of Sequential equations are read from the equation strings by a regular expression independent of irispie's tokenizer",
]
ANCHORS = [
    "irispie.incidences.blazer:blaze",
    "irispie.incidences.blazer:prefetch",
    "irispie.incidences.blazer:_prefetch_first",
    "irispie.incidences.blazer:_prefetch_last",
    "irispie.incidences.blazer:triangularize_inner_block",
    "irispie.incidences.blazer:_generate_inner_blocks",
    "irispie.incidences.blazer:sequentialize_strictly",
    "irispie.incidences.blazer:is_sequential",
    "irispie.equations:calculate_incidence_matrix",
]

# ------------------------------------------------------------------------------
# Monitors
# ------------------------------------------------------------------------------

_NAME = re.compile(r"\b([A-Za-z_]\w*)\b(\s*[\[\{]\s*([+-]?\d+)\s*[\]\}])?")
_FUNCS = {"log", "exp", "diff", "diff_log", "difflog", "roc", "pct", "sqrt", "abs", "maximum", "minimum", "max", "min"}


def seq_structure(equation_strings):
    """Independent reading of a Sequential model: [(lhs_name, set(zero-shift names used incl. on the LHS))]"""
    out = []
    for s in equation_strings:
        lhs, rhs = (s.split("===") if "===" in s else s.split("=", 1))
        lhs_names = [m.group(1) for m in _NAME.finditer(lhs) if m.group(1) not in _FUNCS and not m.group(1)[0].isdigit()]
        lhs_name = lhs_names[0]
        used = set()
        for m in _NAME.finditer(s.replace("===", "=")):
            name = m.group(1)
            if name in _FUNCS or re.fullmatch(r"\d+(e\d+)?", name) or name == "e":
                continue
            shift = int(m.group(3)) if m.group(3) else 0
            if shift == 0:
                used.add(name)
        out.append((lhs_name, used))
    return out


def order_is_sequential(struct):
    lhs_all = {l for l, _ in struct}
    done = set()
    for lhs, used in struct:
        need = (used & lhs_all) - {lhs}
        if not need <= done:
            return False, f"equation for {lhs} reads {sorted(need - done)} before they are determined"
        done.add(lhs)
    return True, ""


def exists_sequential_order(struct):
    lhs_all = {l for l, _ in struct}
    deps = {l: (u & lhs_all) - {l} for l, u in struct}
    done = set()
    remaining = set(deps)
    while remaining:
        ready = {l for l in remaining if deps[l] <= done}
        if not ready:
            return False
        done |= ready
        remaining -= ready
    return True


def install():
    import irispie
    from irispie.incidences import blazer
    from irispie.sequentials import main as seq_main

    def make_blaze(orig):
        def blaze(im, *args, **kwargs):
            c = rt.ctx()
            im_in = np.array(im, dtype=bool, copy=True)
            n_r, n_c = im_in.shape
            eids = kwargs.get("eids", args[0] if len(args) > 0 else None)
            qids = kwargs.get("qids", args[1] if len(args) > 1 else None)
            eids = tuple(range(n_r)) if eids is None else tuple(eids)
            qids = tuple(range(n_c)) if qids is None else tuple(qids)
            result = orig(im, *args, **kwargs)
            if c is None:
                return result
            try:
                blocks = result[0] if kwargs.get("return_info") else result
                if n_r != n_c or not graph.has_perfect_matching(im_in):
                    c.inconc("blaze:input-outside-quantifier(no perfect matching)")
                    return result
                case = {"kind": "blaze", "im": im_in.astype(int).tolist(), "eids": list(eids), "qids": list(qids)}
                if not np.array_equal(np.asarray(im, dtype=bool), im_in):
                    c.violation("blaze:input-mutated", "blaze modified its input matrix", case=case)
                problems = graph.check_blocks(im_in, eids, qids, [(b.eids, b.qids) for b in blocks])
                nontrivial = n_r >= 2 and (im_in.sum() > n_r)
                if n_r <= 4:
                    key = ("m", n_r, int("".join("1" if v else "0" for v in im_in.ravel()), 2))
                else:
                    key = ("r", n_r, int(im_in.sum()), len(blocks), max(len(b.eids) for b in blocks))
                c.event("blaze", f"n={n_r}" if n_r <= 6 else "n>6", key=key, nontrivial=nontrivial)
                for k, msg in problems:
                    c.violation(k, msg, case=case)
            except Exception as exc:  # monitors never raise into the code under observation
                c.inconc(f"blaze:monitor-error:{type(exc).__name__}")
            return result
        return blaze
    rt.wrap_attr(blazer, "blaze", make_blaze)

    Sequential = irispie.Sequential

    def make_sequentialize(orig):
        def sequentialize(self, *args, **kwargs):
            c = rt.ctx()
            before = tuple(self.equation_strings)
            raised = None
            try:
                result = orig(self, *args, **kwargs)
            except Exception as exc:
                raised = exc
            if c is not None:
                try:
                    _check_sequentialize(c, self, before, raised, None if raised else result)
                except Exception as exc:
                    c.inconc(f"sequentialize:monitor-error:{type(exc).__name__}")
            if raised is not None:
                raise raised
            return result
        return sequentialize
    rt.wrap_attr(Sequential, "sequentialize", make_sequentialize)

    prop = Sequential.__dict__.get("is_sequential")
    if isinstance(prop, property):
        orig_get = prop.fget
        def is_sequential(self):
            result = orig_get(self)
            c = rt.ctx()
            if c is not None:
                try:
                    struct = seq_structure(self.equation_strings)
                    expected, why = order_is_sequential(struct)
                    c.event("is_sequential", "property", key=("isseq", len(struct), expected), nontrivial=len(struct) >= 2)
                    if bool(result) != expected:
                        c.violation("is_sequential:wrong-verdict",
                                    f"is_sequential={result} but independent reading says {expected} {why}",
                                    case=_seq_case(c, self.equation_strings, "is_sequential"))
                except Exception as exc:
                    c.inconc(f"is_sequential:monitor-error:{type(exc).__name__}")
            return result
        Sequential.is_sequential = property(is_sequential)
        rt._INSTALLED.append((Sequential, "is_sequential", prop))
    else:
        c = rt.ctx()
        if c is not None:
            c.note("anchor_missing:Sequential.is_sequential")


def _seq_case(c, equations, op):
    """the replayable case of a violation: the running workload case (source + history of reorderings) when there is one"""
    cur = getattr(c, "case", None)
    if isinstance(cur, dict) and cur.get("kind") == "seq" and "source" in cur:
        return dict(cur, op=op, equations_at_violation=list(equations))
    return {"kind": "seq", "equations": list(equations), "op": op}


def _check_sequentialize(c, model, before, raised, result):
    struct_before = seq_structure(before)
    possible = exists_sequential_order(struct_before)
    after = tuple(model.equation_strings)
    case = _seq_case(c, before, "sequentialize")
    n = len(before)
    ndeps = sum(len((u & {l for l, _ in struct_before}) - {l}) for l, u in struct_before)
    c.event("sequentialize", "raised" if raised is not None else "returned",
            key=("seq", n, ndeps, possible, order_is_sequential(struct_before)[0]), nontrivial=n >= 2 and ndeps >= 1)
    if raised is not None:
        if after != before:
            c.violation("sequentialize:raised-but-model-changed", f"raised {type(raised).__name__} and equations changed", case=case)
        if possible:
            c.violation("sequentialize:raised-although-order-exists",
                        f"raised {type(raised).__name__}: {raised} although a sequential order exists", case=case)
        return
    if sorted(after) != sorted(before):
        c.violation("sequentialize:equations-not-permuted", f"before={before} after={after}", case=case)
        return
    ok, why = order_is_sequential(seq_structure(after))
    if not ok:
        c.violation("sequentialize:returned-invalid-order" if possible else "sequentialize:no-order-exists-but-returned",
                    f"order {after}: {why}", case=case)
    try:
        if tuple(before[i] for i in result) != after:
            c.violation("sequentialize:returned-index-mismatch", f"returned {result} does not describe the new order", case=case)
    except Exception:
        c.violation("sequentialize:returned-index-mismatch", f"returned {result!r}", case=case)


# ------------------------------------------------------------------------------
# Workloads
# ------------------------------------------------------------------------------


def _labels(rng, n):
    """non-contiguous, unsorted integer labels"""
    pool = rng.choice(np.arange(0, 10 * n + 7), size=n, replace=False)
    return [int(v) for v in pool]


def _run_blaze_case(c, case):
    from irispie.incidences import blazer
    im = np.array(case["im"], dtype=bool)
    # the same 0/1 matrix may be handed over as integers (calculate_incidence_matrix(..., data_type=int)); the case hash decides
    dt = (bool, int, np.uint8)[sum(sum(r) for r in case["im"]) % 3] if case.get("vary_dtype", True) else bool
    # how the labels are handed over: both positionally, both by keyword, only one of the two (the other defaults to
    # positions), none; decided by the case content so that a replay takes the same route
    mode = case.get("labels") or ("both", "kw", "eids", "both", "qids", "none", "both")[(sum(sum(r) for r in case["im"]) + 3 * len(case["im"])) % 7]
    eids, qids = case.get("eids"), case.get("qids")
    with c.running(case):
        try:
            with rt.quiet():
                if mode == "kw":
                    blazer.blaze(im.astype(dt), qids=tuple(qids) if qids is not None else None, eids=tuple(eids) if eids is not None else None)
                elif mode == "eids":
                    blazer.blaze(im.astype(dt), eids=eids)
                elif mode == "qids":
                    blazer.blaze(im.astype(dt), qids=qids)
                elif mode == "none":
                    blazer.blaze(im.astype(dt))
                else:
                    blazer.blaze(im.astype(dt), eids, qids)
            c.note(f"blaze-labels:{mode}")
        except Exception as exc:
            sq = im.shape[0] == im.shape[1]
            if sq and graph.has_perfect_matching(im):
                c.violation(f"blaze:raised:{type(exc).__name__}", f"blaze raised {type(exc).__name__}: {exc}")
            else:
                c.inconc("blaze:raised-on-input-outside-quantifier")


def _random_matrix(rng, n, kind):
    if kind == "planted":
        # block lower triangular with dense-ish diagonal blocks, then permuted
        sizes = []
        left = n
        while left > 0:
            s = int(min(left, rng.choice([1, 1, 2, 3, 4, 6])))
            sizes.append(s)
            left -= s
        im = np.zeros((n, n), dtype=bool)
        pos = 0
        for s in sizes:
            blk = rng.random((s, s)) < 0.6
            p = rng.permutation(s)
            blk[np.arange(s), p] = True
            if s > 1:  # make it irreducible-ish: a cycle through the block
                blk[np.arange(s), np.roll(np.arange(s), 1)] = True
            im[pos:pos + s, pos:pos + s] = blk
            im[pos:pos + s, :pos] = rng.random((s, pos)) < rng.choice([0.0, 0.1, 0.4])
            pos += s
    elif kind == "dense":
        im = rng.random((n, n)) < rng.uniform(0.4, 0.9)
        im[np.arange(n), rng.permutation(n)] = True
    elif kind == "sparse":
        im = rng.random((n, n)) < min(1.0, 1.5 / n)
        im[np.arange(n), rng.permutation(n)] = True
    elif kind == "triangular":
        im = np.tril(rng.random((n, n)) < 0.5)
        im[np.arange(n), np.arange(n)] = True
    elif kind == "cycle":
        im = np.eye(n, dtype=bool)
        im[np.arange(n), np.roll(np.arange(n), 1)] = True
    elif kind == "chain":
        im = np.eye(n, dtype=bool)
        im[np.arange(1, n), np.arange(n - 1)] = True
    else:
        raise ValueError(kind)
    if kind != "raw":
        im = im[rng.permutation(n), :][:, rng.permutation(n)]
    return im


def _seq_source(rng, n, cyclic):
    """Random recursive Sequential model; returns (source, names). Zero-shift deps form a DAG over a hidden order,
    optionally with a planted zero-shift cycle; equations shuffled."""
    names = [f"v{chr(97 + i)}{i}" for i in range(n)]
    hidden = list(rng.permutation(n))
    transforms = ["{x}", "log({x})", "diff({x})", "diff_log({x})", "roc({x})", "pct({x})"]
    eqs = []
    deps = {}
    for pos, i in enumerate(hidden):
        earlier = hidden[:pos]
        k = int(rng.integers(0, min(3, len(earlier)) + 1))
        d0 = [int(j) for j in rng.choice(earlier, size=k, replace=False)] if k else []
        deps[i] = set(d0)
    if cyclic and n >= 2:
        L = int(rng.integers(2, min(n, 4) + 1))
        cyc = [int(v) for v in rng.choice(n, size=L, replace=False)]
        for a, b in zip(cyc, cyc[1:] + cyc[:1]):
            deps[a].add(b)
    for i in range(n):
        terms = [f"0.5*{names[i]}[-1]"]
        for j in sorted(deps[i]):
            terms.append(f"0.1*{names[j]}")
        # lagged references to anything (must not matter)
        for j in rng.choice(n, size=int(rng.integers(0, 3)), replace=True):
            terms.append(f"0.05*{names[int(j)]}[{-int(rng.integers(1, 4))}]")
        # leads (also of variables that the same equation uses at zero shift: avg = (x + x[+1])/2 ); they must not matter either
        for j in sorted(deps[i]):
            if rng.random() < 0.35:
                terms.append(f"0.05*{names[j]}[+{int(rng.integers(1, 3))}]")
        if rng.random() < 0.25:
            terms.append(f"0.05*{names[int(rng.integers(0, n))]}[+{int(rng.integers(1, 3))}]")
        if rng.random() < 0.3:
            terms.append("0.2*zz_exog")
        lhs = transforms[int(rng.integers(0, len(transforms)))].format(x=names[i])
        eq = "===" if rng.random() < 0.2 else "="
        rng.shuffle(terms)
        eqs.append(f"{lhs} {eq} " + " + ".join(terms) + ";")
    order = rng.permutation(n) if rng.random() < 0.85 else np.array(hidden)
    src = "!equations\n" + "\n".join(eqs[int(i)] for i in order) + "\n"
    return src


def _run_seq_case(c, case):
    import irispie
    with c.running(case):
        with rt.quiet():
            m = irispie.Sequential.from_string(case["source"])
            _ = m.is_sequential
            # history of the model object: earlier rearrangements of the equations (every query after them is monitored
            # against an independent reading of the equation strings in their current order)
            for perm in case.get("reorders") or []:
                try:
                    m.reorder_equations(list(perm))
                    c.note("history:reorder_equations")
                except Exception as exc:
                    c.note(f"history:reorder_equations!{type(exc).__name__}")
                _ = m.is_sequential
            try:
                m.sequentialize()
            except Exception:
                pass
            _ = m.is_sequential
            # second call must be a no-op on an already sequential model
            try:
                m.sequentialize()
            except Exception:
                pass


def _run_model_case(c, case):
    """steady incidence matrices of real models: goes through Simultaneous.split_into_blocks -> blaze wrapper"""
    import irispie
    with c.running(case):
        with rt.quiet():
            try:
                m = irispie.Simultaneous.from_string(case["source"], **case.get("flags", {}))
            except Exception as exc:
                c.inconc(f"model:parse-failed:{type(exc).__name__}")
                return
            before = dict(c.events)
            plan = None
            want_q = sorted(m.get_names(kind=irispie.TRANSITION_VARIABLE | irispie.MEASUREMENT_VARIABLE))
            try:
                for var, par in case.get("swaps") or []:
                    # a steady plan that exogenizes a variable and endogenizes a parameter: the unknowns are no longer the
                    # first n quantities of the model
                    plan = plan or irispie.SteadyPlan(m)
                    plan.swap((var, par))
                    want_q = sorted((set(want_q) - {var}) | {par})
                hb = m.split_into_blocks(plan)
            except Exception as exc:
                c.inconc(f"split_into_blocks:raised:{type(exc).__name__}")
                return
            # human blocks must partition the steady equations and the unknowns
            eqs = [e for b in hb for e in b.equations]
            qs = [q for b in hb for q in b.quantities]
            c.event("split_into_blocks", "model" + (":plan" if plan is not None else ""), key=("sib", len(eqs), len(hb), plan is not None), nontrivial=len(eqs) >= 2)
            if sorted(qs) != want_q:
                c.violation("split_into_blocks:quantities-not-partitioned", f"{sorted(qs)} vs {want_q}")
                return
            if len(set(eqs)) != len(eqs) or len(eqs) != len(want_q):
                c.violation("split_into_blocks:equations-not-partitioned", f"{len(eqs)} equations for {len(want_q)} unknowns")
                return
            # independent reading of the incidence: the unknowns named in each equation string (any time shift)
            import re as _re
            col = {q: j for j, q in enumerate(want_q)}
            im = np.zeros((len(eqs), len(want_q)), dtype=bool)
            for i, e in enumerate(eqs):
                for nm in set(_re.findall(r"[A-Za-z_]\w*", e)):
                    if nm in col:
                        im[i, col[nm]] = True
            blocks = [([eqs.index(e) for e in b.equations], list(b.quantities)) for b in hb]
            for k_, msg in graph.check_blocks(im, list(range(len(eqs))), want_q, blocks):
                c.violation("split_into_blocks:" + k_.split(":", 1)[1], msg + (" (with a steady plan)" if plan is not None else ""))
                return


def _model_source(rng, n):
    """small model with a perfect-matching steady structure: variable i is determined by equation i"""
    names = [f"x{i}" for i in range(n)]
    lines = ["!transition-variables", "  " + ", ".join(names), "!parameters", "  rho, " + ", ".join(f"cc{i}" for i in range(n)), "!transition-shocks", "  " + ", ".join(f"e{i}" for i in range(n)), "!transition-equations"]
    for i in range(n):
        others = [int(j) for j in rng.choice(n, size=int(rng.integers(0, min(n, 4))), replace=False) if int(j) != i]
        rhs = [f"rho*{names[i]}[-1]", f"e{i}", f"cc{i}"]
        for j in others:
            sh = int(rng.integers(-2, 2))
            rhs.append(f"0.1*{names[j]}" + (f"[{sh:+d}]" if sh else ""))
        lines.append(f"  {names[i]} = " + " + ".join(rhs) + ";")
    return "\n".join(lines) + "\n"


def replay(c, case):
    install()
    kind = case["kind"]
    if kind == "blaze":
        _run_blaze_case(c, case)
    elif kind == "seq":
        if "source" not in case:
            case = dict(case, source="!equations\n" + "\n".join(s.replace("+res_" + seq_structure([s])[0][0], "") + ";" for s in case["equations"]))
        _run_seq_case(c, case)
    elif kind == "model":
        _run_model_case(c, case)


def shard(c):
    install()
    rng = c.rng
    # ---- 1. exhaustive n<=4 (sharded by matrix index)
    counts = {}
    for n in (1, 2, 3, 4):
        cnt = 0
        total = 1 << (n * n)
        for idx in range(c.shard, total, c.nshards):
            bits = [(idx >> k) & 1 for k in range(n * n)]
            im = np.array(bits, dtype=bool).reshape(n, n)
            pm = graph.has_perfect_matching(im)
            if pm != graph.has_perfect_matching_bruteforce(im):
                c.extra["oracle_matcher_disagreement"] = c.extra.get("oracle_matcher_disagreement", 0) + 1
                continue
            if not pm:
                continue
            cnt += 1
            case = {"kind": "blaze", "im": im.astype(int).tolist(), "eids": _labels(rng, n), "qids": _labels(rng, n)}
            _run_blaze_case(c, case)
            if cnt == 3 and n == 4:
                c.sample(case)
        counts[str(n)] = cnt
    c.extra.update({f"perfect_matching_count_n{n}": v for n, v in counts.items()})

    # ---- 4. Sequential models
    n_seq = c.scale(60, 1500)
    for i in range(n_seq):
        if c.out_of_time():
            break
        n = int(rng.integers(1, c.scale(9, 14)))
        cyclic = bool(rng.random() < 0.3)
        src = _seq_source(rng, n, cyclic)
        case = {"kind": "seq", "source": src, "cyclic_planted": cyclic,
                "reorders": [[int(v) for v in rng.permutation(n)] for _ in range(int(rng.integers(1, 3)))] if rng.random() < 0.5 else []}
        try:
            _run_seq_case(c, case)
        except Exception as exc:
            c.inconc(f"seq:harness:{type(exc).__name__}")
        if i == 1:
            c.sample(case)

    # ---- 5. steady incidence matrices of real models
    n_mod = c.scale(25, 600)
    for i in range(n_mod):
        if c.out_of_time():
            break
        n = int(rng.integers(2, c.scale(8, 14)))
        case = {"kind": "model", "source": _model_source(rng, n)}
        if rng.random() < 0.5:
            ks = [int(k_) for k_ in rng.choice(n, size=int(rng.integers(1, min(n, 3) + 1)), replace=False)]
            case["swaps"] = [[f"x{k_}", f"cc{k_}"] for k_ in ks]
        try:
            _run_model_case(c, case)
        except Exception as exc:
            c.inconc(f"model:harness:{type(exc).__name__}")
        if i == 0:
            c.sample(case)

    # ---- 2. random larger matrices
    n_rand = c.scale(400, 6000)
    kinds = ["planted", "planted", "planted", "dense", "sparse", "triangular", "cycle", "chain"]
    for i in range(n_rand):
        if c.out_of_time():
            break
        kind = kinds[i % len(kinds)]
        n = int(rng.integers(5, c.scale(16, 31)))
        im = _random_matrix(rng, n, kind)
        if not graph.has_perfect_matching(im):
            c.note("generator:no-perfect-matching-skipped")
            continue
        case = {"kind": "blaze", "gen": kind, "im": im.astype(int).tolist(), "eids": _labels(rng, n), "qids": _labels(rng, n)}
        _run_blaze_case(c, case)
        if i in (0, 3):
            c.sample({"kind": "blaze", "gen": kind, "n": n, "im_rows": ["".join("1" if v else "." for v in r) for r in im], "eids": case["eids"][:6]})

    # ---- 3. thorough: random sample of n=5 (2^25 matrices, not exhaustive)
    if c.tier == "thorough":
        for i in range(20000):
            if c.out_of_time():
                break
            im = rng.random((5, 5)) < rng.uniform(0.15, 0.7)
            if graph.has_perfect_matching(im):
                _run_blaze_case(c, {"kind": "blaze", "gen": "n5", "im": im.astype(int).tolist(), "eids": _labels(rng, 5), "qids": _labels(rng, 5)})
