"""
C10 -- a Series is a period-indexed map: reads, writes, alignment, trim, isolation

Reference-model (history) monitor.  A workload history is a JSON list of 5-40 steps over
1-4 live series of one frequency; every step is applied to the REAL irispie objects
through the public API and to the shadow model (irisverif/oracles/c10_smodel.py: a dict
(period ordinal, variant) -> float, NaN == absent).  After every step

  model      the series produced / mutated by the step is compared with its shadow cell by
             cell (exact for constructors, reads, writes, shifts, clip, overlay, underlay,
             hstack, copies, neighbour fills; 1e-12 relative for arithmetic, element-wise
             functions, statistics, moving windows, interpolation; 1e-9 on the running
             magnitude for extrapolate);  the reported span must cover every non-missing
             value;  after WRITES (x[...] = v, set_data) and BINARY ARITHMETIC OPERATORS --
             and only there -- the first and last rows must not be all-missing and an
             all-missing result must have no rows and no start
  frame      every OTHER live series is bit-for-bit what it was (method forms change only
             the receiver, functional forms / operators change nothing)
  read       x[periods], x[periods, variants], get_data, get_values, open spans, x.periods,
             x.start/end/shape/span/is_empty/has_missing against the shadow
Wrappers on the real public callables (any caller, also irispie-internal ones):
  isolation  irispie.<f>(x, ...) for every functional form (element-wise, statistics, moving,
             fill_missing, extrapolate, overlay, underlay, shift, temporal changes) and
             Series.copy(): every Series argument keeps start and data bytes, the result
             does not share memory with any argument;  Series.set_data / overlay / underlay /
             hstack / fill_missing / binary operators: Series arguments other than the
             receiver are unchanged
  invariant  Series.set_data and the binary operators: data.ndim == 2, trimmed result,
             empty <=> no start

Exceptions raised by irispie on generated inputs (all inside the quantifier: any frequency,
span, number of variants, missing pattern, empty series, non-overlapping operands) are
violations "<op>:raised:<Type>[:<context>]".

Not decided (never reported; exercised for isolation / no-crash only, then the shadow is
re-read from the real object):
  * shift("tty"): not in the shift() doc string, and the doc string of _shift_tty contradicts its code
  * shift("yoy") at daily / integer frequency (fixed 365 / 0 periods); "soy"/"eopy" at integer frequency
  * value of a comparison operator at a period where an operand is missing (numpy gives False, not missing);
    asserted only where both operands are present
  * fill_missing linear / log_linear before the first / after the last observation ("interpolation or
    extrapolation" does not say which); next/previous/nearest/linear with a span that does not cover the
    series (whether observations outside the span count as "available") -- not generated; `nearest` ties
    accept either neighbour
  * whether the span is trimmed after anything but writes and binary arithmetic (unary minus on an untrimmed
    series keeps the all-missing edge rows; element-wise method forms and clip do not trim) -- only "covers"
  * Series (op) numpy array, hstack with numbers, negative variant indexes, duplicate periods in a write,
    data with more / fewer (but >1) variants than addressed, kwargs of the statistics (ddof ...)
  * aliasing of the array passed to from_start_and_array (it is kept by reference)
  * Series.redate (NameError) and Series.empty() keeping the start: outside the wording of the property
"""

from __future__ import annotations

import math
import warnings

import numpy as np

from .. import runtime as rt
from ..oracles import c10_smodel as sm

ID = "C10"
TIERS = {
    "quick": {"shards": 8, "budget_s": 25},
    "thorough": {"shards": 16, "budget_s": 330},
}
MIN_EVENTS = {"quick": 60000, "thorough": 600000}
DECIDING = {"model", "frame", "read", "isolation", "invariant"}
EXHAUSTIVE = {"quick": False, "thorough": False}
RULE = (
    "random histories of 5-40 public operations over 1-4 live series of one frequency (Y,H,Q,M,D,I), 1-3 variants "
    "(1<->n broadcasting; up to 4 after hstack), constructors placed to overlap / touch / be disjoint from / equal the span of a live series, "
    "empty series, leading / trailing / interior / scattered NaN blocks, writes outside the span on both sides, NaN writes that "
    "empty the series, clip outside the data; plus directed histories for every known finding. distinct key = (operation, "
    "frequency, variants pattern, relative position of the operand spans, interior NaN?); non-trivial = no operand empty."
)
ASSUMPTIONS = [
    "numpy / scipy element functions and IEEE arithmetic (the same ufuncs irispie applies) are the trusted base; alignment, addressing, trimming and span logic are recomputed on a dict",
    "periods are built with the public constructors yy/hh/qq/mm/dd/ii from own ordinals and read back through to_year_segment / to_ymd / to_sdmx_string (Period arithmetic itself is C09)",
    "the reported span (start, number of rows) is taken from the real object after operations for which the property does not promise a trimmed span",
]
ANCHORS = [
    "irispie.series.main:_get_date_positions",
    "irispie.series.main:Series.set_data",
    "irispie.series.main:Series._resolve_dates_and_positions",
    "irispie.series.main:Series._create_expanded_data",
    "irispie.series.main:Series._get_data_and_recreate",
    "irispie.series.main:Series.trim",
    "irispie.series.main:Series._replace_data",
    "irispie.series.main:Series._binop",
    "irispie.series.main:Series.apply",
    "irispie.series.main:Series.hstack",
    "irispie.series.main:Series.clip",
    "irispie.series.main:Series.overlay",
    "irispie.series.main:Series.underlay",
    "irispie.series.main:Series._shift_by_number",
    "irispie.series.main:Series._shift_soy",
    "irispie.series.main:Series._shift_eopy",
    "irispie.series.main:_broadcast_variants_if_needed",
    "irispie.series.main:_from_start_and_values",
    "irispie.series.main:_from_periods_and_values",
    "irispie.series.main:_from_periods_and_func",
    "irispie.series.main:Series.from_start_and_array",
    "irispie.series._indexing:Inlay.__getitem__",
    "irispie.series._indexing:Inlay.__setitem__",
    "irispie.series._indexing:Inlay.__call__",
    "irispie.series._moving:Inlay.moving_window",
    "irispie.series._filling:Inlay.fill_missing",
    "irispie.series._filling:_fill_neighbor",
    "irispie.series._filling:_fill_interp",
    "irispie.series._filling:fill_from_series",
    "irispie.series._extrapolate:Inlay.extrapolate",
    "irispie.series._extrapolate:_extrapolate_data",
    "irispie.has_variants:iter_variants",
    "irispie.dates:get_encompassing_span",
    "irispie.conveniences.copies:Mixin.copy",
]

NSLOTS = 4
BINOPS = ("add", "sub", "mul", "truediv", "pow", "floordiv", "mod")
BINSYM = {"add": "+", "sub": "-", "mul": "*", "truediv": "/", "pow": "**", "floordiv": "//", "mod": "%"}
CMPOPS = ("gt", "lt", "ge", "le", "eq", "ne")
MOVS = ("mov_sum", "mov_avg", "mov_mean", "mov_prod")
FILLS = ("constant", "next", "previous", "nearest", "linear", "log_linear", "from_series")
APPLY_FUNCS = {
    "double": lambda d: d * 2.0,
    "affine": lambda d: 1.5 - d,
    "square": lambda d: d * d,
    "exp": np.exp,
}
ISO_ONLY_FUNCS = ("diff", "diff_log", "pct", "roc")

# ------------------------------------------------------------------------------
# periods <-> ordinals (public constructors / accessors only)
# ------------------------------------------------------------------------------

_PCACHE = {}


def P(freq, t):
    p = _PCACHE.get((freq, t))
    if p is None:
        import irispie as ir
        parts = sm.parts_from_ordinal(freq, t)
        ctor = {"Y": ir.yy, "H": ir.hh, "Q": ir.qq, "M": ir.mm, "D": ir.dd, "I": ir.ii}[freq]
        p = ctor(*parts)
        _PCACHE[(freq, t)] = p
    return p


def ord_of(freq, p):
    if freq in sm.PER_YEAR:
        y, s = p.to_year_segment()
        return sm.ordinal_from_parts(freq, y, s)
    if freq == "D":
        return sm.ordinal_from_parts(freq, *p.to_ymd())
    return int(str(p.to_sdmx_string()).strip("()"))


_FREQ_VALUE = {"Y": 1, "H": 2, "Q": 4, "M": 12, "D": 365, "I": 0}


def observe(freq, x):
    """real Series -> SModel via the state the property names (start, data) """
    data = x.data
    if getattr(data, "ndim", None) != 2:
        raise _Broken(f"data.ndim == {getattr(data, 'ndim', None)}")
    n, nv = data.shape
    start = x.start
    m = sm.SModel(freq, nv)
    if start is None:
        if n and not np.all(np.isnan(data)):
            raise _Broken("no start but non-missing values")
        return m
    if int(start.frequency) != _FREQ_VALUE[freq]:
        raise _Broken(f"start has frequency {start.frequency}")
    lo = ord_of(freq, start)
    m.set_span(lo, lo + n - 1)
    if n:
        arr = np.asarray(data, dtype=float)
        idx = np.argwhere(~np.isnan(arr))
        for i, v in idx:
            m.cells[(lo + int(i), int(v))] = float(arr[i, v])
    return m


class _Broken(Exception):
    pass


class _RealRaised(Exception):
    """an exception that came out of irispie itself (as opposed to the harness)"""
    def __init__(self, exc):
        super().__init__(repr(exc))
        self.exc = exc


def R(fn, *args, **kwargs):
    """call into irispie; tag whatever it raises"""
    try:
        return fn(*args, **kwargs)
    except Exception as exc:
        raise _RealRaised(exc) from None


# ------------------------------------------------------------------------------
# Wrappers: isolation + representation invariants on the real public callables
# ------------------------------------------------------------------------------


def _is_series(x):
    import irispie
    return isinstance(x, irispie.Series)


def _series_in(args, kwargs):
    out = []
    for a in list(args) + list(kwargs.values()):
        if _is_series(a):
            out.append(a)
        elif isinstance(a, (list, tuple)):
            out.extend(b for b in a if _is_series(b))
    return out


def _snap(s):
    d = s.data
    return (s.start, d.shape, str(d.dtype), d.tobytes(), d)


def _changed(s, snap):
    """None if unchanged, else a classification string"""
    start, shape, dtype, raw, arr = snap
    d = s.data
    same_start = (s.start is None and start is None) or (s.start is not None and start is not None and s.start == start)
    if same_start and d.shape == shape and d.tobytes() == raw:
        return None
    if same_start and len(shape) == 2 and shape[1] == 1 and d.ndim == 2 and d.shape[0] == shape[0] and d.shape[1] > 1:
        old = np.frombuffer(raw, dtype=dtype).reshape(shape)
        if np.array_equal(d, np.repeat(old, d.shape[1], axis=1), equal_nan=True):
            return "variants-broadcast-in-place"
    return "modified"


def _family(name):
    if name in sm.ELEMENTWISE:
        return "elementwise"
    if name in sm.STAT_ALL:
        return "statistics"
    if name in MOVS:
        return "moving"
    return name


def _nvkey(sers):
    return "x".join(str(s.data.shape[1]) if getattr(s.data, "ndim", 0) == 2 else "?" for s in sers)


def _report_arg_changes(c, kind, name, snaps):
    for s, snap in snaps:
        how = _changed(s, snap)
        if how is None:
            continue
        if how == "variants-broadcast-in-place":
            c.violation(f"isolation:argument-variants-broadcast-in-place:{name}",
                        f"{kind} {name} broadcast a Series ARGUMENT in place from 1 to {s.data.shape[1]} variants")
        else:
            c.violation(f"isolation:{kind}-modified-argument:{_family(name)}",
                        f"{kind} form {name} modified a Series argument: start {snap[0]} -> {s.start}, shape {snap[1]} -> {s.data.shape}")


def _check_trimmed(c, name, s):
    d = s.data
    if getattr(d, "ndim", None) != 2:
        c.violation(f"invariant:ndim:{name}", f"after {name}: data.ndim == {getattr(d, 'ndim', None)}")
        return
    if d.dtype == bool:
        return
    if d.shape[0] == 0:
        if s.start is not None:
            c.violation(f"invariant:empty-with-start:{name}", f"after {name}: no rows but start == {s.start}")
        return
    if s.start is None:
        c.violation(f"invariant:rows-without-start:{name}", f"after {name}: {d.shape[0]} rows but no start")
        return
    with np.errstate(all="ignore"):
        if np.all(np.isnan(d[0, :])) or np.all(np.isnan(d[-1, :])):
            c.violation(f"invariant:not-trimmed:{name}", f"after {name}: all-missing first or last row (start {s.start}, shape {d.shape})")


def _make_functional(name, is_copy=False):
    def make(orig):
        def functional(*args, **kwargs):
            c = rt.ctx()
            if c is None:
                return orig(*args, **kwargs)
            try:
                sers = _series_in(args, kwargs)
                snaps = [(s, _snap(s)) for s in sers]
            except Exception:
                sers, snaps = [], []
            result = orig(*args, **kwargs)
            if not sers:
                return result
            try:
                _report_arg_changes(c, "functional", name, snaps)
                outs = [r for r in (result if isinstance(result, tuple) else (result,)) if _is_series(r)]
                for r in outs:
                    for s, snap in snaps:
                        if r is s or np.shares_memory(r.data, s.data) or np.shares_memory(r.data, snap[4]):
                            c.violation(f"isolation:functional-aliases-argument:{_family(name)}",
                                        f"the result of {name} shares memory with its argument")
                        if is_copy and _changed(r, snap) is not None:
                            c.violation("copy:not-equal", "copy() differs from the original")
                rows = max((s.data.shape[0] for s in sers), default=0)
                c.event("isolation", f"func:{name}", key=("iso", name, _nvkey(sers)), nontrivial=rows > 0)
            except Exception as exc:
                c.inconc(f"isolation:monitor-error:{type(exc).__name__}")
            return result
        functional.__name__ = getattr(orig, "__name__", name)
        return functional
    return make


def _make_method(name, trimmed_receiver=False, trimmed_result=False):
    def make(orig):
        def method(self, *args, **kwargs):
            c = rt.ctx()
            if c is None:
                return orig(self, *args, **kwargs)
            try:
                sers = [s for s in _series_in(args, kwargs) if s is not self]
                snaps = [(s, _snap(s)) for s in sers]
                self_snap = _snap(self) if (trimmed_result or trimmed_receiver) else None
            except Exception:
                sers, snaps, self_snap = [], [], None
            result = orig(self, *args, **kwargs)
            try:
                if snaps:
                    _report_arg_changes(c, "method", name, snaps)
                    c.event("isolation", f"method:{name}", key=("isom", name, _nvkey([self] + sers)),
                            nontrivial=all(s.data.shape[0] > 0 for s in [self] + sers))
                if trimmed_receiver and self_snap is not None and _changed(self, self_snap) is not None:
                    # (a write that addresses no period returns early and leaves the receiver as it was)
                    _check_trimmed(c, name, self)
                    c.event("invariant", name)
                if trimmed_result and _is_series(result):
                    _check_trimmed(c, name, result)
                    if self_snap is not None and _changed(self, self_snap) is not None:
                        c.violation(f"isolation:operator-modified-operand:{name}", f"{name} modified its left operand")
                    c.event("invariant", name)
            except Exception as exc:
                c.inconc(f"invariant:monitor-error:{type(exc).__name__}")
            return result
        method.__name__ = getattr(orig, "__name__", name)
        return method
    return make


_INSTALLED = False


def install():
    global _INSTALLED
    if _INSTALLED:
        return
    _INSTALLED = True
    import irispie
    from irispie.series import functions as _functions
    Series = irispie.Series
    names = set(sm.ELEMENTWISE) | set(sm.STAT_ALL) | set(MOVS) | {"fill_missing", "extrapolate", "overlay", "underlay", "shift"} | set(ISO_ONLY_FUNCS)
    for n in sorted(names):
        if hasattr(irispie, n):
            rt.wrap_attr(irispie, n, _make_functional(n))
        else:
            c = rt.ctx()
            if c is not None:
                c.note(f"anchor_missing:irispie.{n}")
    rt.wrap_attr(Series, "copy", _make_functional("copy", is_copy=True))
    rt.wrap_attr(Series, "set_data", _make_method("set_data", trimmed_receiver=True))
    for n in ("overlay", "underlay", "hstack", "fill_missing"):
        rt.wrap_attr(Series, n, _make_method(n))
    for f in BINOPS:
        rt.wrap_attr(Series, f"__{f}__", _make_method(f"__{f}__", trimmed_result=True))
        rt.wrap_attr(Series, f"__r{f}__", _make_method(f"__r{f}__", trimmed_result=True))


# ------------------------------------------------------------------------------
# History executor
# ------------------------------------------------------------------------------


class State:
    def __init__(self, freq):
        self.freq = freq
        self.real = [None] * NSLOTS
        self.model = [None] * NSLOTS

    def live(self):
        return [i for i in range(NSLOTS) if self.real[i] is not None]


def _periods_arg(st, spec, m):
    """(real periods object, model ordinals) for a period spec; m = the model of the addressed series"""
    import irispie as ir
    f = st.freq
    k = spec["k"]
    if k == "one":
        return P(f, spec["p"]), [spec["p"]]
    if k == "list":
        return [P(f, t) for t in spec["ps"]], list(spec["ps"])
    if k == "span":
        return ir.Span(P(f, spec["a"]), P(f, spec["b"])), list(range(spec["a"], spec["b"] + 1))
    if k == "all":
        return ..., m.span_ords()
    if k == "open_lo":
        return ir.Span(None, P(f, spec["b"])), list(range(m.lo, spec["b"] + 1))
    if k == "open_hi":
        return ir.Span(P(f, spec["a"]), None), list(range(spec["a"], m.hi + 1))
    raise ValueError(k)


def _variants_arg(spec, nv):
    if spec is None:
        return None, list(range(nv))
    if isinstance(spec, int):
        return spec, [spec]
    if isinstance(spec, dict):
        s = slice(*spec["slice"])
        return s, list(range(*s.indices(nv)))
    return list(spec), list(spec)


def _values_arg(vform, values, n, nv):
    """(real values object, model rows n x nv) for constructors"""
    if vform == "a1":
        return np.array(values, dtype=float), [[x] for x in values]
    if vform == "a2":
        return np.array(values, dtype=float).reshape(len(values), nv), [list(r) for r in values]
    if vform == "tuple":
        return tuple(float(x) for x in values), [[x] * nv for x in values]
    if vform == "scalar":
        return float(values), [[values] * nv]
    if vform == "lvars":
        return [tuple(float(x) for x in col) for col in values], [[values[min(v, len(values) - 1)][i] for v in range(nv)] for i in range(n)]
    raise ValueError(vform)


def _write_cols(dform, data, n, nvids):
    """(real data object, cols[k][i]) for writes"""
    if dform == "scalar":
        return float(data), [[data] * n for _ in range(nvids)]
    if dform == "a1":
        return np.array(data, dtype=float), [list(data) for _ in range(nvids)]
    if dform == "a2":
        return np.array(data, dtype=float).reshape(n, nvids), [[data[i][k] for i in range(n)] for k in range(nvids)]
    if dform == "tuple":
        return tuple(float(x) for x in data), [list(data) for _ in range(nvids)]
    if dform == "lvars":
        return [tuple(float(x) for x in col) for col in data], [list(data[min(k, len(data) - 1)]) for k in range(nvids)]
    raise ValueError(dform)


def _relpos(a, b):
    sa, sb = a.cell_span(), b.cell_span()
    if sa is None or sb is None:
        return "empty"
    if sa == sb:
        return "same"
    if sa[1] + 1 == sb[0] or sb[1] + 1 == sa[0]:
        return "touch"
    if sa[1] < sb[0] or sb[1] < sa[0]:
        return "disjoint"
    if (sa[0] <= sb[0] and sb[1] <= sa[1]) or (sb[0] <= sa[0] and sa[1] <= sb[1]):
        return "nested"
    return "overlap"


class Outcome:
    """what a step produced, for the comparison phase"""
    def __init__(self, op):
        self.op = op                # operation label for events / keys
        self.target = None          # slot whose real/model pair is compared with `check`
        self.check = None
        self.resync = False         # semantics not decided: re-read the model from the real object
        self.operands = []          # models used for the structural key
        self.trim_promised = False
        self.skip_event = False


def _store(st, slot, real, model):
    st.real[slot] = real
    st.model[slot] = model


def exec_step(c, st, step):
    """apply one step to the real objects and to the models; returns an Outcome"""
    import irispie as ir
    Series = ir.Series
    f = st.freq
    op = step["op"]
    out = Outcome(op)

    if op == "ctor_empty":
        _store(st, step["t"], R(Series, num_variants=step["nv"]), sm.m_empty(f, step["nv"]))
        out.target = step["t"]
        out.check = sm.Check(sm.EXACT)

    elif op == "ctor_start":
        nv = step["nv"]
        vals, rows = _values_arg(step["vform"], step["values"], step.get("n", 0), nv)
        kw = {} if step["vform"] in ("a1", "a2") else {"num_variants": nv}
        real = R(Series, start=P(f, step["start"]), values=vals, **kw)
        _store(st, step["t"], real, sm.m_from_start_rows(f, step["start"], rows, nv))
        out.target, out.check, out.op = step["t"], sm.Check(sm.EXACT), "ctor_start:" + step["vform"]

    elif op == "ctor_fsa":
        nv = step["nv"]
        arr = np.array(step["values"], dtype=float).reshape(len(step["values"]), nv)
        real = R(Series.from_start_and_array, P(f, step["start"]), arr, trim=step["trim"])
        _store(st, step["t"], real, sm.m_from_start_rows(f, step["start"], step["values"], nv, trim=step["trim"]))
        out.target, out.check = step["t"], sm.Check(sm.EXACT)
        out.op = "ctor_fsa:" + ("trim" if step["trim"] else "notrim")

    elif op == "ctor_periods":
        nv = step["nv"]
        model = sm.m_empty(f, nv)
        per, ords = _periods_arg(st, step["periods"], model)
        data, cols = _write_cols(step["dform"], step["data"], len(ords), nv)
        real = R(Series, periods=per, values=data, num_variants=nv)
        sm.m_write(model, ords, list(range(nv)), cols)
        _store(st, step["t"], real, model)
        out.target, out.check, out.op = step["t"], sm.Check(sm.EXACT), "ctor_periods:" + step["dform"]

    elif op == "ctor_func":
        nv = step["nv"]
        model = sm.m_empty(f, nv)
        per, ords = _periods_arg(st, step["periods"], model)
        seq = iter(float(step["base"]) + 0.5 * i for i in range(10 ** 6))
        real = R(Series, periods=per, func=lambda: next(seq), num_variants=nv)
        got = observe(f, real)
        want = sorted(float(step["base"]) + 0.5 * i for i in range(len(ords) * nv))
        if sorted(got.cells.values()) != want or {t for t, _ in got.cells} != set(ords):
            c.violation("model:ctor_func:cells", f"periods+func constructor: cells {sorted(got.cells.items())[:6]} for periods {ords[:6]}, expected one call per period and variant")
        _store(st, step["t"], real, got)
        out.target, out.check = step["t"], sm.Check(sm.EXACT)

    elif op == "copy":
        real = R(st.real[step["s"]].copy)
        _store(st, step["t"], real, st.model[step["s"]].copy())
        out.target, out.check = step["t"], sm.Check(sm.EXACT)
        out.operands = [st.model[step["s"]]]

    elif op == "get":
        m = st.model[step["s"]]
        x = st.real[step["s"]]
        per, ords = _periods_arg(st, step["periods"], m)
        var, vids = _variants_arg(step["variants"], m.nv)
        want = sm.m_read(m, ords, vids)
        via = step["via"]
        out.op = "get:" + via
        out.operands = [m]
        if via == "getitem":
            got = R(lambda: x[per] if step["variants"] is None and not step.get("tuple_index") else x[per, var])
        elif via == "get_data":
            got = R(lambda: x.get_data(per) if step["variants"] is None else x.get_data(per, var))
        else:
            got = R(lambda: x.get_values(per) if step["variants"] is None else x.get_values(per, var))
        c.event("read", via, key=("read", via, f, m.nv, step["periods"]["k"], len(vids), m.has_interior_missing()), nontrivial=bool(m.cells))
        if via == "get_values":
            exp_all = [tuple(want[:, k].tolist()) for k in range(len(vids))]
            expect = exp_all[0] if len(vids) == 1 else exp_all
            if not _same_nested(got, expect):
                if len(vids) > 1 and isinstance(got, tuple) and _same_nested(got, exp_all[0]):
                    c.violation("get_values:multi-variant-returns-first-variant-only",
                                f"get_values() of {len(vids)} variants returned the tuple of the first variant only")
                else:
                    c.violation("read:get_values:mismatch", f"get_values returned {rt.short(got, 300)}, expected {rt.short(expect, 300)}")
        else:
            got = np.asarray(got)
            if got.shape != want.shape or not np.array_equal(got.astype(float), want, equal_nan=True):
                c.violation(f"read:{via}:mismatch", f"{via} returned shape {got.shape} {rt.short(got.tolist(), 300)}, expected shape {want.shape} {rt.short(want.tolist(), 300)}")
        out.skip_event = True

    elif op == "observers":
        m = st.model[step["s"]]
        x = st.real[step["s"]]
        R(_check_observers, c, f, x, m)
        out.skip_event = True
        out.operands = [m]

    elif op == "recreate":
        m = st.model[step["s"]]
        x = st.real[step["s"]]
        per, ords = _periods_arg(st, step["periods"], m)
        var, vids = _variants_arg(step["variants"], m.nv)
        real = R(lambda: x(per) if step["variants"] is None else x(per, var))
        _store(st, step["t"], real, sm.m_recreate(m, ords, vids))
        out.target, out.check, out.operands = step["t"], sm.Check(sm.EXACT), [m]

    elif op == "getshift":
        m = st.model[step["s"]]
        real = R(lambda: st.real[step["s"]][step["by"]])
        new = m.copy()
        sm.m_shift(new, step["by"])
        _store(st, step["t"], real, new)
        out.target, out.check, out.operands = step["t"], sm.Check(sm.EXACT), [m]

    elif op == "set":
        m = st.model[step["s"]]
        x = st.real[step["s"]]
        per, ords = _periods_arg(st, step["periods"], m)
        var, vids = _variants_arg(step["variants"], m.nv)
        out.operands = [m.copy()]
        if step["dform"] == "series":
            src = st.model[step["src"]]
            data, cols = st.real[step["src"]], sm.write_cols_from_series(src, ords, len(vids))
            out.operands.append(src)
        else:
            data, cols = _write_cols(step["dform"], step["data"], len(ords), len(vids))
        def _do_set():
            if step["via"] == "setitem":
                if step["variants"] is None:
                    x[per] = data
                else:
                    x[per, var] = data
            else:
                if step["variants"] is None:
                    x.set_data(per, data)
                else:
                    x.set_data(per, data, var)
        R(_do_set)
        out.check = sm.m_write(m, ords, vids, cols)
        out.check.span_exact = bool(ords)
        out.target, out.trim_promised = step["s"], bool(ords)
        out.op = f"set:{step['via']}:{step['dform']}"

    elif op == "shift":
        by = step["by"]
        src = st.model[step["s"]]
        out.operands = [src.copy()]
        if by == "tty":
            # semantics not decided: isolation / frame only
            out.resync = True
            try:
                if step["form"] == "method":
                    st.real[step["s"]].shift(by)
                    out.target = step["s"]
                else:
                    _store(st, step["t"], ir.shift(st.real[step["s"]], by), src.copy())
                    out.target = step["t"]
            except Exception as exc:
                c.inconc(f"shift:tty:raised:{type(exc).__name__}(semantics not decided)")
                out.target = step["s"]
            out.op = f"shift:tty:{step['form']}"
            return out
        if step["form"] == "method":
            R(st.real[step["s"]].shift, by)
            tgt, m = step["s"], src
        else:
            real = R(ir.shift, st.real[step["s"]], by)
            tgt, m = step["t"], src.copy()
            _store(st, tgt, real, m)
        if by == "yoy":
            out.check = sm.m_shift_yoy(m)
        elif by in ("soy", "eopy"):
            out.check = sm.m_shift_anchor(m, by)
        else:
            out.check = sm.m_shift(m, by)
        out.target = tgt
        out.op = f"shift:{by if isinstance(by, str) else 'int'}:{step['form']}"

    elif op == "clip":
        m = st.model[step["s"]]
        out.operands = [m.copy()]
        a, b = step["a"], step["b"]
        R(st.real[step["s"]].clip, None if a is None else P(f, a), None if b is None else P(f, b))
        out.check = sm.m_clip(m, a, b)
        out.target = step["s"]

    elif op in ("overlay", "underlay"):
        src, oth = st.model[step["s"]], st.model[step["o"]]
        out.operands = [src.copy(), oth]
        other_real = st.real[step["o"]]
        if step["form"] == "method":
            R(getattr(st.real[step["s"]], op), other_real)
            tgt, m = step["s"], src
        else:
            real = R(getattr(ir, op), st.real[step["s"]], other_real)
            tgt, m = step["t"], src.copy()
            _store(st, tgt, real, m)
        out.check = (sm.m_overlay if op == "overlay" else sm.m_underlay)(m, oth.copy())
        out.target = tgt
        out.op = f"{op}:{step['form']}"

    elif op == "hstack":
        ms = [st.model[i] for i in step["srcs"]]
        rs = [st.real[i] for i in step["srcs"]]
        via = step["via"]
        if via == "or":
            real = R(lambda: rs[0] | rs[1])
        elif via == "and":
            real = R(lambda: rs[0] & rs[1])
        else:
            real = R(rs[0].hstack, *rs[1:])
        new, out.check = sm.m_hstack(ms)
        out.operands = list(ms)
        _store(st, step["t"], real, new)
        out.target = step["t"]
        out.op = "hstack:" + via

    elif op == "binop":
        fn = step["f"]
        a, b = step["a"], step["b"]
        ma = st.model[a] if isinstance(a, int) else float(a["c"])
        mb = st.model[b] if isinstance(b, int) else float(b["c"])
        ra = st.real[a] if isinstance(a, int) else _scalar(a)
        rb = st.real[b] if isinstance(b, int) else _scalar(b)
        out.operands = [x for x in (ma, mb) if isinstance(x, sm.SModel)]
        real = R(getattr(__import__("operator"), fn), ra, rb)
        new, out.check = sm.m_binop(ma, mb, fn)
        if not _is_series(real):
            c.violation(f"model:binop:{fn}:not-a-series", f"{BINSYM[fn]} returned {type(real).__name__}")
            real = None
        _store(st, step["t"], real, new if real is not None else None)
        out.target, out.trim_promised = step["t"], True
        kind = "ss" if len(out.operands) == 2 else ("sc" if isinstance(a, int) else "cs")
        out.op = f"binop:{fn}:{kind}"

    elif op == "unary":
        m = st.model[step["s"]]
        x = st.real[step["s"]]
        fn = step["f"]
        if fn == "neg":
            real = R(lambda: -x)
        elif fn == "pos":
            real = R(lambda: +x)
        elif fn == "abs":
            real = R(abs, x)
        else:
            real = R(round, x, step["arg"])
        new, out.check = sm.m_unary(m, fn, step.get("arg"))
        out.operands = [m]
        _store(st, step["t"], real, new)
        out.target = step["t"]
        out.op = "unary:" + fn

    elif op == "cmp":
        ma = st.model[step["a"]]
        b = step["b"]
        mb = st.model[b] if isinstance(b, int) else float(b["c"])
        rb = st.real[b] if isinstance(b, int) else _scalar(b)
        real = R(getattr(__import__("operator"), step["f"]), st.real[step["a"]], rb)
        want = sm.m_compare_where_both_present(ma, mb, step["f"])
        out.operands = [ma] + ([mb] if isinstance(mb, sm.SModel) else [])
        out.skip_event = True
        c.event("model", "cmp:" + step["f"], key=_key(st, "cmp", out.operands), nontrivial=all(o.cells for o in out.operands))
        bad = None
        if not _is_series(real) or real.data.ndim != 2:
            bad = f"returned {type(real).__name__}"
        else:
            n, nv = real.data.shape
            lo = ord_of(f, real.start) if real.start is not None else None
            for (t, v), w in want.items():
                if lo is None or not (0 <= t - lo < n) or v >= nv or bool(real.data[t - lo, v]) != w:
                    bad = f"at ordinal {t}, variant {v}: expected {w}"
                    break
        if bad:
            c.violation(f"model:cmp:{step['f']}:mismatch", f"comparison {step['f']} where both operands are present: {bad}")

    elif op == "apply":
        m = st.model[step["s"]]
        fn = APPLY_FUNCS[step["fn"]]
        real = R(st.real[step["s"]].apply, fn)
        new = m.copy()
        sm.m_map_cells(new, fn)
        out.operands = [m]
        _store(st, step["t"], real, new)
        out.target, out.check = step["t"], sm.Check(sm.ARITH)
        out.op = "apply:" + step["fn"]

    elif op in ("elem", "stat", "mov", "fill", "extrap"):
        src = st.model[step["s"]]
        out.operands = [src.copy()]
        x = st.real[step["s"]]
        method_form = step["form"] == "method"
        if op == "elem":
            name, args, kwargs = step["f"], (() if step.get("arg") is None else (step["arg"],)), {}
            run_model = lambda m: sm.m_elementwise(m, name, step.get("arg"))
        elif op == "stat":
            name, args, kwargs = step["f"], (() if step.get("q") is None else (step["q"],)), {}
            run_model = lambda m: sm.m_stat_axis1(m, name, step.get("q"))
        elif op == "mov":
            name, args, kwargs = step["f"], (), ({} if step.get("nowindow") else {"window": step["window"]})
            run_model = lambda m: sm.m_moving(m, name, step["window"])
        elif op == "fill":
            name = "fill_missing"
            method = step["method"]
            if method == "from_series":
                marg, rarg = st.model[step["src"]], st.real[step["src"]]
                out.operands.append(marg)
            elif method == "constant":
                marg = rarg = float(step["arg"])
            else:
                marg = rarg = None
            sp = step.get("span")
            lo, hi = (None, None) if sp is None else (sp[0], sp[1])
            args = (method,) if rarg is None and sp is None else ((method, rarg) if sp is None else (method, rarg, ir.Span(P(f, lo), P(f, hi))))
            kwargs = {}
            run_model = lambda m: sm.m_fill(m, method, marg.copy() if isinstance(marg, sm.SModel) else marg, lo, hi)
        else:
            name = "extrapolate"
            ar = step["ar"]
            lo, hi = step["span"]
            args = (ar if isinstance(ar, (int, float)) else tuple(ar), ir.Span(P(f, lo), P(f, hi)))
            kwargs = {k: step[k] for k in ("intercept", "log") if k in step}
            arl = [float(ar)] if isinstance(ar, (int, float)) else [float(z) for z in ar]
            run_model = lambda m: sm.m_extrapolate(m, arl, lo, hi, float(step.get("intercept", 0.0)), bool(step.get("log", False)))
        if op == "stat" and step.get("axis", 1) == 0:
            got = R(getattr(ir, name), x, *args, axis=0)
            want, mag = sm.m_stat_axis0(src, name, step.get("q"))
            exp = want[0] if len(want) == 1 else want
            gl = [got] if not isinstance(got, list) else got
            ok = (isinstance(got, list) == (len(want) > 1)) and len(gl) == len(want) and all(
                sm.same_value(float(g), w, sm.ARITH, s * s if name.endswith("var") else s) for g, w, s in zip(gl, want, mag))
            c.event("model", f"stat0:{name}", key=_key(st, "stat0:" + name, out.operands), nontrivial=bool(src.cells))
            if not ok:
                c.violation(f"model:stat0:{name}:mismatch", f"{name}(axis=0) returned {rt.short(got, 200)}, expected {rt.short(exp, 200)}")
            out.skip_event = True
            return out
        if method_form:
            R(getattr(x, name), *args, **kwargs)
            tgt, m = step["s"], src
        else:
            real = R(getattr(ir, name), x, *args, **kwargs)
            tgt, m = step["t"], src.copy()
            _store(st, tgt, real, m)
        out.check = run_model(m)
        out.target = tgt
        sub = step.get("f") or step.get("method") or ""
        out.op = f"{op}:{sub}:{step['form']}" if sub else f"{op}:{step['form']}"

    elif op == "iso":
        x = st.real[step["s"]]
        out.operands = [st.model[step["s"]]]
        out.skip_event = True
        try:
            with np.errstate(all="ignore"):
                getattr(ir, step["f"])(x)
        except Exception as exc:
            c.inconc(f"iso:{step['f']}:raised:{type(exc).__name__}(semantics belong to C13)")

    else:
        raise ValueError(f"unknown op {op}")
    return out


def _scalar(spec):
    v = spec["c"]
    if spec.get("t") == "int":
        return int(v)
    if spec.get("t") == "np":
        return np.float64(v)
    return float(v)


def _same_nested(got, expect):
    if isinstance(expect, (list, tuple)):
        if not isinstance(got, (list, tuple)) or len(got) != len(expect) or isinstance(got, list) != isinstance(expect, list):
            return False
        return all(_same_nested(g, e) for g, e in zip(got, expect))
    try:
        return sm.same_value(float(got), float(expect), 0.0)
    except Exception:
        return False


def _check_observers(c, f, x, m):
    """the public observers agree with each other and with the shadow"""
    c.event("read", "observers", key=("obs", f, m.nv, m.num_rows() > 0, m.has_interior_missing()), nontrivial=bool(m.cells))
    n = m.num_rows()
    problems = []
    if tuple(x.shape) != (n, m.nv):
        problems.append(f"shape {x.shape} vs {(n, m.nv)}")
    if x.num_periods != n or x.num_variants != m.nv:
        problems.append(f"num_periods/num_variants {x.num_periods}/{x.num_variants}")
    if bool(x.is_empty) != (n * m.nv == 0):
        problems.append(f"is_empty {x.is_empty}")
    if m.lo is not None:
        if ord_of(f, x.start) != m.lo:
            problems.append("start")
        if ord_of(f, x.end) != m.hi:
            problems.append(f"end {x.end}")
        per = x.periods
        if [ord_of(f, p) for p in per] != m.span_ords():
            problems.append(f"periods {per[:3]}..")
        if n and [ord_of(f, p) for p in x.span] != m.span_ords():
            problems.append("span")
    else:
        if x.end is not None or tuple(x.periods) != () or tuple(x.span) != ():
            problems.append("end/periods/span of a series without start")
    if m.lo is not None or n == 0:
        want = m.dense(m.lo, m.hi) if m.lo is not None else np.full((0, m.nv), np.nan)
        got = np.asarray(x.get_data())
        if got.shape != want.shape or not np.array_equal(got.astype(float), want, equal_nan=True):
            problems.append(f"get_data() {rt.short(got.tolist(), 200)} vs {rt.short(want.tolist(), 200)}")
        if bool(x.has_missing) != bool(n and np.isnan(want).any()):
            problems.append(f"has_missing {x.has_missing}")
    for p in problems[:2]:
        c.violation("read:observers:mismatch", f"public observers disagree with the shadow: {p}")


def _key(st, op, operands):
    ms = [o for o in operands if isinstance(o, sm.SModel)]
    nvpat = "x".join(str(o.nv) for o in ms)
    rel = _relpos(ms[0], ms[1]) if len(ms) >= 2 else ("empty" if ms and not ms[0].cells else "single")
    return (op, st.freq, nvpat, rel, any(o.has_interior_missing() for o in ms))


def _raised_context(st, step):
    """narrow context tag for exceptions that are known crash-on-empty mechanisms"""
    op = step["op"]
    try:
        if op == "binop" and isinstance(step["a"], int) and isinstance(step["b"], int):
            if not st.model[step["a"]].has_start() and not st.model[step["b"]].has_start():
                return ":both-operands-without-start"
        if op in ("stat", "mov") and st.model[step["s"]].num_rows() == 0:
            return ":no-rows"
        if op == "clip" and not st.model[step["s"]].has_start():
            return ":no-start"
        if op == "set" and step["dform"] == "series" and not _spec_ords(step["periods"], st.model[step["s"]]):
            return ":series-data-no-period-addressed"
        if op == "fill" and step["method"] == "from_series" and st.model[step["src"]].nv > 1:
            return ":multi-variant-filler"
    except Exception:
        pass
    return ""


def _op_label(step):
    op = step["op"]
    if op in ("elem", "stat", "mov"):
        return f"{op}:{step['f']}"
    if op == "fill":
        return f"fill:{step['method']}"
    if op == "binop":
        return f"binop:{step['f']}"
    if op == "shift":
        return f"shift:{step['by'] if isinstance(step['by'], str) else 'int'}"
    if op == "set":
        return f"set:{step['dform']}"
    if op == "get":
        return f"get:{step['via']}"
    return op


def run_step(c, st, step):
    """execute + compare; never raises"""
    before = {i: st.model[i].copy() for i in st.live()}
    try:
        with np.errstate(all="ignore"):
            out = exec_step(c, st, step)
    except _Broken as exc:
        c.violation(f"model:{_op_label(step)}:representation", f"{exc}")
        _resync_all(c, st)
        return
    except _RealRaised as rr:
        exc = rr.exc
        for i in st.live():
            if i in before:
                st.model[i] = before[i]
        ctx_tag = _raised_context(st, step)
        c.event("model", step["op"] + ":raised", key=None)
        label = step["op"] if ctx_tag else _op_label(step)
        c.violation(f"{label}:raised:{type(exc).__name__}{ctx_tag}",
                    f"{_op_label(step)} raised {type(exc).__name__}: {exc} on an input inside the quantifier", detail={"step": step})
        # a method form that raised half-way leaves its receiver in an undefined state: retire it
        if step["op"] in ("set", "clip") or step.get("form") == "method":
            st.real[step["s"]] = None
            st.model[step["s"]] = None
        _resync_all(c, st, quiet=True)
        return
    except Exception as exc:
        c.inconc(f"model:harness-error:{type(exc).__name__}")
        c.extra.setdefault("harness_trace", (repr(exc) + " @ " + rt.short(step, 300))[:600])
        _resync_all(c, st, quiet=True)
        return
    try:
        _compare(c, st, step, out, before)
    except Exception as exc:
        c.inconc(f"model:monitor-error:{type(exc).__name__}")
        _resync_all(c, st, quiet=True)


def _resync_all(c, st, quiet=False):
    for i in st.live():
        try:
            st.model[i] = observe(st.freq, st.real[i])
        except Exception:
            st.real[i] = None
            st.model[i] = None


def _compare(c, st, step, out, before):
    f = st.freq
    tgt = out.target
    label = out.op
    vk = _vkey(step, out)
    if tgt is not None and st.real[tgt] is not None:
        x = st.real[tgt]
        m = st.model[tgt]
        try:
            got = observe(f, x)
        except _Broken as exc:
            c.violation(f"model:{vk}:representation", f"after {label}: {exc}")
            st.real[tgt] = None
            st.model[tgt] = None
            got = None
        if got is not None:
            if not out.skip_event:
                ops = out.operands or [m]
                c.event("model", label, key=_key(st, label, ops), nontrivial=all(o.cells for o in ops if isinstance(o, sm.SModel)))
            if out.resync:
                if not got.covered():
                    c.violation(f"model:{vk}:span-not-covering", "reported span does not cover the non-missing values")
                st.model[tgt] = got
            else:
                if got.nv != m.nv:
                    c.violation(f"model:{vk}:variants", f"after {label}: {got.nv} variants, expected {m.nv}")
                    st.model[tgt] = got
                else:
                    bad = sm.diff_cells(got.cells, m, out.check)
                    if bad:
                        desc = "; ".join(f"{_plabel(f, t)}[v{v}] is {o} expected {e}" for (t, v), o, e in bad)
                        c.violation(f"model:{vk}:cell-mismatch", f"after {label}: {desc}", detail={"step": step})
                    if (out.check and out.check.span_exact) or out.trim_promised:
                        if not got.is_trimmed():
                            if not got.cells and got.has_start():
                                c.violation(f"model:{vk}:empty-with-start", f"after {label}: all-missing result keeps start / rows (span {got.lo}..{got.hi})")
                            else:
                                c.violation(f"model:{vk}:not-trimmed", f"after {label}: reported span {_plabel(f, got.lo)}..{_plabel(f, got.hi)} has all-missing edge periods")
                    # the model continues from what the real object reports (span always; cells where not decided)
                    chk = out.check
                    if bad or (chk and (chk.undecided or chk.alt or chk.rtol)):
                        st.model[tgt] = got
                    else:
                        m.set_span(got.lo, got.hi)
    # frame: every other live series is unchanged
    others = [i for i in st.live() if i != tgt and i in before]
    if others:
        c.event("frame", label.split(":")[0], n=len(others))
    for i in others:
        try:
            got = observe(f, st.real[i])
        except _Broken as exc:
            c.violation(f"isolation:other-series-changed:{label.split(':')[0]}", f"{exc}")
            st.real[i] = None
            st.model[i] = None
            continue
        old = before[i]
        if got.nv != old.nv or got.cells != old.cells or (got.lo, got.hi) != (old.lo, old.hi):
            base = label.split(":")[0]
            if old.nv == 1 and got.nv > 1 and (got.lo, got.hi) == (old.lo, old.hi) and all(
                    got.cells.get((t, v)) == x for (t, _), x in old.cells.items() for v in range(got.nv)) and len(got.cells) == len(old.cells) * got.nv:
                c.violation(f"isolation:argument-variants-broadcast-in-place:{base}",
                            f"{label} broadcast another live series in place from 1 to {got.nv} variants")
            else:
                c.violation(f"isolation:other-series-changed:{base}",
                            f"{label} changed a series that is neither receiver nor result: span {old.lo}..{old.hi} -> {got.lo}..{got.hi}, variants {old.nv} -> {got.nv}",
                            detail={"step": step})
            st.model[i] = got
        else:
            st.model[i] = old


def _vkey(step, out):
    """violation-key stem: the operation family (the individual element-wise / statistic / moving function goes to the message)"""
    if step["op"] in ("elem", "stat", "mov"):
        return f"{step['op']}:{step.get('form', '')}"
    return out.op


def _plabel(f, t):
    if t is None:
        return "None"
    try:
        return str(P(f, t))
    except Exception:
        return str(t)


def run_history(c, case, gen=None):
    """case = {"kind": "history", "freq": F, "steps": [...]}; with gen, steps are drawn on the fly and appended"""
    st = State(case["freq"])
    with c.running(case):
        if gen is None:
            for step in list(case["steps"]):
                run_step(c, st, step)
        else:
            n = gen.length
            for _ in range(n):
                step = gen.next_step(st)
                if step is None:
                    break
                case["steps"].append(step)
                run_step(c, st, step)
    return st


# ------------------------------------------------------------------------------
# Workload generator
# ------------------------------------------------------------------------------

BASE = {"Y": 2020, "H": 2020 * 2, "Q": 2020 * 4, "M": 2020 * 12 + 6, "I": 0}


class Gen:
    def __init__(self, rng, freq, length, tier="quick"):
        self.rng = rng
        self.freq = freq
        self.length = length
        self.tier = tier
        if freq == "D":
            import datetime
            self.base = datetime.date(*[(2019, 12, 24), (2020, 2, 24), (2021, 6, 10)][int(rng.integers(0, 3))]).toordinal()
        elif freq == "I":
            self.base = int(rng.choice([0, -3, 5, 100]))
        else:
            self.base = BASE[freq] + int(rng.integers(-3, 4))
        self.max_nv = int(rng.choice([1, 2, 3, 3]))

    # -- small helpers
    def ri(self, a, b):
        return int(self.rng.integers(a, b + 1))

    def chance(self, p):
        return bool(self.rng.random() < p)

    def pick(self, seq):
        return seq[int(self.rng.integers(0, len(seq)))]

    def values(self, n, nv, style=None, nanpat=None):
        rng = self.rng
        style = style or self.pick(["int", "pos", "mixed", "unit", "onezero", "mixed", "pos"])
        if style == "int":
            a = rng.integers(-3, 7, size=(n, nv)).astype(float)
        elif style == "pos":
            a = np.round(rng.uniform(0.1, 5.0, size=(n, nv)), 3)
        elif style == "unit":
            a = np.round(rng.uniform(-0.95, 0.95, size=(n, nv)), 3)
        elif style == "onezero":
            a = rng.integers(0, 3, size=(n, nv)).astype(float)
        else:
            a = np.round(rng.normal(0.0, 2.0, size=(n, nv)), 3)
        nanpat = nanpat or self.pick(["none", "none", "lead", "trail", "interior", "scatter", "variant", "edges", "all"] if n else ["none"])
        if n:
            if nanpat == "lead":
                a[: self.ri(1, max(1, n // 2)), :] = np.nan
            elif nanpat == "trail":
                a[n - self.ri(1, max(1, n // 2)):, :] = np.nan
            elif nanpat == "edges":
                a[0, :] = np.nan
                a[-1, :] = np.nan
            elif nanpat == "interior" and n >= 3:
                i = self.ri(1, n - 2)
                j = self.ri(i, n - 2)
                a[i:j + 1, :] = np.nan
            elif nanpat == "scatter":
                a[rng.random((n, nv)) < 0.3] = np.nan
            elif nanpat == "variant" and nv > 1:
                a[:, self.ri(0, nv - 1)] = np.nan
                if self.chance(0.5):
                    a[rng.random((n, nv)) < 0.2] = np.nan
            elif nanpat == "all" and self.chance(0.4):
                a[:, :] = np.nan
        return [[float(x) for x in r] for r in a]

    def start_near(self, st, n):
        """start ordinal placed relative to an existing live series: overlap / touch / disjoint / same / free"""
        spans = [m.cell_span() for m in st.model if m is not None and m.cells]
        if spans and self.chance(0.8):
            lo, hi = self.pick(spans)
            how = self.pick(["overlap", "touch_after", "touch_before", "disjoint_after", "disjoint_before", "same", "inside"])
            if how == "overlap":
                return self.ri(lo - max(n - 1, 0), hi)
            if how == "touch_after":
                return hi + 1
            if how == "touch_before":
                return lo - n
            if how == "disjoint_after":
                return hi + 1 + self.ri(1, 3)
            if how == "disjoint_before":
                return lo - n - self.ri(1, 3)
            if how == "same":
                return lo
            return self.ri(lo, max(lo, hi - n + 1))
        return self.base + self.ri(-6, 8)

    def ord_near(self, m, wide=4):
        if m is not None and m.lo is not None and m.hi >= m.lo:
            return self.ri(m.lo - wide, m.hi + wide)
        cs = m.cell_span() if m is not None else None
        if cs:
            return self.ri(cs[0] - wide, cs[1] + wide)
        return self.base + self.ri(-5, 5)

    def length_n(self):
        return int(self.pick([0, 1, 1, 2, 3, 4, 5, 6, 7, 8, 10, 12]))

    def nv(self):
        return self.ri(1, self.max_nv)

    def free_slot(self, st, avoid=()):
        empty = [i for i in range(NSLOTS) if st.real[i] is None]
        if empty and (len(st.live()) < 2 or self.chance(0.6)):
            return empty[0]
        cands = [i for i in range(NSLOTS) if i not in avoid] or list(range(NSLOTS))
        return self.pick(cands)

    def periods_spec(self, m, for_write=False, allow_open=False):
        kinds = ["one", "list", "span", "span", "all"]
        if allow_open and m.lo is not None:
            kinds += ["open_lo", "open_hi"]
        k = self.pick(kinds)
        if k == "one":
            return {"k": "one", "p": self.ord_near(m)}
        if k == "list":
            cnt = self.ri(1, 5)
            ps = [self.ord_near(m) for _ in range(cnt)]
            if for_write:
                ps = list(dict.fromkeys(ps))
            return {"k": "list", "ps": ps}
        if k == "span":
            a = self.ord_near(m)
            return {"k": "span", "a": a, "b": a + self.ri(0, 6)}
        if k == "open_lo":
            return {"k": "open_lo", "b": self.ord_near(m, 2)}
        if k == "open_hi":
            return {"k": "open_hi", "a": self.ord_near(m, 2)}
        return {"k": "all"}

    def variants_spec(self, nv, for_write=False):
        r = self.rng.random()
        if r < 0.45:
            return None
        if r < 0.7:
            return self.ri(0, nv - 1)
        if r < 0.9:
            cnt = self.ri(1, nv)
            return [int(v) for v in self.rng.permutation(nv)[:cnt]]
        a = self.ri(0, nv - 1)
        return {"slice": [a, self.ri(a + 1, nv), None]}

    # -- constructors
    def ctor(self, st, t):
        kind = self.pick(["start", "start", "start", "periods", "periods", "fsa", "func", "empty"])
        nv = self.nv()
        n = self.length_n()
        if kind == "empty" and not self.chance(0.5):
            kind = "start"
        if kind == "empty":
            return {"op": "ctor_empty", "t": t, "nv": nv}
        if kind == "start":
            vform = self.pick(["a1", "a2", "a2", "a2", "tuple", "scalar", "lvars"])
            start = self.start_near(st, n)
            if vform == "a1":
                return {"op": "ctor_start", "t": t, "start": start, "vform": "a1", "nv": 1, "n": n, "values": [r[0] for r in self.values(n, 1)]}
            if vform == "a2":
                return {"op": "ctor_start", "t": t, "start": start, "vform": "a2", "nv": nv, "n": n, "values": self.values(n, nv)}
            if vform == "tuple":
                n = max(n, 1)
                return {"op": "ctor_start", "t": t, "start": start, "vform": "tuple", "nv": nv, "n": n, "values": [r[0] for r in self.values(n, 1)]}
            if vform == "scalar":
                return {"op": "ctor_start", "t": t, "start": start, "vform": "scalar", "nv": nv, "n": 1, "values": self.values(1, 1, nanpat="none")[0][0]}
            n = max(n, 1)
            rows = self.values(n, nv)
            return {"op": "ctor_start", "t": t, "start": start, "vform": "lvars", "nv": nv, "n": n, "values": [[rows[i][v] for i in range(n)] for v in range(nv)]}
        if kind == "fsa":
            n = max(n, 1)
            return {"op": "ctor_fsa", "t": t, "start": self.start_near(st, n), "nv": nv, "values": self.values(n, nv), "trim": self.chance(0.7)}
        if kind == "func":
            n = max(n, 1)
            a = self.start_near(st, n)
            return {"op": "ctor_func", "t": t, "nv": nv, "base": float(self.ri(-3, 3)), "periods": {"k": "span", "a": a, "b": a + n - 1}}
        # periods + values
        n = max(n, 1)
        a = self.start_near(st, n)
        pk = self.pick(["span", "list", "one"])
        if pk == "one":
            spec, cnt = {"k": "one", "p": a}, 1
        elif pk == "span":
            spec, cnt = {"k": "span", "a": a, "b": a + n - 1}, n
        else:
            ps = list(dict.fromkeys(a + self.ri(0, n + 3) for _ in range(n)))
            spec, cnt = {"k": "list", "ps": ps}, len(ps)
        dform, data = self.write_data(cnt, nv)
        return {"op": "ctor_periods", "t": t, "nv": nv, "periods": spec, "dform": dform, "data": data}

    def write_data(self, cnt, nvids, allow_nan_scalar=True):
        dform = self.pick(["scalar", "a1", "a2", "a2", "tuple", "lvars"])
        if cnt == 0 and dform in ("tuple", "lvars"):
            dform = "a1"
        if dform == "scalar":
            v = float("nan") if allow_nan_scalar and self.chance(0.25) else self.values(1, 1, nanpat="none")[0][0]
            return dform, v
        if dform in ("a1", "tuple"):
            return dform, [r[0] for r in self.values(cnt, 1)]
        rows = self.values(cnt, nvids)
        if dform == "a2":
            return dform, rows
        ncol = nvids if self.chance(0.7) else 1
        return dform, [[rows[i][v] for i in range(cnt)] for v in range(ncol)]

    # -- one step
    def next_step(self, st):
        live = st.live()
        if not live or (len(live) < 2 and self.chance(0.5)):
            return self.ctor(st, self.free_slot(st))
        # blown-up magnitudes: replace the series
        for i in live:
            m = st.model[i]
            if m.cells and max(abs(x) for x in m.cells.values()) > 1e9:
                return self.ctor(st, i)
        # empty series are absorbing under most operations: refill some of them
        for i in live:
            if not st.model[i].cells and self.chance(0.3):
                return self.ctor(st, i)
        fam = self.pick(_FAMILIES)
        for _ in range(6):
            step = getattr(self, "g_" + fam)(st)
            if step is not None:
                return step
            fam = self.pick(_FAMILIES)
        return self.ctor(st, self.free_slot(st))

    def any_live(self, st):
        return self.pick(st.live())

    def compatible_pair(self, st, same_ok=True):
        live = st.live()
        for _ in range(8):
            a, b = self.pick(live), self.pick(live)
            if a == b and not same_ok:
                continue
            na, nb = st.model[a].nv, st.model[b].nv
            if na == nb or na == 1 or nb == 1:
                return a, b
        return None

    def g_ctor(self, st):
        return self.ctor(st, self.free_slot(st))

    def g_copy(self, st):
        s = self.any_live(st)
        return {"op": "copy", "s": s, "t": self.free_slot(st, avoid=(s,))}

    def g_get(self, st):
        s = self.any_live(st)
        m = st.model[s]
        via = self.pick(["getitem", "getitem", "get_data", "get_values"])
        spec = self.periods_spec(m, allow_open=True)
        var = self.variants_spec(m.nv)
        step = {"op": "get", "s": s, "via": via, "periods": spec, "variants": var}
        if var is None and via == "getitem" and self.chance(0.3):
            step["tuple_index"] = True
        return step

    def g_observers(self, st):
        return {"op": "observers", "s": self.any_live(st)}

    def g_recreate(self, st):
        s = self.any_live(st)
        m = st.model[s]
        return {"op": "recreate", "s": s, "t": self.free_slot(st), "periods": self.periods_spec(m), "variants": self.variants_spec(m.nv)}

    def g_getshift(self, st):
        s = self.any_live(st)
        return {"op": "getshift", "s": s, "t": self.free_slot(st), "by": self.pick([-1, -1, 1, -2, 2, -4, 3, 0, -7])}

    def g_set(self, st):
        s = self.any_live(st)
        m = st.model[s]
        spec = self.periods_spec(m, for_write=True)
        if spec["k"] == "all" and self.chance(0.5):
            spec = self.periods_spec(m, for_write=True)
        var = self.variants_spec(m.nv)
        _, vids = _variants_arg(var, m.nv)
        ords = _spec_ords(spec, m)
        via = self.pick(["setitem", "setitem", "set_data"])
        step = {"op": "set", "s": s, "via": via, "periods": spec, "variants": var}
        r = self.rng.random()
        if r < 0.12 and m.cells:
            # NaN over (a superset of) the whole span: empties the series
            cs = m.cell_span()
            step["periods"] = {"k": "span", "a": cs[0] - self.ri(0, 2), "b": cs[1] + self.ri(0, 2)} if self.chance(0.7) else {"k": "all"}
            step["variants"] = None
            step["dform"], step["data"] = "scalar", float("nan")
            return step
        if r < 0.3:
            srcs = [i for i in st.live() if st.model[i].nv in (1, len(vids))]
            if srcs:
                step["dform"], step["src"] = "series", self.pick(srcs)
                return step
        step["dform"], step["data"] = self.write_data(len(ords), len(vids))
        return step

    def g_shift(self, st):
        s = self.any_live(st)
        choices = [-1, 1, -2, 3, -4, 0, 5]
        if self.freq in sm.PER_YEAR:
            choices += ["yoy", "soy", "eopy", "tty", "soy", "eopy"]
        elif self.freq == "D":
            choices += ["soy", "eopy"]
        form = self.pick(["method", "func"])
        return {"op": "shift", "s": s, "by": self.pick(choices), "form": form, "t": self.free_slot(st) if form == "func" else s}

    def g_clip(self, st):
        s = self.any_live(st)
        m = st.model[s]
        a = None if self.chance(0.25) else self.ord_near(m, 3)
        b = None if self.chance(0.25) else self.ord_near(m, 3)
        if a is not None and b is not None and b < a and self.chance(0.8):
            a, b = b, a
        if self.chance(0.08) and m.lo is not None:
            a = m.hi + self.ri(2, 5)
            b = a + self.ri(0, 3)
        return {"op": "clip", "s": s, "a": a, "b": b}

    def g_lay(self, st):
        pair = self.compatible_pair(st, same_ok=False)
        if pair is None:
            return None
        s, o = pair
        form = self.pick(["method", "func"])
        return {"op": self.pick(["overlay", "underlay"]), "s": s, "o": o, "form": form, "t": self.free_slot(st, avoid=(o,)) if form == "func" else s}

    def g_hstack(self, st):
        live = st.live()
        k = self.pick([2, 2, 2, 3, 1])
        srcs = [self.pick(live) for _ in range(k)]
        if sum(st.model[i].nv for i in srcs) > 4:
            return None
        via = "method" if k != 2 else self.pick(["method", "or", "and"])
        return {"op": "hstack", "srcs": srcs, "via": via, "t": self.free_slot(st)}

    def scalar(self):
        v = self.pick([0, 1, 2, -1, 3, 0.5, 1.5, -2.5, 2.0, 10])
        t = "int" if isinstance(v, int) and self.chance(0.6) else ("np" if self.chance(0.15) else "float")
        return {"c": float(v), "t": t}

    def g_binop(self, st):
        fn = self.pick(BINOPS + ("add", "sub", "mul", "truediv"))
        r = self.rng.random()
        if r < 0.6 and len(st.live()) >= 1:
            pair = self.compatible_pair(st)
            if pair is None:
                return None
            a, b = pair
        elif r < 0.8:
            a, b = self.any_live(st), self.scalar()
        else:
            a, b = self.scalar(), self.any_live(st)
            if a["t"] == "np":
                a["t"] = "float"
        return {"op": "binop", "f": fn, "a": a, "b": b, "t": self.free_slot(st)}

    def g_unary(self, st):
        fn = self.pick(["neg", "pos", "abs", "round"])
        step = {"op": "unary", "f": fn, "s": self.any_live(st), "t": self.free_slot(st)}
        if fn == "round":
            step["arg"] = self.ri(0, 2)
        return step

    def g_cmp(self, st):
        a = self.any_live(st)
        if self.chance(0.5):
            pair = self.compatible_pair(st)
            if pair is None:
                return None
            a, b = pair
            if not st.model[a].has_start() and not st.model[b].has_start():
                return None
        else:
            b = self.scalar()
        return {"op": "cmp", "f": self.pick(CMPOPS), "a": a, "b": b}

    def g_apply(self, st):
        return {"op": "apply", "fn": self.pick(list(APPLY_FUNCS)), "s": self.any_live(st), "t": self.free_slot(st)}

    def form_and_target(self, st, s):
        form = self.pick(["method", "func"])
        return form, (self.free_slot(st) if form == "func" else s)

    def g_elem(self, st):
        s = self.any_live(st)
        name = self.pick(sorted(sm.ELEMENTWISE))
        form, t = self.form_and_target(st, s)
        step = {"op": "elem", "f": name, "s": s, "form": form, "t": t}
        if name == "round":
            step["arg"] = self.ri(0, 2)
        elif name in ("maximum", "minimum"):
            step["arg"] = float(self.pick([0.0, 1.0, -1.5, 2.5]))
        return step

    def g_stat(self, st):
        s = self.any_live(st)
        name = self.pick(sm.STAT_ALL)
        form, t = self.form_and_target(st, s)
        step = {"op": "stat", "f": name, "s": s, "form": form, "t": t, "axis": 1}
        if name.endswith("percentile"):
            step["q"] = float(self.pick([0, 25, 50, 80, 100]))
        elif name.endswith("quantile"):
            step["q"] = float(self.pick([0.0, 0.25, 0.5, 0.8, 1.0]))
        if self.chance(0.3) and st.model[s].num_rows() > 0:
            step["axis"], step["form"], step["t"] = 0, "func", s
        return step

    def g_mov(self, st):
        s = self.any_live(st)
        form, t = self.form_and_target(st, s)
        step = {"op": "mov", "f": self.pick(MOVS), "s": s, "form": form, "t": t}
        if self.chance(0.2) and self.freq != "D":
            step["window"], step["nowindow"] = None, True
        else:
            step["window"] = -self.ri(1, 5)
            if self.chance(0.1):
                step["window"], step["explicit_none"] = None, True
        return step

    def g_fill(self, st):
        s = self.any_live(st)
        m = st.model[s]
        method = self.pick(FILLS)
        form, t = self.form_and_target(st, s)
        step = {"op": "fill", "method": method, "s": s, "form": form, "t": t}
        if method == "constant":
            step["arg"] = float(self.pick([0.0, 1.0, -2.5, 9.0]))
        elif method == "from_series":
            cands = [i for i in st.live() if st.model[i].nv in (1, m.nv)]
            if not cands:
                return None
            step["src"] = self.pick(cands)
        if self.chance(0.5) or (method in ("constant", "from_series") and self.chance(0.3)):
            if method in ("constant", "from_series"):
                a = self.ord_near(m, 3)
                step["span"] = [a, a + self.ri(0, 8)]
            elif m.lo is not None and m.hi >= m.lo:
                step["span"] = [m.lo - self.ri(0, 3), m.hi + self.ri(0, 3)]
            elif not m.has_start():
                a = self.ord_near(m, 3)
                step["span"] = [a, a + self.ri(0, 4)]
        if method == "log_linear" and m.cells and min(m.cells.values()) <= 0 and self.chance(0.7):
            return None
        return step

    def g_extrap(self, st):
        s = self.any_live(st)
        m = st.model[s]
        form, t = self.form_and_target(st, s)
        p = self.pick([1, 1, 2, 3])
        ar = [float(self.pick([0.5, 0.9, -0.4, 0.2, 1.0, 0.3])) for _ in range(p)]
        cs = m.cell_span()
        if cs and self.chance(0.8):
            a = cs[1] + 1 - self.ri(0, 2)
        else:
            a = self.ord_near(m, 3)
        step = {"op": "extrap", "s": s, "form": form, "t": t, "ar": ar[0] if p == 1 and self.chance(0.4) else ar,
                "span": [a, a + self.ri(0, 6)]}
        if self.chance(0.5):
            step["intercept"] = float(self.pick([0.0, 1.0, -0.5]))
        if self.chance(0.25):
            step["log"] = True
        return step

    def g_iso(self, st):
        return {"op": "iso", "f": self.pick(ISO_ONLY_FUNCS), "s": self.any_live(st)}


def _spec_ords(spec, m):
    k = spec["k"]
    if k == "one":
        return [spec["p"]]
    if k == "list":
        return list(spec["ps"])
    if k == "span":
        return list(range(spec["a"], spec["b"] + 1))
    return m.span_ords()


_FAMILIES = (
    ["ctor"] * 5 + ["copy"] * 2 + ["get"] * 6 + ["observers"] * 2 + ["recreate"] * 3 + ["getshift"] * 2 + ["set"] * 10
    + ["shift"] * 5 + ["clip"] * 4 + ["lay"] * 7 + ["hstack"] * 3 + ["binop"] * 10 + ["unary"] * 2 + ["cmp"] * 2
    + ["apply"] * 2 + ["elem"] * 5 + ["stat"] * 4 + ["mov"] * 4 + ["fill"] * 6 + ["extrap"] * 3 + ["iso"] * 1
)


# ------------------------------------------------------------------------------
# Directed histories (deterministic; every known finding is hit on every run)
# ------------------------------------------------------------------------------


def directed_histories():
    q = BASE["Q"]
    two = [[1.0, 2.0], [3.0, 4.0], [float("nan"), 6.0], [7.0, float("nan")]]
    one = [10.0, 20.0, float("nan"), 40.0]
    H = []
    # overlay / underlay (method and functional) with a 1-variant argument and an n-variant receiver
    for op in ("overlay", "underlay"):
        for form in ("method", "func"):
            H.append({"kind": "history", "freq": "Q", "directed": f"{op}:{form}:1-variant argument", "steps": [
                {"op": "ctor_start", "t": 0, "start": q, "vform": "a2", "nv": 2, "n": 4, "values": two},
                {"op": "ctor_start", "t": 1, "start": q + 2, "vform": "a1", "nv": 1, "n": 4, "values": one},
                {"op": op, "s": 0, "o": 1, "form": form, "t": 2 if form == "func" else 0},
                {"op": "observers", "s": 1},
                {"op": op, "s": 1, "o": 0, "form": form, "t": 3 if form == "func" else 1},
            ]})
    # both operands without start
    H.append({"kind": "history", "freq": "M", "directed": "empty (op) empty", "steps": [
        {"op": "ctor_empty", "t": 0, "nv": 1},
        {"op": "ctor_empty", "t": 1, "nv": 2},
        {"op": "binop", "f": "add", "a": 0, "b": 1, "t": 2},
        {"op": "binop", "f": "mul", "a": 0, "b": 0, "t": 2},
        {"op": "binop", "f": "add", "a": 0, "b": {"c": 1.0, "t": "float"}, "t": 2},
    ]})
    # statistics / moving window / clip on series without rows
    H.append({"kind": "history", "freq": "Y", "directed": "statistics, moving window, clip on an empty series", "steps": [
        {"op": "ctor_empty", "t": 0, "nv": 2},
        {"op": "stat", "f": "sum", "s": 0, "form": "func", "t": 1, "axis": 1},
        {"op": "mov", "f": "mov_sum", "s": 0, "form": "func", "t": 1, "window": -2},
        {"op": "clip", "s": 0, "a": None, "b": None},
        {"op": "stat", "f": "nanmean", "s": 0, "form": "method", "t": 0, "axis": 1},
        {"op": "ctor_empty", "t": 0, "nv": 1},
        {"op": "mov", "f": "mov_avg", "s": 0, "form": "method", "t": 0, "window": -3},
        {"op": "ctor_empty", "t": 0, "nv": 3},
        {"op": "clip", "s": 0, "a": 2019, "b": 2021},
        {"op": "ctor_start", "t": 2, "start": 2020, "vform": "a1", "nv": 1, "n": 3, "values": [1.0, 2.0, 3.0]},
        {"op": "clip", "s": 2, "a": 2030, "b": 2031},
        {"op": "observers", "s": 2},
        {"op": "stat", "f": "max", "s": 2, "form": "func", "t": 3, "axis": 1},
        {"op": "mov", "f": "mov_prod", "s": 2, "form": "func", "t": 3, "window": -2},
        {"op": "binop", "f": "add", "a": 2, "b": {"c": 1.0, "t": "float"}, "t": 3},
        {"op": "set", "s": 2, "via": "setitem", "periods": {"k": "one", "p": 2022}, "variants": None, "dform": "scalar", "data": 5.0},
    ]})
    # fill_missing from a multi-variant series
    H.append({"kind": "history", "freq": "Q", "directed": "fill_missing from_series with a multi-variant filler", "steps": [
        {"op": "ctor_start", "t": 0, "start": q, "vform": "a2", "nv": 2, "n": 4, "values": two},
        {"op": "ctor_start", "t": 1, "start": q, "vform": "a2", "nv": 2, "n": 4, "values": [[9.0, 8.0]] * 4},
        {"op": "ctor_start", "t": 2, "start": q + 1, "vform": "a1", "nv": 1, "n": 4, "values": one},
        {"op": "fill", "method": "from_series", "s": 0, "src": 2, "form": "func", "t": 3},
        {"op": "fill", "method": "from_series", "s": 0, "src": 1, "form": "func", "t": 3},
        {"op": "fill", "method": "from_series", "s": 0, "src": 1, "form": "method", "t": 0},
    ]})
    # x[...] = series on a series without periods
    H.append({"kind": "history", "freq": "I", "directed": "x[...] = series where x has no periods", "steps": [
        {"op": "ctor_empty", "t": 0, "nv": 1},
        {"op": "ctor_start", "t": 1, "start": 3, "vform": "a1", "nv": 1, "n": 3, "values": [1.0, 2.0, 3.0]},
        {"op": "set", "s": 0, "via": "setitem", "periods": {"k": "all"}, "variants": None, "dform": "scalar", "data": 2.0},
        {"op": "set", "s": 0, "via": "setitem", "periods": {"k": "all"}, "variants": None, "dform": "series", "src": 1},
    ]})
    # get_values of several variants
    H.append({"kind": "history", "freq": "H", "directed": "get_values of a multi-variant series", "steps": [
        {"op": "ctor_start", "t": 0, "start": BASE["H"], "vform": "a2", "nv": 2, "n": 4, "values": two},
        {"op": "get", "s": 0, "via": "get_values", "periods": {"k": "all"}, "variants": None},
        {"op": "get", "s": 0, "via": "get_values", "periods": {"k": "span", "a": BASE["H"] - 1, "b": BASE["H"] + 2}, "variants": [1, 0]},
        {"op": "get", "s": 0, "via": "get_values", "periods": {"k": "all"}, "variants": 1},
    ]})
    return H


# ------------------------------------------------------------------------------
# Entry points
# ------------------------------------------------------------------------------


def _prepare():
    warnings.simplefilter("ignore")
    install()


def replay(c, case):
    _prepare()
    run_history(c, case)


def shard(c):
    _prepare()
    rng = c.rng
    for k, h in enumerate(directed_histories()):
        run_history(c, h)
        if k == 0 and c.shard == 0:
            c.sample(h)
    n_hist = c.scale(2500, 200000)
    for i in range(n_hist):
        if c.out_of_time():
            break
        freq = sm.FREQS[(i + c.shard) % len(sm.FREQS)]
        length = int(rng.integers(5, 41))
        case = {"kind": "history", "freq": freq, "steps": []}
        gen = Gen(rng, freq, length, c.tier)
        try:
            run_history(c, case, gen)
        except Exception as exc:
            c.inconc(f"history:harness:{type(exc).__name__}")
            c.extra.setdefault("harness_trace", repr(exc)[:300])
        if i in (1, 2, 3) and c.shard == 0:
            c.sample({"kind": "history", "freq": freq, "n_steps": len(case["steps"]), "steps(first 8)": case["steps"][:8]})
    c.extra["histories"] = c.extra.get("histories", 0) + min(i + 1, n_hist)
