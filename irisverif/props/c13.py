"""
C13 -- change and cumulation transforms follow their formulas and invert each other

Deciding monitors (postconditions on the real Series methods; the functional forms irispie.diff(...) etc. call the
methods on a copy, so both forms are observed; oracle = irisverif.oracles.c13_model, a period-by-period evaluation of the
docstring table on a snapshot of the series):
  change      diff, diff_log, pct, roc (negative integer and keyword shifts), adiff, adiff_log, apct, aroc
  helper      roc_from_pct, pct_from_roc, pct_from_apct, roc_from_apct, roc_from_aroc (elementwise formulas)
  cumulation  cum_diff, cum_diff_log, cum_pct, cum_roc: y = initial on the initial block, then the recursion
              y_t = y_{t-k} (+) d_t forward, y_s = y_{s+k} (-) d_{s+k} backward, on the dates of the span in the order written
  shift       Series.shift (integer lags/leads and yoy/soy/eopy/tty): result_t = x_{ref(t)}
Workload-level checks (also deciding):
  identity    roc_from_pct(pct x) = roc x, pct_from_roc(roc x) = pct x, roc_from_apct(apct x) = roc x, pct_from_apct(apct x) = pct x,
              roc_from_aroc(aroc x) = roc x, each compared with the MODEL's roc/pct of x
  convert     convert_roc(aroc_t, YEARLY, f) = roc_t, convert_pct(apct_t, YEARLY, f) = pct_t, convert_pct consistent with convert_roc,
              round trip f -> g -> f
  inverse     cum_f(f(x, k), k, initial=x, span=S) == x on S wherever the chain back to the initial block has no missing link
              (a missing value breaks the chain: the change series does not carry the information)
  functional  the functional form leaves its input untouched and returns what the method form produces

Not decided (never asserted):
  * pct / apct under shift="tty" in start-of-year periods: the docstring says "unchanged" but no neutral reference exists for a
    percent change; the implementation returns a missing value on purpose (neutral_value=None).
  * keyword shifts on integer-frequency series (no year exists; irispie raises AttributeError or shifts by 0), empty series
    (TypeError in get_encompassing_span, marked FIXME in the source), positive or zero shifts, non-integer shifts.
  * values of a keyword-shifted series (Series.shift("soy"|"eopy"|"tty")) OUTSIDE the span of the input.
  * operands outside the domain of a formula (logs of non-positive numbers, zero denominators, negative bases of fractional
    powers): skipped element-wise.
  * cum_* with keyword shifts, with |step| != 1 spans, with backward spans that need resolving (Span(None, None, -1)), with an
    initial series whose number of variants differs; the default initial value 0 of cum_diff_log (documented, but it makes the
    result identically zero).
  * yoy on daily series uses s = t - 365 as documented (not the same calendar day).
"""

from __future__ import annotations

import numpy as np

from .. import runtime as rt
from ..oracles import c13_model as M

ID = "C13"
TIERS = {
    "quick": {"shards": 8, "budget_s": 30},
    "thorough": {"shards": 16, "budget_s": 300},
}
MIN_EVENTS = {"quick": 12000, "thorough": 120000}
DECIDING = {"change", "helper", "cumulation", "shift", "identity", "convert", "inverse", "functional"}
EXHAUSTIVE = {"quick": False, "thorough": False}
RULE = (
    "random series over 6 frequencies (Y,H,Q,M,D,integer) with starts at random segments (daily: around year ends and leap days), "
    "lengths 1..60, 1-3 variants, data classes positive / signed, NaN classes none / interior / ragged edges; every change function "
    "with shifts -1..-8 (also longer than the series) and the keywords yoy/soy/eopy/tty, annualised forms, helper conversions, "
    "cumulation forward and backward for k=1..8 with series / scalar / default initial values on spans inside, equal to and "
    "reaching beyond the change series, functional and method forms. distinct key = (function, freq, shift or keyword, n_variants, "
    "NaN class, span direction); non-trivial = the expected result has at least 2 non-missing values."
)
ASSUMPTIONS = [
    "period serials: regular frequencies year*f + segment - 1, daily = proleptic ordinal, integer = the number (checked against the generated (year, segment) of every case; a mismatch is inconclusive)",
    "Series.start / Series.data are the representation of a series (C10 checks the representation)",
    "IEEE arithmetic of numpy; tolerances 1e-9 relative plus 1e-12 of the operand magnitudes",
]
ANCHORS = [
    "irispie.series._temporal:Inlay.temporal_change",
    "irispie.series._temporal:Inlay.temporal_cumulation",
    "irispie.series._temporal:Inlay._cumulate_forward",
    "irispie.series._temporal:Inlay._cumulate_backward",
    "irispie.series._temporal:_catch_invalid_shift",
    "irispie.series.main:Series._shift_by_number",
    "irispie.series.main:Series._shift_yoy",
    "irispie.series.main:Series._shift_soy",
    "irispie.series.main:Series._shift_eopy",
    "irispie.series.main:Series._shift_tty",
    "irispie.series.main:Series._binop",
    "irispie.series._conversions:convert_roc",
    "irispie.series._conversions:convert_pct",
    "irispie.dates:RegularPeriodMixin.create_soy",
    "irispie.dates:RegularPeriodMixin.create_eopy",
    "irispie.dates:RegularPeriodMixin.create_tty",
    "irispie.dates:DailyPeriod.create_soy",
    "irispie.dates:DailyPeriod.create_eopy",
    "irispie.dates:DailyPeriod.create_tty",
]

CHANGE_SHIFTED = ("diff", "diff_log", "pct", "roc")
CHANGE_ANNUAL = ("adiff", "adiff_log", "apct", "aroc")
HELPERS = ("roc_from_pct", "pct_from_roc", "pct_from_apct", "roc_from_apct", "roc_from_aroc")
CUMS = {"cum_diff": "diff", "cum_diff_log": "diff_log", "cum_pct": "pct", "cum_roc": "roc"}
_KNOWN_FREQS = (0, 1, 2, 4, 12, 365)
_INSTALLED = False


def _snap(s):
    start = s.start
    data = np.array(s.data, dtype=float, copy=True)
    if data.ndim == 1:
        data = data.reshape(-1, 1)
    if start is None:
        return (None, data, None)
    return (int(start.serial), data, int(s.frequency))


def _same(a, b):
    return a[0] == b[0] and a[1].shape == b[1].shape and bool(np.all((a[1] == b[1]) | (np.isnan(a[1]) & np.isnan(b[1]))))


def _nan_class(data):
    if not np.isnan(data).any():
        return "none"
    for v in range(data.shape[1]):
        ok = np.flatnonzero(~np.isnan(data[:, v]))
        if ok.size and np.isnan(data[ok[0]:ok[-1] + 1, v]).any():
            return "interior"
    return "ragged"


def _shift_ok(shift, freq):
    """(inside quantifier, label)"""
    if isinstance(shift, str):
        if shift in M.KEYWORDS and freq in (1, 2, 4, 12, 365):
            return True, shift
        return False, f"keyword-{shift}-on-freq-{freq}"
    if isinstance(shift, bool) or not isinstance(shift, int):
        return False, "shift-not-a-python-int"
    if shift >= 0:
        return False, "non-negative-shift"
    return True, int(shift)


def _shift_label(shift):
    return shift if isinstance(shift, str) else (str(int(shift)) if shift >= -8 else "<-8")


# ------------------------------------------------------------------------------
# Postcondition evaluations
# ------------------------------------------------------------------------------


def _check_change(c, name, pre, shift, post):
    start, data, freq = pre
    E, TOL, decided, SOY = M.change_expected(pre, name, shift)
    problems = M.compare_on_span(post, start, E, TOL, decided)
    n_defined = int((~np.isnan(E) & decided).sum())
    key = (name, M.FREQ_LETTER[freq], _shift_label(shift), data.shape[1], _nan_class(data), "-")
    c.event("change", f"{name}[{'kw' if isinstance(shift, str) else 'int'}]", key=key, nontrivial=n_defined >= 2)
    for kind, i, v, e, g in problems:
        if kind == "variants":
            c.violation(f"{name}:variants-changed", f"{name}: {e} variants in, {g} out")
            continue
        at_soy = kind != "outside" and 0 <= i < SOY.shape[0] and bool(SOY[i, v])
        if at_soy and name == "diff_log":
            # no neutral reference leaves a log-difference "unchanged": accept x (documented), log x (neutral 1) or missing
            with np.errstate(all="ignore"):
                if np.isnan(g) or (np.isfinite(e) and e > 0 and abs(g - np.log(e)) <= 1e-12 * (abs(np.log(e)) + 1)):
                    continue
        if at_soy:
            k = f"{name}:tty:start-of-year-value"
            msg = (f"{name}(x, 'tty') at a start-of-year period (serial {start + i}, variant {v}): documented 'unchanged' = {e!r}, got {g!r}")
        else:
            cls = shift if isinstance(shift, str) else "int"
            k = f"{name}:{'formula' if kind == 'value' else kind}[{cls}]"
            msg = (f"{name}(x, {shift!r}) freq {M.FREQ_LETTER[freq]} at serial {start + i} (offset {i}, variant {v}): expected {e!r}, got {g!r} ({kind})")
        c.violation(k, msg)


def _check_helper(c, name, pre, post):
    start, data, freq = pre
    E, TOL, decided = M.helper_expected(name, data, freq)
    problems = M.compare_on_span(post, start, E, TOL, decided)
    key = (name, M.FREQ_LETTER[freq], "-", data.shape[1], _nan_class(data), "-")
    c.event("helper", name, key=key, nontrivial=int((~np.isnan(E)).sum()) >= 2 and M.annual_factor(freq) > 1)
    for kind, i, v, e, g in problems:
        c.violation(f"{name}:{'formula' if kind == 'value' else kind}",
                    f"{name} freq {M.FREQ_LETTER[freq]} (a={M.annual_factor(freq)}) at offset {i}, variant {v}: input {data[i, v] if kind != 'outside' and kind != 'variants' else None!r}, expected {e!r}, got {g!r}")


def _read_span(self, span, pre):
    """-> (serials in the order written | None, direction, why)"""
    S, why, step = _read_span_(self, span, pre)
    return S, ("forward" if step > 0 else "backward"), why


def _read_span_(self, span, pre):
    start, data, _ = pre
    if span is None:
        return list(range(start, start + data.shape[0])), "", 1
    try:
        step = int(span.step)
    except Exception:
        return None, "span-not-a-Span", 1
    if abs(step) != 1:
        return None, "span-step-not-1", 1
    if getattr(span, "needs_resolve", False):
        if step < 0:
            return None, "backward-span-needs-resolve", step
        try:
            span = span.resolve(self)
        except Exception:
            return None, "span-unresolvable", step
    try:
        a, b = int(span.start.serial), int(span.end.serial)
    except Exception:
        return None, "span-unreadable", step
    S = list(range(a, b + step, step))
    if not S:
        return None, "empty-span", step
    if len(S) > 5000:
        return None, "span-too-long", step
    return S, "", step


def _check_cum(c, name, pre, call, S, direction, initial, post):
    func = CUMS[name]
    shift = call["shift"]
    expected = M.cumulate_expected(pre, func, shift, initial, S, direction == "forward")
    finite = [np.abs(r[np.isfinite(r)]) for r in expected.values()]
    finite = np.concatenate(finite) if finite else np.zeros(0)
    mag = float(finite.max()) if finite.size else 0.0
    problems = M.compare_map(post, expected, tol_abs=1e-10 * mag * max(1, len(S)) ** 0.5)
    n_defined = int(sum(int(np.isfinite(r).sum()) for t, r in expected.items() if t in set(S)))
    ikind = "series" if isinstance(initial, tuple) else ("default" if call.get("initial") is None else "scalar")
    key = (name, M.FREQ_LETTER.get(pre[2], "?"), _shift_label(shift), pre[1].shape[1], _nan_class(pre[1]), f"{direction}/{ikind}")
    c.event("cumulation", f"{name}[{direction}]", key=key, nontrivial=n_defined >= 2)
    for kind, t, v, e, g in problems[:1]:
        if kind == "variants":
            c.violation(f"{name}:variants-changed", f"{name}: {e} variants expected, {g} returned")
        else:
            c.violation(f"{name}:recursion-{'value' if kind == 'value' else 'missing-pattern'}[{direction}]",
                        f"{name}(shift={shift}, initial={ikind}, span {S[0]}..{S[-1]} {direction}) at serial {t}, variant {v}: expected {e!r}, got {g!r}")


def _check_shift(c, pre, by, kwargs, post):
    start, data, freq = pre
    n, nv = data.shape
    if isinstance(by, str):
        E = np.full((n, nv), np.nan)
        neutral = kwargs.get("neutral_value")
        for i in range(n):
            ref = M.reference_serial(freq, start + i, by)
            if ref is None:
                E[i] = np.nan if neutral is None else float(neutral)
            else:
                E[i] = M.row(pre, ref)
        if by == "yoy":
            exp_snap = (start + freq, data, freq)
            ok = _equal_maps(exp_snap, post)
        else:
            got = np.array([M.row(post, start + i) for i in range(n)]) if post[1].shape[1] == nv else None
            ok = got is not None and bool(np.all((got == E) | (np.isnan(got) & np.isnan(E))))
    else:
        exp_snap = (start - int(by), data, freq)
        ok = _equal_maps(exp_snap, post)
    key = ("shift", M.FREQ_LETTER[freq], by if isinstance(by, str) else ("lag" if by < 0 else "lead" if by > 0 else "0"), nv, _nan_class(data), "-")
    c.event("shift", "kw" if isinstance(by, str) else "int", key=key, nontrivial=n >= 2)
    if not ok:
        c.violation(f"shift:wrong-result[{by if isinstance(by, str) else 'int'}]",
                    f"Series.shift({by!r}) on a {M.FREQ_LETTER[freq]} series starting at serial {start} with {n} periods: result (start {post[0]}, {post[1].shape[0]} rows) is not x[ref(t)]")


def _equal_maps(a, b):
    """two snapshots describe the same period->value map (leading/trailing all-missing rows ignored)"""
    if a[1].shape[1] != b[1].shape[1]:
        return False
    def trimmed(s):
        start, data, _ = s
        if start is None or data.shape[0] == 0:
            return None, data[:0]
        ok = np.flatnonzero(~np.all(np.isnan(data), axis=1))
        if ok.size == 0:
            return None, data[:0]
        return start + int(ok[0]), data[ok[0]:ok[-1] + 1]
    sa, da = trimmed(a)
    sb, db = trimmed(b)
    return sa == sb and da.shape == db.shape and bool(np.all((da == db) | (np.isnan(da) & np.isnan(db))))


# ------------------------------------------------------------------------------
# Monitors
# ------------------------------------------------------------------------------


def _usable(pre):
    return pre[0] is not None and pre[1].shape[0] > 0 and pre[2] in _KNOWN_FREQS


def install():
    global _INSTALLED
    if _INSTALLED:
        return
    _INSTALLED = True
    import irispie
    Series = irispie.Series

    def make_change(name, has_shift):
        def make(orig):
            def method(self, *args, **kwargs):
                c = rt.ctx()
                if c is None:
                    return orig(self, *args, **kwargs)
                pre = None
                try:
                    pre = _snap(self)
                    shift = (args[0] if args else kwargs.get("shift", -1)) if has_shift else -1
                    if shift is None:
                        shift = -1
                    inside, label = _shift_ok(shift, pre[2]) if _usable(pre) else (False, "empty-or-unknown-frequency")
                    if len(args) > 1 or (set(kwargs) - {"shift"}):
                        inside, label = False, "unexpected-arguments"
                except Exception as exc:
                    c.inconc(f"{name}:monitor-error:{type(exc).__name__}")
                    pre = None
                try:
                    result = orig(self, *args, **kwargs)
                except Exception as exc:
                    if pre is not None:
                        if inside:
                            cls = shift if isinstance(shift, str) else "int"
                            c.violation(f"change[{cls},{M.FREQ_LETTER[pre[2]]}]:raised:{type(exc).__name__}",
                                        f"{name}(x, {shift!r}) on a {M.FREQ_LETTER[pre[2]]} series raised {type(exc).__name__}: {exc}")
                        else:
                            c.inconc(f"{name}:raised-outside-quantifier:{label}")
                    raise
                if pre is None:
                    return result
                try:
                    if inside:
                        _check_change(c, name, pre, shift, _snap(self))
                    else:
                        c.inconc(f"{name}:outside-quantifier:{label}")
                except Exception as exc:
                    c.inconc(f"{name}:monitor-error:{type(exc).__name__}")
                return result
            return method
        return make

    for name in CHANGE_SHIFTED:
        rt.wrap_attr(Series, name, make_change(name, True))
    for name in CHANGE_ANNUAL:
        rt.wrap_attr(Series, name, make_change(name, False))

    def make_helper(name):
        def make(orig):
            def method(self, *args, **kwargs):
                c = rt.ctx()
                if c is None:
                    return orig(self, *args, **kwargs)
                pre = None
                try:
                    pre = _snap(self)
                except Exception as exc:
                    c.inconc(f"{name}:monitor-error:{type(exc).__name__}")
                try:
                    result = orig(self, *args, **kwargs)
                except Exception as exc:
                    if pre is not None and _usable(pre) and not args and not kwargs:
                        c.violation(f"{name}:raised:{type(exc).__name__}", f"{name} raised {type(exc).__name__}: {exc}")
                    raise
                if pre is None:
                    return result
                try:
                    if _usable(pre) and not args and not kwargs:
                        _check_helper(c, name, pre, _snap(self))
                    else:
                        c.inconc(f"{name}:outside-quantifier")
                except Exception as exc:
                    c.inconc(f"{name}:monitor-error:{type(exc).__name__}")
                return result
            return method
        return make

    for name in HELPERS:
        rt.wrap_attr(Series, name, make_helper(name))

    def make_cum(name):
        def make(orig):
            def method(self, *args, **kwargs):
                c = rt.ctx()
                if c is None:
                    return orig(self, *args, **kwargs)
                pre, inside, why, S, initial, call, direction = None, False, "", None, None, {}, "forward"
                try:
                    pre = _snap(self)
                    call = dict(zip(("shift", "initial", "span"), args))
                    call.update(kwargs)
                    call.setdefault("shift", -1)
                    if call["shift"] is None:
                        call["shift"] = -1
                    if not _usable(pre):
                        why = "empty-or-unknown-frequency"
                    elif len(args) > 3 or set(call) - {"shift", "initial", "span"}:
                        why = "unexpected-arguments"
                    else:
                        ok, label = _shift_ok(call["shift"], pre[2])
                        if not ok or isinstance(call["shift"], str):
                            why = f"shift:{label}"
                        else:
                            S, direction, why = _read_span(self, call.get("span"), pre)
                            ini = call.get("initial")
                            if ini is None:
                                initial = M.DEFAULT_INITIAL[CUMS[name]]
                                if name == "cum_diff_log":
                                    why = why or "default-initial-of-cum_diff_log"
                            elif hasattr(ini, "get_data"):
                                initial = _snap(ini)
                                if initial[1].shape[1] != pre[1].shape[1]:
                                    why = why or "initial-variants-differ"
                                if initial[0] is not None and initial[2] != pre[2]:
                                    why = why or "initial-frequency-differs"
                            elif isinstance(ini, (int, float, np.integer, np.floating)) and not isinstance(ini, bool):
                                initial = float(ini)
                            else:
                                why = why or "initial-of-unknown-type"
                            inside = S is not None and not why
                except Exception as exc:
                    c.inconc(f"{name}:monitor-error:{type(exc).__name__}")
                    pre = None
                try:
                    result = orig(self, *args, **kwargs)
                except Exception as exc:
                    if pre is not None:
                        if inside:
                            c.violation(f"{name}:raised:{type(exc).__name__}",
                                        f"{name}(shift={call.get('shift')!r}, span {S[0]}..{S[-1]}) raised {type(exc).__name__}: {exc}")
                        else:
                            c.inconc(f"{name}:raised-outside-quantifier:{why}")
                    raise
                if pre is None:
                    return result
                try:
                    if inside:
                        _check_cum(c, name, pre, call, S, direction, initial, _snap(self))
                    else:
                        c.inconc(f"{name}:outside-quantifier:{why}")
                except Exception as exc:
                    c.inconc(f"{name}:monitor-error:{type(exc).__name__}")
                return result
            return method
        return make

    for name in CUMS:
        rt.wrap_attr(Series, name, make_cum(name))

    def make_shift(orig):
        def shift(self, *args, **kwargs):
            c = rt.ctx()
            if c is None:
                return orig(self, *args, **kwargs)
            pre, inside, why, by = None, False, "", -1
            try:
                pre = _snap(self)
                by = args[0] if args else kwargs.get("by", -1)
                if not _usable(pre):
                    why = "empty-or-unknown-frequency"
                elif isinstance(by, str):
                    inside = by in M.KEYWORDS and pre[2] in (1, 2, 4, 12, 365)
                    why = "" if inside else f"keyword-{by}-on-freq-{pre[2]}"
                elif isinstance(by, int) and not isinstance(by, bool):
                    inside = True
                else:
                    why = "non-integer-shift"
            except Exception as exc:
                c.inconc(f"shift:monitor-error:{type(exc).__name__}")
                pre = None
            try:
                result = orig(self, *args, **kwargs)
            except Exception as exc:
                if pre is not None:
                    if inside:
                        cls = by if isinstance(by, str) else "int"
                        c.violation(f"shift[{cls},{M.FREQ_LETTER[pre[2]]}]:raised:{type(exc).__name__}",
                                    f"Series.shift({by!r}) on a {M.FREQ_LETTER[pre[2]]} series raised {type(exc).__name__}: {exc}")
                    else:
                        c.inconc(f"shift:raised-outside-quantifier:{why}")
                raise
            if pre is None:
                return result
            try:
                if inside:
                    _check_shift(c, pre, by, {k: v for k, v in kwargs.items() if k != "by"}, _snap(self))
                else:
                    c.inconc(f"shift:outside-quantifier:{why}")
            except Exception as exc:
                c.inconc(f"shift:monitor-error:{type(exc).__name__}")
            return result
        return shift

    rt.wrap_attr(Series, "shift", make_shift)


# ------------------------------------------------------------------------------
# Workload
# ------------------------------------------------------------------------------

_FREQS = ["Y", "H", "Q", "M", "D", "I"]
_FREQ_VALUE = {"Y": 1, "H": 2, "Q": 4, "M": 12, "D": 365, "I": 0}


def _period(ir, freq, base, offset=0):
    if freq == "Y":
        p = ir.yy(int(base[0]))
    elif freq == "H":
        p = ir.hh(int(base[0]), int(base[1]))
    elif freq == "Q":
        p = ir.qq(int(base[0]), int(base[1]))
    elif freq == "M":
        p = ir.mm(int(base[0]), int(base[1]))
    elif freq == "D":
        p = ir.dd(int(base[0]), int(base[1]), int(base[2]))
    else:
        p = ir.ii(int(base[0]))
    return p + int(offset) if offset else p


def _expected_serial(freq, base):
    import datetime
    if freq == "D":
        return datetime.date(int(base[0]), int(base[1]), int(base[2])).toordinal()
    if freq == "I":
        return int(base[0])
    f = _FREQ_VALUE[freq]
    return int(base[0]) * f + (int(base[1]) if len(base) > 1 else 1) - 1


def _rand_base(rng, freq):
    year = int(rng.integers(1950, 2060))
    if freq == "Y":
        return [year]
    if freq == "H":
        return [year, int(rng.integers(1, 3))]
    if freq == "Q":
        return [year, int(rng.integers(1, 5))]
    if freq == "M":
        return [year, int(rng.integers(1, 13))]
    if freq == "D":
        r = rng.random()
        if r < 0.45:
            return [year, 12, int(rng.integers(1, 32))]
        if r < 0.6:
            return [int(rng.choice([1996, 2000, 2020, 2024, 1900 + 100, 2100])), 2, int(rng.integers(20, 29))]
        if r < 0.75:
            return [year, 1, int(rng.integers(1, 10))]
        return [year, int(rng.integers(1, 13)), int(rng.integers(1, 29))]
    return [int(rng.integers(-40, 400))]


def _gen_data(rng, n, nv, positive):
    scale = float(rng.choice([0.01, 1.0, 1.0, 100.0, 1e4]))
    cols = []
    for v in range(nv):
        kind = int(rng.integers(0, 3))
        if positive:
            if kind == 0:
                y = np.exp(np.cumsum(rng.normal(size=n)) * 0.05 + rng.normal() * 0.5)
            elif kind == 1:
                y = np.exp(rng.normal(size=n) * 0.2)
            else:
                y = 1.0 + rng.integers(0, 6, size=n).astype(float)
        else:
            if kind == 0:
                y = np.cumsum(rng.normal(size=n))
            elif kind == 1:
                y = rng.normal(size=n)
            else:
                y = rng.integers(-4, 5, size=n).astype(float)
        cols.append(y * scale)
    data = np.column_stack(cols)
    mode = int(rng.choice([0, 0, 1, 2, 3]))
    if mode in (1, 3) and n >= 3:
        for v in range(nv):
            k = int(rng.integers(1, max(2, n // 4 + 1)))
            idx = rng.choice(np.arange(1, n - 1), size=min(k, n - 2), replace=False)
            data[idx, v] = np.nan
    if mode in (2, 3) and nv > 1 and n >= 4:
        for v in range(1, nv):
            data[:int(rng.integers(0, 3)), v] = np.nan
            e = int(rng.integers(0, 3))
            if e:
                data[-e:, v] = np.nan
    if np.all(np.isnan(data[0])):
        data[0, 0] = scale
    if np.all(np.isnan(data[-1])):
        data[-1, 0] = scale
    return data


def _gen_case(rng):
    freq = _FREQS[int(rng.integers(0, len(_FREQS)))]
    if freq == "D":
        n = int(rng.choice([1, 2, 5, 12, 30, 45, 60])) if rng.random() < 0.8 else int(rng.integers(360, 400))
    else:
        n = int(rng.choice([1, 2, 3, 4, 5, 8, 13, 25, 40, 60])) if rng.random() < 0.5 else int(rng.integers(1, 61))
    nv = int(rng.choice([1, 1, 2, 3]))
    positive = bool(rng.random() < 0.7)
    data = _gen_data(rng, n, nv, positive)
    ops = []
    kws = [] if freq == "I" else list(M.KEYWORDS)
    shifts = [-1, -1, -2, -3, -4, -5, -6, -7, -8, -int(rng.integers(9, 70))] + kws + kws
    funcs = list(CHANGE_SHIFTED) if positive else ["diff", "diff", "pct", "roc"]
    for _ in range(int(rng.integers(4, 9))):
        f = funcs[int(rng.integers(0, len(funcs)))]
        s = shifts[int(rng.integers(0, len(shifts)))]
        ops.append({"op": "change", "f": f, "shift": s, "form": str(rng.choice(["func", "method", "func-default"])) if s == -1 else str(rng.choice(["func", "method"]))})
    for f in (CHANGE_ANNUAL if positive else ("adiff",)):
        if rng.random() < 0.6:
            ops.append({"op": "change", "f": f, "shift": None, "form": str(rng.choice(["func", "method"]))})
    if positive and rng.random() < 0.7:
        ops.append({"op": "identities"})
    if rng.random() < 0.25:
        ops.append({"op": "convert", "to": str(rng.choice(["Y", "H", "Q", "M", "D"])), "r": float(np.exp(rng.normal() * 0.3))})
    if rng.random() < 0.5:
        ops.append({"op": "shift", "by": int(rng.integers(-9, 10)) if (freq == "I" or rng.random() < 0.5) else str(rng.choice(M.KEYWORDS)),
                    "neutral": (None if rng.random() < 0.5 else float(rng.integers(0, 3)))})
    # cumulation: inverse property and plain recursion
    cfuncs = ["diff", "pct", "roc", "diff_log"] if positive else ["diff", "diff", "roc", "pct"]
    for _ in range(int(rng.integers(2, 6))):
        f = cfuncs[int(rng.integers(0, len(cfuncs)))]
        k = int(rng.integers(1, 9))
        if k > n - 2 and n >= 3 and rng.random() < 0.9:
            k = int(rng.integers(1, n - 1))
        direction = "forward" if rng.random() < 0.5 else "backward"
        mode = int(rng.integers(0, 4))
        # span in offsets relative to the start of x; the natural spans are [k, n-1] forward and [n-1-k .. 0] backward
        if direction == "forward":
            a, b = k, n - 1
            if mode == 1:
                a = k + int(rng.integers(0, max(1, n - k)))
            elif mode == 2:
                b = n - 1 + int(rng.integers(0, 4))
                a = k - int(rng.integers(0, 3))
            elif mode == 3 and n - 1 - k > 1:
                a = k + int(rng.integers(0, n - 1 - k))
                b = a + int(rng.integers(0, n - a))
            if b < a:
                a, b = k, max(k, n - 1)
        else:
            a, b = n - 1 - k, 0
            if mode == 1 and n - 1 - k > 0:
                a = int(rng.integers(0, n - k))
            elif mode == 2:
                a = n - 1 - k + int(rng.integers(0, 3))
                b = -int(rng.integers(0, 3))
            elif mode == 3 and n - 1 - k > 1:
                a = int(rng.integers(0, n - k))
                b = int(rng.integers(0, a + 1))
            if a < b:
                a, b = max(0, n - 1 - k), 0
        ops.append({"op": "inverse", "f": f, "k": k, "direction": direction, "span": [a, b], "form": str(rng.choice(["func", "method"])),
                    "positional": bool(rng.random() < 0.5)})
    if rng.random() < 0.5:
        f = ["diff", "pct", "roc"][int(rng.integers(0, 3))]
        ops.append({"op": "cum-plain", "f": f, "k": int(rng.integers(1, 5)), "initial": (None if rng.random() < 0.5 else float(np.round(rng.normal() * 3 + 5, 2))),
                    "span": (None if rng.random() < 0.6 else [int(rng.integers(0, n)), n - 1 + int(rng.integers(0, 3))])})
    ppy = {"Y": 1, "H": 2, "Q": 4, "M": 12}.get(freq)
    if ppy is not None and positive and n >= ppy + 3 and np.all(np.isfinite(data)) and rng.random() < 0.5:
        # cumulation under a KEYWORD shift, with the series itself as initial condition, reproduces the series
        # (the span starts at least one year inside the data so that every reference period exists)
        a = ppy + int(rng.integers(0, n - ppy - 2))
        ops.append({"op": "inverse-keyword", "f": str(rng.choice(["diff", "diff_log", "roc", "pct"])), "kw": str(rng.choice(["tty", "yoy", "soy", "eopy"])),
                    "span": [a, n - 1], "form": str(rng.choice(["func", "method"]))})
    return {"kind": "series-ops", "freq": freq, "base": _rand_base(rng, freq), "data": data.tolist(), "positive": positive, "ops": ops}


def _call_change(ir, x, f, shift, form):
    """-> result series"""
    if form == "method":
        y = x.copy()
        if shift is None:
            getattr(y, f)()
        else:
            getattr(y, f)(shift)
        return y
    if shift is None or form == "func-default":
        return getattr(ir, f)(x)
    return getattr(ir, f)(x, shift)


def _run_case(c, case):
    import irispie as ir
    freq, base = case["freq"], case["base"]
    fv = _FREQ_VALUE[freq]
    with c.running(case):
        data = np.array(case["data"], dtype=float)
        if data.ndim == 1:
            data = data.reshape(-1, 1)
        x = ir.Series(start=_period(ir, freq, base), values=data.copy())
        xs = _snap(x)
        if xs[0] != _expected_serial(freq, base):
            c.inconc("calendar-convention-differs(serial of the generated start period)")
            return
        for op in case["ops"]:
            before = _snap(x)
            try:
                with rt.quiet():
                    _run_op(c, ir, x, xs, fv, freq, base, op)
            except Exception as exc:
                # exceptions of irispie are classified by the monitors; anything else is a harness problem
                c.note(f"op-raised:{op.get('op')}:{type(exc).__name__}")
            if not _same(_snap(x), before):
                c.violation(f"{op.get('f', op.get('op'))}:functional-form-mutated-input", f"op {op} changed the input series")
                x = ir.Series(start=_period(ir, freq, base), values=data.copy())


def _rows(snap, serials):
    return np.array([M.row(snap, t) for t in serials])


def _run_op(c, ir, x, xs, fv, freq, base, op):
    kind = op["op"]
    start, data, _ = xs
    n, nv = data.shape
    if kind == "change":
        f, shift, form = op["f"], op["shift"], op["form"]
        y = _call_change(ir, x, f, shift, form)
        if form == "func":
            # the method form must give the same
            z = _call_change(ir, x, f, shift, "method")
            c.event("functional", f, key=("functional", f), nontrivial=False)
            if not _same(_snap(y), _snap(z)):
                c.violation(f"{f}:functional-differs-from-method", f"irispie.{f}(x, {shift!r}) differs from x.{f}({shift!r})")
    elif kind == "identities":
        nan = _nan_class(data)
        roc_e, roc_t, roc_d, _ = M.change_expected(xs, "roc", -1)
        pct_e, pct_t, pct_d, _ = M.change_expected(xs, "pct", -1)
        a = M.annual_factor(fv)
        pairs = [
            ("roc_from_pct", "pct", roc_e, roc_d), ("pct_from_roc", "roc", pct_e, pct_d),
            ("roc_from_apct", "apct", roc_e, roc_d), ("pct_from_apct", "apct", pct_e, pct_d),
            ("roc_from_aroc", "aroc", roc_e, roc_d),
        ]
        for helper, inner, E, D in pairs:
            w = getattr(ir, helper)(getattr(ir, inner)(x))
            with np.errstate(all="ignore"):
                ratio = np.abs(roc_e)
                # error amplification of r -> r^a -> r^(1/a) and of the 100*(r-1) cancellation
                tol = 1e-9 * (np.abs(E) + 1) + 1e-12 * a * (100 if helper.startswith("pct") else 1) * (ratio + 1)
                if a > 1 and inner == "aroc":
                    D = D & (ratio ** a < 1e250) & (ratio ** a > 1e-250)
                if a > 1 and inner == "apct":
                    # 1 + apct/100 carries an ABSOLUTE rounding error of ~1e-16: r^a must not be tiny for the way back to be defined
                    D = D & (ratio ** a < 1e250) & (ratio ** a > 1e-3)
            tol = np.where(np.isnan(tol), 0.0, tol)
            problems = M.compare_on_span(_snap(w), start, E, tol, D)
            c.event("identity", f"{helper}.{inner}", key=(f"{helper}.{inner}", freq, "-", nv, nan, "-"),
                    nontrivial=int((~np.isnan(E)).sum()) >= 2 and a > 1)
            for k, i, v, e, g in problems[:1]:
                c.violation(f"identity:{helper}.{inner}", f"{helper}({inner}(x)) at offset {i}, variant {v} (freq {freq}, a={a}): expected {e!r}, got {g!r} ({k})")
    elif kind == "convert":
        if freq == "I":
            return
        roc_e, _, roc_d, _ = M.change_expected(xs, "roc", -1)
        aroc = _snap(ir.aroc(x))
        apct = _snap(ir.apct(x))
        a = M.annual_factor(fv)
        cnt = 0
        for i in range(n):
            for v in range(nv):
                if not (roc_d[i, v] and np.isfinite(roc_e[i, v]) and roc_e[i, v] > 0):
                    continue
                ar, ap = M.row(aroc, start + i)[v], M.row(apct, start + i)[v]
                if not (np.isfinite(ar) and 1e-3 < ar < 1e200):
                    continue
                r1 = ir.convert_roc(ar, ir.Frequency.YEARLY, ir.Frequency(fv))
                p1 = ir.convert_pct(ap, ir.Frequency.YEARLY, ir.Frequency(fv))
                cnt += 1
                tol = 1e-9 * roc_e[i, v] * max(1.0, a * 1e-3)
                if not abs(r1 - roc_e[i, v]) <= tol:
                    c.violation("convert_roc:annual-to-periodic", f"convert_roc(aroc_t, YEARLY, {freq}) = {r1!r}, roc_t = {roc_e[i, v]!r}")
                if not abs(p1 - 100 * (roc_e[i, v] - 1)) <= 100 * tol:
                    c.violation("convert_pct:annual-to-periodic", f"convert_pct(apct_t, YEARLY, {freq}) = {p1!r}, pct_t = {100 * (roc_e[i, v] - 1)!r}")
                if cnt >= 6:
                    break
            if cnt >= 6:
                break
        r, g = float(op["r"]), _FREQ_VALUE[op["to"]]
        F, G = ir.Frequency(fv), ir.Frequency(g)
        want = r ** (fv / g)
        got = ir.convert_roc(r, F, G)
        back = ir.convert_roc(got, G, F)
        gotp = ir.convert_pct(100 * (r - 1), F, G)
        c.event("convert", f"{freq}->{op['to']}", key=("convert", freq, op["to"]), nontrivial=fv != g, n=1 + cnt)
        if not abs(got - want) <= 1e-12 * abs(want) * max(1.0, fv / g):
            c.violation("convert_roc:exponent", f"convert_roc({r!r}, {freq}, {op['to']}) = {got!r}, expected r**(from/to) = {want!r}")
        if not abs(back - r) <= 1e-9 * abs(r) * max(1.0, fv / g, g / fv):
            c.violation("convert_roc:round-trip", f"convert_roc there and back: {back!r} vs {r!r}")
        if not abs(gotp - 100 * (want - 1)) <= 1e-9 * (abs(100 * want) + 100):
            c.violation("convert_pct:inconsistent-with-convert_roc", f"convert_pct({100 * (r - 1)!r}) = {gotp!r}, expected {100 * (want - 1)!r}")
    elif kind == "shift":
        by = op["by"]
        kw = {}
        if isinstance(by, str) and by == "tty" and op.get("neutral") is not None:
            kw["neutral_value"] = op["neutral"]
        y = x.copy()
        y.shift(by, **kw)
        if not kw:
            z = ir.shift(x, by)
            c.event("functional", "shift", key=("functional", "shift"), nontrivial=False)
            if not _same(_snap(y), _snap(z)):
                c.violation("shift:functional-differs-from-method", f"irispie.shift(x, {by!r}) differs from x.shift({by!r})")
    elif kind == "inverse":
        f, k, direction = op["f"], int(op["k"]), op["direction"]
        a, b = op["span"]
        d = getattr(ir, f)(x, -k)
        step = 1 if direction == "forward" else -1
        span = ir.Span(_period(ir, freq, base, a), _period(ir, freq, base, b), step)
        cum = "cum_" + f
        if op["form"] == "method":
            y = d.copy()
            if op.get("positional"):
                getattr(y, cum)(-k, x, span)
            else:
                getattr(y, cum)(shift=-k, initial=x, span=span)
        else:
            if op.get("positional"):
                y = getattr(ir, cum)(d, -k, x, span)
            else:
                y = getattr(ir, cum)(d, shift=-k, initial=x, span=span)
        ys = _snap(y)
        S = list(range(start + a, start + b + step, step))
        # chain analysis on x alone: t is recoverable iff x is present (and inside the domain of the formula) at t and at
        # every link back to the initial block
        def usable(t):
            r = M.row(xs, t)
            with np.errstate(all="ignore"):
                u = ~np.isnan(r)
                if f in ("roc", "pct"):
                    u &= r != 0
                if f == "diff_log":
                    u &= r > 0
            return u
        okmap = {}
        block = range(S[0] - k, S[0]) if step == 1 else range(S[0] + 1, S[0] + k + 1)
        for t in block:
            okmap[t] = usable(t)
        for t in S:
            okmap[t] = okmap.get(t - k if step == 1 else t + k, np.zeros(nv, dtype=bool)) & usable(t)
        want = _rows(xs, S)
        got = _rows(ys, S)
        mask = np.array([okmap[t] for t in S])
        mag = float(np.nanmax(np.abs(data))) if np.isfinite(data).any() else 1.0
        tol = 1e-9 * mag * max(1.0, len(S)) if f == "diff" else None
        c.event("inverse", f"{cum}[{direction}]", key=(cum, freq, str(-k), nv, _nan_class(data), direction), nontrivial=int(mask.sum()) >= 2)
        with np.errstate(all="ignore"):
            if f == "diff":
                bad = mask & ~(np.abs(got - want) <= tol)
            else:
                bad = mask & ~(np.abs(got - want) <= 1e-9 * len(S) * np.abs(want) + 1e-300)
        if bad.any():
            i, v = np.argwhere(bad)[0]
            c.violation(f"{cum}:inverse-not-reproduced[{direction}]",
                        f"{cum}({f}(x, {-k}), {-k}, initial=x, span offsets {a}..{b} {direction}) at offset {S[i] - start}, variant {v}: x = {want[i, v]!r}, got {got[i, v]!r}")
    elif kind == "inverse-keyword":
        f, kw_ = op["f"], op["kw"]
        a, b = op["span"]
        d = getattr(ir, f)(x, kw_)
        span = ir.Span(_period(ir, freq, base, a), _period(ir, freq, base, b))
        cum = "cum_" + f
        if op["form"] == "method":
            y = d.copy()
            getattr(y, cum)(shift=kw_, initial=x, span=span)
        else:
            y = getattr(ir, cum)(d, shift=kw_, initial=x, span=span)
        S = list(range(start + a, start + b + 1))
        want = _rows(xs, S)
        got = _rows(_snap(y), S)
        c.event("inverse", f"{cum}[keyword]", key=(cum, freq, kw_, nv, len(S) > 4), nontrivial=len(S) >= 2)
        with np.errstate(all="ignore"):
            bad = ~(np.abs(got - want) <= 1e-9 * max(1, len(S)) * (1 + np.abs(want)))
        if bad.any():
            i, v = np.argwhere(bad)[0]
            c.violation(f"{cum}:inverse-not-reproduced[keyword:{kw_}]",
                        f"{cum}({f}(x, {kw_!r}), {kw_!r}, initial=x, span offsets {a}..{b}) at offset {S[i] - start}, variant {v}: x = {want[i, v]!r}, got {got[i, v]!r}")
    elif kind == "cum-plain":
        f, k = op["f"], int(op["k"])
        d = getattr(ir, f)(x, -k)
        kw = {}
        if op.get("initial") is not None:
            kw["initial"] = op["initial"]
        if op.get("span") is not None:
            kw["span"] = ir.Span(_period(ir, freq, base, op["span"][0] + k), _period(ir, freq, base, max(op["span"][0] + k, op["span"][1])))
        getattr(ir, "cum_" + f)(d, -k, **kw)


_DIRECTED = [
    # cum_diff_log (known finding: NameError), forward and backward
    {"kind": "series-ops", "freq": "Q", "base": [2020, 1], "data": [[1.0], [2.0], [4.0], [8.0], [16.0], [32.0]], "positive": True,
     "ops": [{"op": "inverse", "f": "diff_log", "k": 1, "direction": "forward", "span": [1, 5], "form": "func", "positional": True},
             {"op": "inverse", "f": "diff_log", "k": 2, "direction": "backward", "span": [3, 0], "form": "method", "positional": False},
             {"op": "identities"},
             {"op": "change", "f": "diff_log", "shift": "tty", "form": "func"},
             {"op": "change", "f": "diff", "shift": "tty", "form": "func"},
             {"op": "change", "f": "roc", "shift": "tty", "form": "method"}]},
    # monthly: roc_from_aroc, diff_log tty across a year end
    {"kind": "series-ops", "freq": "M", "base": [2020, 11], "data": [[1.0, 3.0], [1.1, 3.3], [1.2, "nan"], [1.4, 3.1], [1.3, 3.0]], "positive": True,
     "ops": [{"op": "identities"}, {"op": "change", "f": "diff_log", "shift": "tty", "form": "method"},
             {"op": "change", "f": "pct", "shift": "eopy", "form": "func"}, {"op": "change", "f": "pct", "shift": "soy", "form": "func"},
             {"op": "change", "f": "roc", "shift": "yoy", "form": "func"}]},
    # daily across a year end: tty (known finding: TypeError in DailyPeriod.to_year_segment), soy, eopy
    {"kind": "series-ops", "freq": "D", "base": [2020, 12, 28], "data": [[1.0], [2.0], [3.0], [5.0], [8.0], [13.0], [21.0]], "positive": True,
     "ops": [{"op": "change", "f": "diff", "shift": "tty", "form": "func"}, {"op": "change", "f": "diff", "shift": "soy", "form": "func"},
             {"op": "change", "f": "roc", "shift": "eopy", "form": "method"}, {"op": "shift", "by": "tty", "neutral": None},
             {"op": "shift", "by": "soy", "neutral": None}, {"op": "identities"}]},
    # half-yearly / yearly plain
    {"kind": "series-ops", "freq": "H", "base": [1999, 2], "data": [[3.0], [1.0], [4.0], [1.0], [5.0], [9.0], [2.0], [6.0]], "positive": True,
     "ops": [{"op": "change", "f": "pct", "shift": "yoy", "form": "func"}, {"op": "change", "f": "apct", "shift": None, "form": "func"},
             {"op": "inverse", "f": "pct", "k": 3, "direction": "backward", "span": [4, 0], "form": "func", "positional": True},
             {"op": "inverse", "f": "roc", "k": 7, "direction": "forward", "span": [7, 7], "form": "func", "positional": True},
             {"op": "cum-plain", "f": "diff", "k": 1, "initial": None, "span": None}]},
]


def _run_repo_tests(c, rel_files):
    """thorough tier: the repository's own tests that touch these functions, run in-process under the monitors"""
    import contextlib
    import io
    import os
    root = os.path.join(rt.REPO, "tests")
    if not os.path.isdir(root):
        root = "/repo/tests"
    files = [os.path.join(root, f) for f in rel_files if os.path.exists(os.path.join(root, f))]
    if not files:
        c.note("repo-tests:not-found")
        return
    try:
        import pytest
        buf = io.StringIO()
        before = sum(c.events.values())
        with contextlib.redirect_stdout(buf), contextlib.redirect_stderr(buf):
            rc = pytest.main(["-q", "-p", "no:cacheprovider", "-W", "ignore", "--rootdir", os.path.dirname(root), *files])
        c.extra["repo_tests_exit_code"] = int(rc)
        c.extra["repo_tests_monitor_events"] = sum(c.events.values()) - before
    except BaseException as exc:
        c.inconc(f"repo-tests:harness:{type(exc).__name__}")


def replay(c, case):
    install()
    _run_case(c, case)


def shard(c):
    install()
    rng = c.rng
    for case in _DIRECTED:
        try:
            _run_case(c, rt.unnan(case))
        except Exception as exc:
            c.inconc(f"directed:harness:{type(exc).__name__}")
    if c.shard == 0:
        c.sample(_DIRECTED[1])
    n_cases = c.scale(300, 6000)
    if c.tier == "thorough" and c.shard == 0:
        _run_repo_tests(c, ["series/hpf_test.py", "vars/red_var_test.py", "sequential/simulate_test.py"])
    for i in range(n_cases):
        if c.out_of_time():
            break
        try:
            case = _gen_case(rng)
            _run_case(c, case)
        except Exception as exc:
            c.inconc(f"workload:harness:{type(exc).__name__}")
            continue
        if i in (2, 5) and c.shard == 1:
            c.sample(case)
