"""
C20 -- copies, pickles and parameter variants are independent, equivalent models

History monitor: random interleavings (length <= 12) of assign / solve_steady / solve / alter_num_variants / rescale_stds
applied to an original model and to objects derived from it by copy(), pickle, dill and irispie.save/load.
After EVERY operation:
  isolation    every OTHER live object's observable state (parameters, stds, steady levels and changes, solution matrices,
               names, equations, flags) is bit-identical to its snapshot taken before the operation;
  equivalence  the object operated on equals a FRESH model rebuilt from source with that object's own operation history
               replayed (parameters exactly; steady state, solution and a fixed first-order simulation to 1e-10);
  derivation   a freshly derived object equals its source bit for bit and simulates identically.
Variant law: variant k of an n-variant model gives the same steady state, solution and simulation as a single-variant model
assigned variant k's parameter values. Sequential and RedVAR: copy / pickle / dill round trips simulate identically and
assigning to the copy does not change the original.
Portable: from_portable(to_portable(m)) must round-trip names, kinds, log status, equations, flags and parameter values.

Not decided: model.get_variant()/m[k] returns a view by design; RedVAR.copy() shares the (immutable) invariant.
"""

from __future__ import annotations

import copy
import io
import os
import pickle

import numpy as np

from .. import runtime as rt
from ..workloads import families as F
from ..workloads import models as M

ID = "C20"
TIERS = {
    "quick": {"shards": 8, "budget_s": 50},
    "thorough": {"shards": 16, "budget_s": 540},
}
MIN_EVENTS = {"quick": 300, "thorough": 5000}
DECIDING = {"isolation", "equivalence", "derivation", "variant-law", "portable", "sequential", "redvar"}
RULE = (
    "histories of <= 12 operations (assign, solve_steady, solve, alter_num_variants 1..3, rescale_stds) over an original "
    "Simultaneous model (families L and N, with measurement blocks and log-variables) and objects derived by copy / pickle / "
    "dill / irispie.save+load at random points; Sequential and RedVAR copy/pickle/dill round trips; portable round trip on "
    "every generated model. distinct key = (check, operation, derivation kinds alive, #objects, #variants, family); "
    "non-trivial = at least two live objects or two variants."
)
ASSUMPTIONS = [
    "the oracle for an object is a fresh model rebuilt from source with the object's own operation history replayed (real code, independent object)",
    "isolation is compared bit for bit on values obtained through public getters",
]
ANCHORS = [
    "irispie.simultaneous.main:Simultaneous.copy",
    "irispie.simultaneous._variants:Variant.copy",
    "irispie.simultaneous._invariants:Invariant.__getstate__",
    "irispie.simultaneous._invariants:Invariant.__setstate__",
    "irispie.has_variants:unpack_singleton",
    "irispie.simultaneous.main:Simultaneous.to_portable",
    "irispie.sequentials.main:Sequential.copy",
    "irispie.red_vars.main:RedVAR.copy",
    "irispie.file_io:save",
    "irispie.file_io:load",
]


def install():
    pass  # the history driver is the monitor: every observation goes through the public API of the real objects


# ------------------------------------------------------------------------------
# observation
# ------------------------------------------------------------------------------


def _tolist(x):
    return [None if v is None else float(v) for v in x]


def observe(m):
    """observable state through public getters (JSON-like; arrays as nested lists)"""
    o = {}
    o["names"] = list(m.get_names())
    o["nvar"] = m.num_variants
    o["params"] = {k: _tolist(v) for k, v in m.get_parameters(unpack_singleton=False).items()}
    o["stds"] = {k: _tolist(v) for k, v in m.get_stds(unpack_singleton=False).items()}
    o["levels"] = {k: _tolist(v) for k, v in m.get_steady_levels(unpack_singleton=False).items()}
    o["changes"] = {k: _tolist(v) for k, v in m.get_steady_changes(unpack_singleton=False).items()}
    o["equations"] = list(m.get_equations())
    try:
        o["steady_equations"] = list(m.get_steady_equations())
    except Exception:
        o["steady_equations"] = None
    o["description"] = str(m.get_description())
    o["tolerance"] = {k: float(v) for k, v in dict(m.get_tolerance()).items()}
    o["logly"] = dict(m.get_log_status())
    fl = m.get_flags()
    o["flags"] = [bool(fl.is_linear), bool(fl.is_flat), bool(fl.is_deterministic)]
    sols = []
    try:
        for s in m.get_solution(unpack_singleton=False):
            if s is None or getattr(s, "T", None) is None:
                sols.append(None)
            else:
                sols.append({k: np.asarray(getattr(s, k), dtype=float).tolist() for k in ("T", "P", "K", "Z", "H", "D")})
    except Exception:
        sols = None
    o["solutions"] = sols
    return o


def same(a, b, tol=0.0):
    """deep comparison; NaN == NaN, None == None; floats within tol (relative)"""
    if isinstance(a, dict) and isinstance(b, dict):
        if set(a) != set(b):
            return False, f"keys differ: {sorted(set(a) ^ set(b))[:5]}"
        for k in a:
            ok, why = same(a[k], b[k], tol)
            if not ok:
                return False, f"{k}: {why}"
        return True, ""
    if isinstance(a, (list, tuple)) and isinstance(b, (list, tuple)):
        if len(a) != len(b):
            return False, f"length {len(a)} vs {len(b)}"
        for i, (x, y) in enumerate(zip(a, b)):
            ok, why = same(x, y, tol)
            if not ok:
                return False, f"[{i}] {why}"
        return True, ""
    if a is None or b is None:
        return (a is None and b is None), f"{a!r} vs {b!r}"
    if isinstance(a, float) or isinstance(b, float):
        try:
            fa, fb = float(a), float(b)
        except Exception:
            return False, f"{a!r} vs {b!r}"
        if np.isnan(fa) and np.isnan(fb):
            return True, ""
        if fa == fb:
            return True, ""
        if tol and abs(fa - fb) <= tol * (1 + abs(fb)):
            return True, ""
        return False, f"{fa!r} vs {fb!r}"
    return (a == b), f"{a!r} vs {b!r}"


def sim_fingerprint(m, T=6):
    """fixed first-order simulation scenario (all variants), or None when the model is not solved"""
    import irispie as ir
    try:
        span = ir.Span(ir.qq(2020, 1), ir.qq(2020, 1) + (T - 1))
        with rt.quiet():
            db = ir.Databox.steady(m, span)
            shocks = list(m.get_names(kind=ir.TRANSITION_SHOCK))
            if shocks:
                db[shocks[0]][ir.qq(2020, 2)] = 0.01
                db["ant_" + shocks[-1]][ir.qq(2020, 3)] = -0.01
            out = m.simulate(db, span, method="first_order")
        fp = {}
        for n in m.get_names(kind=ir.TRANSITION_VARIABLE | ir.MEASUREMENT_VARIABLE):
            fp[n] = np.asarray(out[n].get_data(tuple(span)), dtype=float).tolist()
        return fp
    except Exception:
        return None


# ------------------------------------------------------------------------------
# history driver (Simultaneous)
# ------------------------------------------------------------------------------


def _apply(m, op):
    """apply one recorded operation to a model; returns False when irispie reports failure"""
    kind = op["op"]
    try:
        with rt.quiet():
            if kind == "assign":
                m.assign(**op["values"])          # a list value means one value per VARIANT
            elif kind == "assign_steady":
                m.assign(**{k: (v[0], v[1]) for k, v in op["values"].items()})   # (level, change) tuples
            elif kind == "solve_steady":
                m.solve_steady()
            elif kind == "solve":
                m.solve()
            elif kind == "alter":
                m.alter_num_variants(op["n"])
            elif kind == "rescale":
                m.rescale_stds(op["factor"])
            elif kind == "set_description":
                m.set_description(op["text"])
            elif kind == "override_tolerance":
                m.override_tolerance(eigenvalue=op["eigenvalue"])
            elif kind == "reset_tolerance":
                m.reset_tolerance()
        return True
    except Exception:
        return False


def _fresh(case, hist):
    import irispie as ir
    spec = case["spec"]
    with rt.quiet():
        m = ir.Simultaneous.from_string(case["source"], **spec["flags"])
    for op in case["prologue"] + hist:
        _apply(m, op)
    return m


def _derive(m, how, scratch):
    import irispie as ir
    if how == "copy":
        return m.copy()
    if how == "pickle":
        return pickle.loads(pickle.dumps(m))
    if how == "dill":
        import dill
        return dill.loads(dill.dumps(m))
    if how == "saveload":
        path = os.path.join(scratch, f"m{os.getpid()}.bin")
        ir.save(path, m)
        out = ir.load(path)
        os.remove(path)
        return out
    raise ValueError(how)


def run_history(c, case):
    import irispie as ir
    spec = case["spec"]
    vio = lambda k, msg, detail=None: c.violation(k, msg, detail=detail, case=case)
    scratch = os.path.join(rt.VERIF, ".scratch", "c20")
    os.makedirs(scratch, exist_ok=True)
    try:
        m0 = _fresh(case, [])
    except Exception as exc:
        c.inconc(f"parse-or-prologue-failed:{type(exc).__name__}")
        return
    objs = [{"m": m0, "hist": [], "how": "original"}]
    for step, op in enumerate(case["ops"]):
        i = op["target"] % len(objs)
        tgt = objs[i]
        before = [observe(o["m"]) for o in objs]
        alive = tuple(sorted({o["how"] for o in objs}))
        key_base = (op["op"], alive, min(len(objs), 4), tgt["m"].num_variants, case["family"])
        if op["op"] == "derive":
            try:
                new = _derive(tgt["m"], op["how"], scratch)
            except Exception as exc:
                vio(f"derive:{op['how']}:raised:{type(exc).__name__}", f"{op['how']} of a model raised {type(exc).__name__}: {str(exc)[:200]}")
                return
            objs.append({"m": new, "hist": list(tgt["hist"]), "how": op["how"]})
            ok, why = same(observe(new), before[i])
            c.event("derivation", op["how"], key=("derive", op["how"]) + key_base[1:], nontrivial=True)
            if not ok:
                vio(f"derivation:{op['how']}:differs-from-source", f"step {step}: {op['how']} differs from its source: {why}")
                return
            fa, fb = sim_fingerprint(new), sim_fingerprint(tgt["m"])
            if (fa is None) != (fb is None) or (fa is not None and not same(fa, fb)[0]):
                vio(f"derivation:{op['how']}:simulates-differently", f"step {step}: the {op['how']} does not simulate identically to its source")
                return
        else:
            applied = _apply(tgt["m"], op)
            if not applied:
                c.inconc(f"operation-reported-failure:{op['op']}")
                # the failed operation may have changed the target partially: its history becomes undefined -> stop this history
                return
            tgt["hist"].append(op)
        # ---- direct expectations that do not go through a second run of the same code
        if op["op"] in ("assign", "assign_steady", "alter", "rescale"):
            after = observe(tgt["m"])
            b = before[i]
            nv_b, nv_a = b["nvar"], after["nvar"]
            c.event("equivalence", f"direct:{op['op']}", key=("direct",) + key_base, nontrivial=max(nv_b, nv_a) >= 2)
            if op["op"] == "alter":
                if nv_a != op["n"]:
                    vio("alter:wrong-number-of-variants", f"step {step}: alter_num_variants({op['n']}) left {nv_a} variants")
                    return
                for part in ("params", "stds", "levels", "changes"):
                    for n_, vals in after[part].items():
                        want = [b[part][n_][k] if k < nv_b else b[part][n_][-1] for k in range(nv_a)]
                        ok, why = same(vals, want)
                        if not ok:
                            vio(f"alter:{'shrink' if nv_a < nv_b else 'expand'}:variant-values-wrong",
                                f"step {step}: {part}[{n_}] after alter_num_variants({op['n']}) is {vals}, expected {want} (first variants kept / last variant repeated)")
                            return
            elif op["op"] == "assign":
                for n_, v_ in op["values"].items():
                    seq = v_ if isinstance(v_, list) else [v_]          # exhaust-then-last broadcasting over variants
                    for part in ("params", "stds", "levels"):
                        if n_ not in after[part]:
                            continue
                        for k in range(nv_a):
                            want = seq[min(k, len(seq) - 1)]
                            got = after[part][n_][k]
                            if not same(got, want)[0]:
                                vio("assign:variant-did-not-receive-the-value", f"step {step}: {n_} in variant {k} is {got!r} after assigning {v_!r}")
                                return
            elif op["op"] == "assign_steady":
                for n_, (lvl_, chg_) in op["values"].items():
                    for k in range(nv_a):
                        if not same(after["levels"][n_][k], lvl_)[0]:
                            vio("assign:variant-did-not-receive-the-value", f"step {step}: level of {n_} in variant {k} is {after['levels'][n_][k]!r} after assigning ({lvl_}, {chg_})")
                            return
                        if not same(after["changes"][n_][k], chg_)[0]:
                            vio("assign:variant-did-not-receive-the-change", f"step {step}: change of {n_} in variant {k} is {after['changes'][n_][k]!r} after assigning ({lvl_}, {chg_})")
                            return
            elif op["op"] == "rescale":
                for n_, vals in after["stds"].items():
                    want = [None if x is None else x * op["factor"] for x in b["stds"][n_]]
                    if not same(vals, want, tol=1e-14)[0]:
                        vio("rescale:std-not-multiplied-in-every-variant", f"step {step}: {n_} is {vals}, expected {want}")
                        return
        # ---- isolation: everything else unchanged, bit for bit
        for j, o in enumerate(objs[:len(before)]):
            if j == i and op["op"] != "derive":
                continue
            c.event("isolation", op["op"], key=("iso",) + key_base, nontrivial=len(objs) >= 2)
            ok, why = same(observe(o["m"]), before[j])
            if not ok:
                vio(f"isolation:{op['op']}:changed-another-object:{objs[i]['how']}->{o['how']}",
                    f"step {step}: {op['op']} on object {i} ({objs[i]['how']}) changed object {j} ({o['how']}): {why}")
                return
        # ---- equivalence with a fresh rebuild replaying the target's own history
        if op["op"] != "derive":
            try:
                ref = _fresh(case, tgt["hist"])
            except Exception as exc:
                c.inconc(f"fresh-rebuild-failed:{type(exc).__name__}")
                return
            c.event("equivalence", op["op"], key=("equiv",) + key_base, nontrivial=(len(objs) >= 2 or tgt["m"].num_variants >= 2))
            ok, why = same(observe(tgt["m"]), observe(ref), tol=1e-10)
            if not ok:
                vio(f"equivalence:{op['op']}:{tgt['how']}-differs-from-fresh-model",
                    f"step {step}: object {i} ({tgt['how']}) after {op['op']} differs from a fresh model with the same history: {why}")
                return
            fa, fb = sim_fingerprint(tgt["m"]), sim_fingerprint(ref)
            if (fa is None) != (fb is None) or (fa is not None and not same(fa, fb, tol=1e-10)[0]):
                vio(f"equivalence:{op['op']}:{tgt['how']}-simulates-differently-from-fresh-model", f"step {step}: simulation differs from the fresh model's")
                return
    # ---- variant law on every multi-variant, solved object
    for o in objs:
        m = o["m"]
        if m.num_variants < 2:
            continue
        # bring steady state and solution up to date with the parameters (a history may end with an assign)
        try:
            m = m.copy()
            with rt.quiet():
                m.solve_steady()
                m.solve()
        except Exception:
            c.inconc("variant-law:multi-variant-model-not-solvable")
            continue
        obs = observe(m)
        if not obs["solutions"] or any(s is None for s in obs["solutions"]):
            continue
        fp_all = sim_fingerprint(m)
        # variant k reached through the public variant access routes: indexing m[k] and iteration list(m)
        try:
            by_index = [m[k] for k in range(m.num_variants)]
            by_iter = list(m)
        except Exception as exc:
            vio(f"variant-law:variant-access-raised:{type(exc).__name__}", f"{type(exc).__name__}: {str(exc)[:160]}")
            return
        for route, els in (("index", by_index), ("iteration", by_iter)):
            if len(els) != m.num_variants:
                vio(f"variant-law:{route}:wrong-number-of-variants", f"{len(els)} elements for {m.num_variants} variants")
                return
            for k, el in enumerate(els):
                eo = observe(el)
                c.event("variant-law", f"access:{route}", key=("access", route, m.num_variants), nontrivial=True)
                for part in ("params", "stds", "levels", "changes"):
                    want = {n: [v[k]] for n, v in obs[part].items()}
                    ok, why = same(eo[part], want)
                    if not ok:
                        vio(f"variant-law:{route}:element-is-not-variant-k", f"element {k} obtained by {route} of a {m.num_variants}-variant model: {part}: {why}")
                        return
                if not same(eo["solutions"], [obs["solutions"][k]])[0]:
                    vio(f"variant-law:{route}:element-has-another-variants-solution", f"element {k} obtained by {route}")
                    return
        # selections of several variants at once: slices (open, negative, stepped, reversed), index lists, Ellipsis, negative index
        nv = m.num_variants
        selections = [("[:]", slice(None)), ("[1:]", slice(1, None)), ("[-1:]", slice(-1, None)), ("[::-1]", slice(None, None, -1)),
                      ("[:-1]", slice(None, -1)), ("[::2]", slice(None, None, 2)), (f"[{nv - 1}:{nv}]", slice(nv - 1, nv)), ("[...]", ...),
                      ("[-1]", -1), ("[list reversed]", list(range(nv))[::-1]), ("[tuple last,first]", (nv - 1, 0))]
        for label, sel in selections:
            if isinstance(sel, slice):
                idx = list(range(nv))[sel]
            elif sel is ...:
                idx = list(range(nv))
            elif isinstance(sel, int):
                idx = [sel % nv]
            else:
                idx = [int(i) for i in sel]
            if not idx:
                continue
            try:
                sub = m[sel]
                eo = observe(sub)
            except Exception as exc:
                vio(f"variant-law:selection-raised:{type(exc).__name__}", f"m{label} on a {nv}-variant model: {type(exc).__name__}: {str(exc)[:160]}")
                return
            kind_ = "slice" if isinstance(sel, slice) else type(sel).__name__
            c.event("variant-law", f"access:selection:{kind_}", key=("selection", label if not label[1].isdigit() else "[last:]", nv), nontrivial=True)
            if getattr(sub, "num_variants", None) != len(idx):
                vio("variant-law:selection:wrong-number-of-variants", f"m{label} of a {nv}-variant model has {getattr(sub, 'num_variants', None)} variants, expected {len(idx)}")
                return
            for part in ("params", "stds", "levels", "changes"):
                want = {n: [v[i] for i in idx] for n, v in obs[part].items()}
                ok, why = same(eo[part], want)
                if not ok:
                    vio("variant-law:selection:elements-are-not-the-selected-variants", f"m{label} of a {nv}-variant model (variants {idx}): {part}: {why}")
                    return
            if not same(eo["solutions"], [obs["solutions"][i] for i in idx])[0]:
                vio("variant-law:selection:elements-have-other-variants-solutions", f"m{label} of a {nv}-variant model (variants {idx})")
                return
        for k in range(m.num_variants):
            try:
                single = _fresh(case, [])
                single.alter_num_variants(1)
                vals = {n: v[k] for n, v in list(obs["params"].items()) + list(obs["stds"].items())}
                with rt.quiet():
                    single.assign(**vals)
                    # same starting values for the steady state as variant k has now
                    single.assign(**{n: (obs["levels"][n][k], obs["changes"][n][k]) for n in obs["levels"] if obs["levels"][n][k] is not None})
                    single.solve_steady()
                    single.solve()
            except Exception as exc:
                c.inconc(f"variant-law:single-variant-model-failed:{type(exc).__name__}")
                continue
            so = observe(single)
            c.event("variant-law", f"variant-{min(k, 2)}", key=("variant", m.num_variants, k, case["family"]), nontrivial=True)
            for part in ("levels", "changes"):
                a = {n: [v[k]] for n, v in obs[part].items()}
                ok, why = same(a, so[part], tol=1e-9)
                if not ok:
                    vio(f"variant-law:steady-{part}-differ", f"variant {k} of {m.num_variants}: {why}")
                    return
            ok, why = same([obs["solutions"][k]], so["solutions"], tol=1e-9)
            if not ok:
                vio("variant-law:solution-differs", f"variant {k} of {m.num_variants}: {why}")
                return
            fs = sim_fingerprint(single)
            if fp_all is not None and fs is not None:
                a = {n: [[row[k]] for row in v] for n, v in fp_all.items()}
                ok, why = same(a, fs, tol=1e-9)
                if not ok:
                    vio("variant-law:simulation-differs", f"variant {k} of {m.num_variants}: {why}")
                    return


def check_portable(c, case):
    import irispie as ir
    spec = case["spec"]
    try:
        m = _fresh(case, [])
    except Exception:
        return
    c.event("portable", "roundtrip", key=("portable", case["family"], bool(spec["mvars"]), bool(spec["tshocks"])), nontrivial=True)
    try:
        p = m.to_portable()
    except Exception as exc:
        c.violation(f"portable:to_portable:raised:{type(exc).__name__}", f"to_portable raised {type(exc).__name__}: {str(exc)[:160]}", case=case)
        return
    try:
        m2 = ir.Simultaneous.from_portable(p)
    except Exception as exc:
        c.violation(f"portable:from_portable:raised:{type(exc).__name__}", f"from_portable(to_portable(m)) raised {type(exc).__name__}: {str(exc)[:160]}", case=case)
        return
    a, b = observe(m), observe(m2)
    for part in ("names", "logly", "equations", "flags", "params"):
        ok, why = same(a[part], b[part])
        if not ok:
            c.violation(f"portable:roundtrip:{part}-differ", f"{part}: {why}", case=case)
            return


def check_portable_without_transition_shocks(c, seed):
    """to_portable() raises for every model with transition shocks (known finding), which hides the rest of the portable round
    trip. Models whose only shocks are measurement shocks do go through: names, kinds (through the names per kind), log status,
    equations, flags, and the parameter values, stds and steady values of EVERY variant must come back."""
    import irispie as ir
    g = np.random.default_rng(seed)
    n = int(g.integers(1, 4))
    nv = int(g.integers(1, 4))
    flat = bool(g.random() < 0.6)
    logs = [bool(g.random() < 0.3) for _ in range(n)]
    lines = ["!transition-variables", "    " + ", ".join(f"x{i}" for i in range(n)), "!measurement-variables", "    y0",
             "!measurement-shocks", "    w0", "!parameters", "    " + ", ".join([f"rho{i}" for i in range(n)] + [f"c{i}" for i in range(n)])]
    if any(logs):
        lines += ["!log-variables", "    " + ", ".join(f"x{i}" for i in range(n) if logs[i])]
    lines.append("!transition-equations")
    for i in range(n):
        eq_ = f"x{i} = x{i}[-1]^rho{i}*exp(c{i})" if logs[i] else f"x{i} = rho{i}*x{i}[-1] + c{i}"
        if g.random() < 0.4:
            # a separate steady form (dynamic !! steady): the two forms must come back in their own places
            eq_ += f" !! x{i} = " + (f"exp(c{i}/(1-rho{i}))" if logs[i] else f"c{i}/(1-rho{i})")
        lines.append(f"    {eq_};")
    lines += ["!measurement-equations", "    y0 = " + " + ".join(f"0.5*x{i}" for i in range(n)) + " + w0;"]
    src = "\n".join(lines) + "\n"
    case = {"kind": "portable-shockless", "seed": int(seed), "source": src}
    try:
        with rt.quiet():
            deterministic = bool(g.random() < 0.3)
            m = ir.Simultaneous.from_string(src, linear=False, flat=flat, deterministic=deterministic)
            if deterministic:
                vals_std_ok = False
            if nv > 1:
                m.alter_num_variants(nv)
            vals = {}
            for i in range(n):
                vals[f"rho{i}"] = [float(np.round(g.uniform(0.2, 0.8), 3)) for _ in range(nv)]
                vals[f"c{i}"] = [float(np.round(g.uniform(0.1, 0.9), 3)) for _ in range(nv)]
            if not deterministic:
                vals["std_w0"] = [float(np.round(g.uniform(0.1, 2.0), 3)) for _ in range(nv)]
            m.assign(**{k: (v if nv > 1 else v[0]) for k, v in vals.items()})
            m.assign(**{f"x{i}": (1.0, 1.0 if logs[i] else 0.0) for i in range(n)})
            m.solve_steady()
    except Exception as exc:
        c.inconc(f"portable-shockless:build-failed:{type(exc).__name__}")
        return
    c.event("portable", "roundtrip:no-transition-shocks", key=("portable-shockless", n, nv, flat, any(logs)), nontrivial=nv >= 2)
    try:
        p = m.to_portable()
        import json as _json
        p = _json.loads(_json.dumps(p))          # the portable form is meant to travel as JSON
        m2 = ir.Simultaneous.from_portable(p)
    except Exception as exc:
        c.violation(f"portable:shockless-roundtrip:raised:{type(exc).__name__}", f"{type(exc).__name__}: {str(exc)[:200]}", case=case)
        return
    a, b = observe(m), observe(m2)
    for part in ("names", "nvar", "logly", "equations", "steady_equations", "flags", "params", "stds"):   # (steady values are not among the things promised)
        ok, why = same(a[part], b[part], tol=1e-12)
        if not ok:
            c.violation(f"portable:roundtrip:{part}-differ", f"{part}: {why} ({nv} variants)", case=case)
            return


# ------------------------------------------------------------------------------
# Sequential and RedVAR round trips
# ------------------------------------------------------------------------------


def run_sequential(c, case):
    import irispie as ir
    import dill
    src = case["source"]
    try:
        with rt.quiet():
            m = ir.Sequential.from_string(src)
            m.assign(**case["params"])
    except Exception as exc:
        c.inconc(f"sequential:build-failed:{type(exc).__name__}")
        return
    start = ir.yy(2001)
    span = ir.Span(start, start + 5)
    g = np.random.default_rng(case["seed"])
    db = ir.Databox()
    for n in case["names"]:
        db[n] = ir.Series(start=start - 3, values=g.uniform(0.8, 1.5, size=9))
        db["res_" + n] = ir.Series(start=start - 3, values=g.normal(0, 0.01, size=9))

    def fp(mm):
        with rt.quiet():
            out = mm.simulate(db, span)
        res = {n: np.asarray(out[n].get_data(tuple(span)), dtype=float).tolist() for n in case["lhs"]}
        # the same with a plan that exogenizes the first left-hand variable in two periods: the backed-out residuals go
        # through the residual function of the equation, which a plain simulation never calls
        try:
            with rt.quiet():
                plan = ir.SimulationPlan(mm, span)
                plan.exogenize((start + 1, start + 3), case["lhs"][0])
                out2 = mm.simulate(db, span, plan=plan)
            res["planned"] = {n: np.asarray(out2[n].get_data(tuple(span)), dtype=float).tolist()
                              for n in list(case["lhs"]) + ["res_" + case["lhs"][0]] if n in out2}
        except Exception as exc:
            res["planned"] = f"raised:{type(exc).__name__}"
        return res
    try:
        base = fp(m)
    except Exception as exc:
        c.inconc(f"sequential:simulate-failed:{type(exc).__name__}")
        return
    for how, make in (("copy", lambda x: x.copy()), ("pickle", lambda x: pickle.loads(pickle.dumps(x))), ("dill", lambda x: dill.loads(dill.dumps(x)))):
        try:
            d = make(m)
        except Exception as exc:
            c.violation(f"sequential:{how}:raised:{type(exc).__name__}", f"{how} of a Sequential raised {type(exc).__name__}: {str(exc)[:160]}", case=case)
            continue
        c.event("sequential", how, key=("seq", how, len(case["lhs"])), nontrivial=True)
        if not same(fp(d), base)[0]:
            c.violation(f"sequential:{how}:simulates-differently", f"the {how} of a Sequential model simulates differently", case=case)
            return
        # mutate the derived object: the original must not change
        with rt.quiet():
            d.assign(**{k: v * 1.37 for k, v in case["params"].items()})
        if not same(fp(m), base)[0]:
            c.violation(f"sequential:{how}:assign-to-derived-changes-original", f"assigning parameters to the {how} changed the original", case=case)
            return
        if case["params"] and same(fp(d), base)[0]:
            c.violation(f"sequential:{how}:assign-to-derived-has-no-effect", f"assigning parameters to the {how} did not change its simulation", case=case)
            return


def run_redvar(c, case):
    import irispie as ir
    import dill
    g = np.random.default_rng(case["seed"])
    n, order, T = case["n"], case["order"], 40
    start = ir.qq(2000, 1)
    names = [f"y{i}" for i in range(n)]
    A = 0.4 * np.eye(n) + 0.1 * g.normal(size=(n, n))
    y = np.zeros((T, n))
    for t in range(1, T):
        y[t] = y[t - 1] @ A.T + g.normal(0, 0.1, size=n) + 0.2
    db = ir.Databox()
    for i, nm in enumerate(names):
        db[nm] = ir.Series(start=start, values=y[:, i])
    span = ir.Span(start + order, start + (T - 1))
    try:
        with rt.quiet():
            v = ir.RedVAR(names, order=order)
            est = v.estimate(db, span)
            est_db = est[0] if isinstance(est, tuple) else est
    except Exception as exc:
        c.inconc(f"redvar:estimate-failed:{type(exc).__name__}")
        return

    def fp(mm):
        sm = mm.get_system_matrices()
        out = {"A": np.asarray(sm.A, dtype=float).tolist(), "c": np.asarray(sm.c, dtype=float).tolist() if getattr(sm, "c", None) is not None else None}
        try:
            with rt.quiet():
                s = mm.simulate(est_db, ir.Span(start + order, start + order + 5))
            out["sim"] = {nm: np.asarray(s[nm].get_data(tuple(ir.Span(start + order, start + order + 5))), dtype=float).tolist() for nm in names}
        except Exception:
            out["sim"] = None
        return out
    try:
        base = fp(v)
    except Exception as exc:
        c.inconc(f"redvar:fingerprint-failed:{type(exc).__name__}")
        return
    for how, make in (("copy", lambda x: x.copy()), ("pickle", lambda x: pickle.loads(pickle.dumps(x))), ("dill", lambda x: dill.loads(dill.dumps(x)))):
        try:
            d = make(v)
        except Exception as exc:
            c.violation(f"redvar:{how}:raised:{type(exc).__name__}", f"{how} of a RedVAR raised {type(exc).__name__}: {str(exc)[:160]}", case=case)
            return
        c.event("redvar", how, key=("redvar", how, n, order), nontrivial=True)
        ok, why = same(fp(d), base)
        if not ok:
            c.violation(f"redvar:{how}:differs-from-source", f"the {how} of an estimated RedVAR differs: {why}", case=case)
            return
        # re-estimating the derived object on other data must not change the original
        try:
            db2 = ir.Databox()
            for i, nm in enumerate(names):
                db2[nm] = ir.Series(start=start, values=y[:, i] * 1.5 + g.normal(0, 0.05, size=T))
            with rt.quiet():
                d.estimate(db2, span)
        except Exception:
            continue
        ok, why = same(fp(v), base)
        if not ok:
            c.violation(f"redvar:{how}:estimating-the-derived-object-changes-original", f"{why}", case=case)
            return


# ------------------------------------------------------------------------------
# workload
# ------------------------------------------------------------------------------


def make_case(rng):
    r = rng.random()
    if r < 0.12:
        n = int(rng.integers(1, 4))
        names = [f"s{i}" for i in range(n)]
        eqs, params = [], {}
        for i, nm in enumerate(names):
            params[f"c{i}"] = float(np.round(rng.uniform(0.2, 0.8), 3))
            rhs = f"c{i}*{nm}[-1] + 0.1"
            if i > 0:
                rhs += f" + 0.2*{names[i - 1]}"
            lhs = str(rng.choice([nm, f"log({nm})", f"diff({nm})"]))
            eqs.append(f"  {lhs} = {rhs};")
        return {"kind": "sequential", "source": "!parameters\n  " + ", ".join(params) + "\n!equations\n" + "\n".join(eqs) + "\n", "params": params,
                "names": names, "lhs": names, "seed": int(rng.integers(0, 10 ** 6))}
    if r < 0.2:
        return {"kind": "redvar", "n": int(rng.integers(1, 4)), "order": int(rng.integers(1, 4)), "seed": int(rng.integers(0, 10 ** 6))}
    if rng.random() < 0.55:
        family = "L"
        spec, meta = F.family_L(rng, unit_root=False, measurement=bool(rng.random() < 0.5))
        steady = None
    else:
        family = "N"
        spec, steady, meta = F.family_N(rng, measurement=bool(rng.random() < 0.5))
        if spec is None:
            return None
    if rng.random() < 0.5:
        spec["flags"] = dict(spec["flags"], flat=False)
    rr = M.render_source(spec, None, 0)
    params = {p["name"]: p["value"] for p in spec["params"]}
    prologue = [{"op": "assign", "values": dict(params)}]
    if family == "N":
        prologue.append({"op": "assign_steady", "values": {n: [lvl, chg] for n, (lvl, chg) in steady.items()}})
    tunable = [k for k in params if not k.startswith("kcal")]
    ops = []
    nops = int(rng.integers(3, 13))
    for _ in range(nops):
        t = int(rng.integers(0, 6))
        u = rng.random()
        if u < 0.25:
            ops.append({"op": "derive", "how": str(rng.choice(["copy", "copy", "pickle", "dill", "saveload"])), "target": t})
        elif u < 0.32:
            v_ = spec["tvars"][int(rng.integers(0, len(spec["tvars"])))]
            lvl = float(np.round(rng.uniform(0.7, 1.6), 3))
            chg = float(np.round(rng.uniform(1.0, 1.02), 4)) if v_.get("log") else float(np.round(rng.uniform(-0.02, 0.02), 4))
            ops.append({"op": "assign_steady", "values": {v_["name"]: [lvl, chg]}, "target": t})
        elif u < 0.5 and tunable:
            k = tunable[int(rng.integers(0, len(tunable)))]
            ops.append({"op": "assign", "values": {k: float(np.round(params[k] * rng.uniform(0.8, 1.1), 4))}, "target": t})
        elif u < 0.65:
            ops.append({"op": "solve_steady", "target": t})
        elif u < 0.8:
            ops.append({"op": "solve", "target": t})
        elif u < 0.88:
            ops.append({"op": "alter", "n": int(rng.integers(1, 4)), "target": t})
        elif u < 0.94:
            ops.append({"op": "rescale", "factor": float(np.round(rng.uniform(0.5, 2.0), 2)), "target": t})
        else:
            # mutators of the part of a model that all its variants share (description, tolerances): a copy has its own
            ops.append([{"op": "set_description", "text": f"model #{int(rng.integers(0, 1000))}", "target": t},
                        {"op": "override_tolerance", "eigenvalue": float(rng.choice([1e-10, 1e-8, 1e-6])), "target": t},
                        {"op": "reset_tolerance", "target": t}][int(rng.integers(0, 3))])
    # per-variant assignment after an expansion makes variants differ
    if rng.random() < 0.5 and tunable:
        k = tunable[0]
        ops.insert(int(rng.integers(0, len(ops) + 1)), {"op": "alter", "n": 2, "target": 0})
        ops.append({"op": "assign", "values": {k: [params[k], float(np.round(params[k] * 0.9, 4))]}, "target": 0})
        ops.append({"op": "solve_steady", "target": 0})
        ops.append({"op": "solve", "target": 0})
        if rng.random() < 0.5:
            # variants differ now: grow by one (repeats the last) and shrink back to the first
            ops.append({"op": "alter", "n": 3, "target": 0})
            ops.append({"op": "derive", "how": "copy", "target": 0})
            ops.append({"op": "alter", "n": 1, "target": 0})
    return {"kind": "history", "family": family, "spec": spec, "source": rr["source"], "prologue": prologue, "ops": ops}


def run_case(c, case):
    with c.running(case):
        if case["kind"] == "sequential":
            run_sequential(c, case)
        elif case["kind"] == "portable-shockless":
            check_portable_without_transition_shocks(c, case["seed"])
        elif case["kind"] == "redvar":
            run_redvar(c, case)
        else:
            run_history(c, case)
            if case.get("check_portable", True):
                check_portable(c, case)


def replay(c, case):
    install()
    run_case(c, case)


def directed_cases():
    """deterministic cases hit on every run and seed (one per known-finding mechanism)"""
    seq = {"kind": "sequential", "source": "!parameters\n  c0\n!equations\n  s0 = c0*s0[-1] + 0.1;\n", "params": {"c0": 0.5},
           "names": ["s0"], "lhs": ["s0"], "seed": 1}
    spec = {"tvars": [{"name": "x", "desc": "", "log": False}], "mvars": [], "exog": [], "mshocks": [], "families": [], "user_funcs": {},
            "tshocks": [{"name": "e", "desc": ""}], "params": [{"name": "rho", "desc": "", "value": 0.5}],
            "teqs": [], "meqs": [], "flags": {"linear": True, "flat": True}}
    src = "!transition-variables\n    x\n!transition-shocks\n    e\n!parameters\n    rho\n!transition-equations\n    x=rho*x[-1]+e;\n"
    port = {"kind": "history", "family": "L", "spec": spec, "source": src, "prologue": [{"op": "assign", "values": {"rho": 0.5}}], "ops": [],
            "check_portable": True}
    return [seq, port]


def shard(c):
    install()
    rng = c.rng
    for case in directed_cases():
        try:
            run_case(c, case)
        except Exception as exc:
            c.inconc(f"harness:case-error:{type(exc).__name__}")
    n = c.scale(110, 3000)
    for i in range(n):
        if c.out_of_time():
            break
        try:
            case = make_case(rng)
        except Exception as exc:
            c.inconc(f"generator:error:{type(exc).__name__}")
            continue
        if case is None:
            continue
        if i % 4 == 0:
            try:
                run_case(c, {"kind": "portable-shockless", "seed": int(rng.integers(0, 2 ** 31))})
            except Exception as exc:
                c.inconc(f"harness:case-error:{type(exc).__name__}")
        if case["kind"] == "history":
            case["check_portable"] = (i % 10 == 0)   # the portable round trip does not depend on the history: sampled
        try:
            run_case(c, case)
        except Exception as exc:
            c.inconc(f"harness:case-error:{type(exc).__name__}")
            c.extra["last_case_error"] = repr(exc)[:300]
        if i < 1 and case["kind"] == "history":
            c.sample({"source": case["source"], "ops": case["ops"]})
