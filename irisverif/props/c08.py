"""
C08 -- smoothed estimates reproduce the data and are a simulation of the model

Deciding monitor: wrapper on Simultaneous.kalman_filter (workload shared with C03). On every call with smoothing output:
  1. smooth_med of an observable equals the datum wherever one exists (in logs for log observables);
  2. every measurement equation, linearised by the oracle from the spec (exact for linear models), holds on smooth_med
     including the smoothed measurement shocks wherever the observable is observed;
  3. every transition equation WITHOUT leads holds on smooth_med with the smoothed transition shocks from the period in which
     all its lags lie inside the smoothed span;
  4. re-simulating the model (real first-order simulator) from the smoothed initial condition with the smoothed shocks
     reproduces the smoothed transition variables on the remaining periods;
  5. metamorphic: the filter in deviation mode on data (-) steady state equals the level-mode result (-) steady state
     ((-) is division for log-variables).
Not decided: prepend_initial=True (crashes in create_out_info: outside the wording), approx_diffuse.
"""

from __future__ import annotations

import numpy as np

from .. import runtime as rt
from ..oracles import linre
from ..workloads import models as M
from . import c03

ID = "C08"
TIERS = {
    "quick": {"shards": 8, "budget_s": 45},
    "thorough": {"shards": 16, "budget_s": 540},
}
MIN_EVENTS = {"quick": 5000, "thorough": 3000}
DECIDING = {"smooth"}
RULE = (
    "same cases as C03 (families L incl. unit roots and N with log observables, spans 1..16, six mask classes, time-varying stds, "
    "shock means, deviation, rescale_variance). distinct key = (check, family, #xi, #y, mask class, deviation, unit roots, max lag); "
    "non-trivial = at least 3 periods and one missing cell or a lag of order 2."
)
ASSUMPTIONS = [
    "equations linearised by the oracle (finite differences of the AST at the reported steady state); exact for linear models",
    "tolerance 1e-7*(1+scale)",
]
ANCHORS = [
    "irispie.fords.kalmans:smooth",
    "irispie.fords.kalmans:one_step_back",
    "irispie.fords.kalmans:_OutputStore.store_smooth",
    "irispie.fords.kalmans:_MedLogDataslate.to_output_arg",
    "irispie.fords.solutions:_solve_measurement_equations",
    "irispie.dataslates.main:Dataslate.from_databox_for_slatable",
    "irispie.fords.simulators:simulate_flat",
]

_REG = {}


def install():
    import irispie

    def make(orig):
        def kalman_filter(self, input_db, span, *args, **kwargs):
            result = orig(self, input_db, span, *args, **kwargs)
            c = rt.ctx()
            case = _REG.get(id(self._invariant))
            if c is None or case is None or case.get("busy"):
                return result
            case["busy"] = True
            try:
                _check(c, orig, self, input_db, span, kwargs, result, case)
            except Exception as exc:
                c.inconc(f"smooth:monitor-error:{type(exc).__name__}")
                c.extra["last_monitor_error"] = repr(exc)[:400]
            finally:
                case["busy"] = False
            return result
        return kalman_filter
    rt.wrap_attr(irispie.Simultaneous, "kalman_filter", make)


def _arr(box, name, span, is_log):
    key = f"log({name})" if is_log and f"log({name})" in box else name
    if key not in box:
        return None
    a = np.asarray(box[key].get_data(span), dtype=float)[:, 0]
    return np.log(a) if (is_log and key == name) else a


def _check(c, orig, model, input_db, span, kwargs, result, case):
    import irispie as ir
    out = result[0] if isinstance(result, tuple) else result
    if out is None or "smooth_med" not in out:
        return
    if kwargs.get("prepend_initial") or kwargs.get("append_terminal") or model.num_variants != 1:
        c.inconc("smooth:option-not-decided")
        return
    # certificate shared with C03: non-singular, well-conditioned observation covariance, identified initial condition
    # (the certificate does not depend on shock means, so announced/anticipated shock paths in the data are admitted here)
    pr_ = c03.prepare(c, model, input_db, span, kwargs, tag="smooth", allow_ant=True)
    if pr_ is None:
        return
    n_observed = len(pr_["jt"].y_obs)   # with unit roots and no observation at all the unknown initial level is not identified
    sm = out["smooth_med"]
    spec = case["spec"]
    span = tuple(span)
    N = len(span)
    deviation = bool(kwargs.get("deviation", False))
    logly = model.get_log_status()
    vio = lambda k, msg, detail=None: c.violation(k, msg, detail=detail, case=case["case"])
    sol = model.get_solution()
    n_unit = int(sol.num_unit_roots)
    tnames = [q["name"] for q in spec["tvars"]]
    ynames = [q["name"] for q in spec["mvars"]]
    unames = [q["name"] for q in spec["tshocks"]]
    wnames = [q["name"] for q in spec["mshocks"]]
    Y = {}
    for nm in ynames:
        if nm in input_db:
            v = np.asarray(input_db[nm].get_data(span), dtype=float)[:, 0]
            Y[nm] = np.log(v) if logly.get(nm) else v
        else:
            Y[nm] = np.full(N, np.nan)
    nmiss = int(sum(np.sum(~np.isfinite(v)) for v in Y.values()))
    base_key = (case["family"], len(tnames), len(ynames), "missing" if nmiss else "complete", deviation, n_unit)
    S = {nm: _arr(sm, nm, span, logly.get(nm)) for nm in tnames + ynames}
    U = {nm: _arr(sm, nm, span, False) for nm in unames + wnames}
    if any(v is None for v in S.values()) or any(v is None for v in U.values()):
        vio("smooth:output-name-missing", f"smooth_med lacks one of {tnames + ynames + unames + wnames}")
        return
    # announced (anticipated) shock paths given with the data are handed back unchanged and enter the equations next to
    # the unanticipated shock of the same name
    n_ant = 0
    if kwargs.get("shocks_from_data"):
        for nm in unames:
            if "ant_" + nm not in input_db:
                continue
            given = np.nan_to_num(np.asarray(input_db["ant_" + nm].get_data(span), dtype=float)[:, 0])
            if not np.any(given != 0):
                continue
            n_ant += 1
            back = _arr(sm, "ant_" + nm, span, False)
            c.event("smooth", "anticipated-path-handed-back", key=("ant",) + base_key, nontrivial=True)
            if back is None or np.max(np.abs(np.nan_to_num(back) - given)) > 1e-10:
                vio("smooth:anticipated-shock-path-changed", f"ant_{nm}: the smoother output differs from the announced path given in the data")
                return
            U[nm] = U[nm] + given
        if n_ant:
            base_key = base_key + ("anticipated",)
    # ---- 1. observables reproduce the data
    for nm in ynames:
        obs = np.isfinite(Y[nm])
        c.event("smooth", "data-reproduced", key=("data",) + base_key, nontrivial=N >= 3 and nmiss > 0)
        if obs.any() and np.max(np.abs(S[nm][obs] - Y[nm][obs])) > 1e-8 * (1 + np.max(np.abs(Y[nm][obs]))):
            vio("smooth:observable-differs-from-data", f"{nm}: max |smoothed - data| = {np.max(np.abs(S[nm][obs] - Y[nm][obs])):.3e}")
            return
    # ---- linearisation by the oracle
    lin = case.get("lin")
    if lin is None:
        steady = {}
        if case["family"] == "L":
            steady = {nm: (0.0, 0.0) for nm in tnames + ynames}
        else:
            lv, ch = model.get_steady_levels(), model.get_steady_changes()
            for nm in tnames + ynames:
                steady[nm] = (float(lv[nm]), float(ch[nm]) if ch[nm] is not None and np.isfinite(ch[nm]) else (1.0 if logly.get(nm) else 0.0))
        lin = linre.linearize(spec, steady, {p["name"]: p["value"] for p in spec["params"]}, M.user_funcs_of(spec))
        case["lin"] = lin
        case["steady_used"] = steady
    steady = case["steady_used"]
    linear_levels = case["family"] == "L" and not deviation

    def dev(nm, arr):
        if deviation or case["family"] == "L":
            return arr
        lvl = steady[nm][0]
        return arr - (np.log(lvl) if logly.get(nm) else lvl)

    Sd = {nm: dev(nm, S[nm]) for nm in tnames + ynames}
    # ---- 2. measurement equations where observed
    for ei, (coefs, wco) in enumerate(zip(lin.meq, lin.meq_w)):
        yname = spec["meqs"][ei]["lhs"][1] if spec["meqs"][ei]["lhs"][0] == "var" else ynames[ei]   # (equations need not follow the declaration order)
        for t in range(N):
            if not np.isfinite(Y[yname][t]):
                continue
            if any(t + s < 0 for (_, s) in coefs):
                continue
            if any(nm in Y and nm != yname and not np.isfinite(Sd[nm][t + s]) for (nm, s) in coefs):
                continue   # the equation refers to ANOTHER measurement variable that is not observed there (reported as NaN by design)
            val = sum(cf * Sd[nm][t + s] for (nm, s), cf in coefs.items()) + sum(cf * U[w][t] for w, cf in wco.items())
            if linear_levels:
                val += lin.const_m[ei]
            scale = 1 + max([abs(cf * Sd[nm][t + s]) for (nm, s), cf in coefs.items()] + [0])
            c.event("smooth", "measurement-equation", key=("meq",) + base_key, nontrivial=N >= 3)
            if not np.isfinite(val) or abs(val) > 1e-7 * scale:
                vio("smooth:measurement-equation-residual" + (":deviation" if deviation else ""),
                    f"measurement equation #{ei} ({yname}) residual {val:.3e} in period {t}", detail={"equation": ei, "period": t})
                return
    # ---- 3. backward-looking transition equations
    maxlag = 0
    for ei, (coefs, uco) in enumerate(zip(lin.teq, lin.teq_u)):
        if any(s > 0 for (_, s) in coefs):
            continue
        lag = -min([s for (_, s) in coefs] + [0])
        maxlag = max(maxlag, lag)
        for t in range(lag, N):
            val = sum(cf * Sd[nm][t + s] for (nm, s), cf in coefs.items()) + sum(cf * U[u][t] for u, cf in uco.items())
            if linear_levels:
                val += lin.const_t[ei]
            scale = 1 + max([abs(cf * Sd[nm][t + s]) for (nm, s), cf in coefs.items()] + [0])
            c.event("smooth", "transition-equation", key=("teq", lag) + base_key, nontrivial=N >= 3 and (nmiss > 0 or lag >= 2))
            if not np.isfinite(val) or abs(val) > 1e-7 * scale:
                vio("smooth:backward-transition-equation-residual" + (":deviation" if deviation else ""),
                    f"transition equation #{ei} residual {val:.3e} in period {t}", detail={"equation": ei, "period": t})
                return
    # ---- 4. re-simulation from the smoothed initial condition with the smoothed shocks
    lo = min([s for coefs in lin.teq + lin.meq for (_, s) in coefs] + [-1])
    try:
        lo = min(lo, int(model.max_lag))   # structural lags count even when their derivative vanishes
    except Exception:
        pass
    need = -lo + (1 if any(s < 0 for coefs in lin.meq for (_, s) in coefs) else 0)
    if N > need + 1:
        try:
            sim_db = sm.copy()
            for nm in ynames:   # measurement variables are outputs of the simulation
                if nm in sim_db:
                    del sim_db[nm]
                if f"log({nm})" in sim_db:
                    del sim_db[f"log({nm})"]
            for k_ in [k_ for k_ in sim_db.keys() if k_.startswith("std_")]:
                del sim_db[k_]   # the filter output carries all-NaN std series; the model's own std parameters apply
            sim_span = ir.Span(span[need], span[-1])
            with rt.quiet():
                sim = model.simulate(sim_db, sim_span, method="first_order", deviation=deviation)
            for nm in tnames:
                a = np.asarray(sim[nm].get_data(tuple(sim_span)), dtype=float)[:, 0]
                b = np.exp(S[nm][need:]) if logly.get(nm) else S[nm][need:]
                err = np.max(np.abs(a - b))
                c.event("smooth", "resimulation", key=("resim",) + base_key, nontrivial=N >= 3)
                if not np.isfinite(err) or err > 1e-7 * (1 + np.max(np.abs(b))):
                    vio("smooth:resimulation-differs" + (":deviation" if deviation else ""),
                        f"{nm}: simulating from the smoothed initial condition with the smoothed shocks differs from smooth_med by {err:.3e}")
                    return
        except Exception as exc:
            c.inconc(f"smooth:resimulation-not-possible:{type(exc).__name__}")
    # ---- 5. deviation mode == level mode (-) steady state
    # (with unit roots only under fixed_unknown: fixed_zero pins the unit-root component of the LEVEL in one mode and of the
    # DEVIATION in the other, which are different initial conditions whenever the steady state loads on the unit-root block)
    twin_ok = n_unit == 0
    if n_unit > 0 and kwargs.get("diffuse_method", "fixed_unknown") == "fixed_unknown" and n_observed > 0:
        # a unit root next to a constant (an accidental one: 0.7*x = 0.7*x[-1] - 0.62) has no steady state to subtract
        try:
            twin_ok = case["family"] != "L" or bool(linre.linear_steady_exists(spec, {p["name"]: p["value"] for p in spec["params"]}, True))
        except Exception:
            twin_ok = False
        if not twin_ok:
            c.inconc("smooth:deviation-twin:no-steady-state-exists")
    if not deviation and twin_ok and not kwargs.get("stds_from_data") and case.get("do_deviation_twin"):
        try:
            sdb = ir.Databox.steady(model, ir.Span(span[0], span[-1]))
            ddb = input_db.copy()
            for nm in ynames:
                if nm in ddb:
                    sv = sdb[nm]
                    ddb[nm] = (ddb[nm] / sv) if logly.get(nm) else (ddb[nm] - sv)
            kw = dict(kwargs)
            kw["deviation"] = True
            with rt.quiet(), np.errstate(all="ignore"):
                res2 = orig(model, ddb, ir.Span(span[0], span[-1]), **kw)
            out2 = res2[0] if isinstance(res2, tuple) else res2
            for nm in tnames:
                lvl = S[nm]
                sv = np.asarray(sdb[nm].get_data(span), dtype=float)[:, 0]
                want = lvl - (np.log(sv) if logly.get(nm) else sv)
                got = _arr(out2["smooth_med"], nm, span, logly.get(nm))
                c.event("smooth", "deviation-twin", key=("devtwin",) + base_key, nontrivial=N >= 3)
                if np.max(np.abs(got - want)) > 1e-7 * (1 + np.max(np.abs(want))):
                    vio("smooth:deviation-mode-differs-from-level-mode-minus-steady", f"{nm}: max discrepancy {np.max(np.abs(got - want)):.3e}")
                    return
        except Exception as exc:
            c.inconc(f"smooth:deviation-twin-not-possible:{type(exc).__name__}")


def run_case(c, case):
    with c.running(case):
        built = c03.build_model_and_data(c, case)
        if built is None:
            return
        m, data, span = built
        _REG[id(m._invariant)] = {"spec": case["spec"], "family": case["family"], "case": case,
                                  "do_deviation_twin": not case["opts"].get("deviation") and not case.get("shock_means")}
        try:
            if not case["opts"].get("deviation") and case["data_seed"] % 2 == 0:
                # history of the model object: a deviation-mode run (filter and simulation) BEFORE the level-mode run on the
                # same solved model -- the deviation solution must be a separate object, not the stored solution zeroed in place
                import irispie as ir
                try:
                    with rt.quiet(), np.errstate(all="ignore"):
                        sdb = ir.Databox.steady(m, span)
                        ddb = data.copy()
                        logly = m.get_log_status()
                        for q in case["spec"]["mvars"]:
                            if q["name"] in ddb:
                                ddb[q["name"]] = (ddb[q["name"]] / sdb[q["name"]]) if logly.get(q["name"]) else (ddb[q["name"]] - sdb[q["name"]])
                        kw = dict(case["opts"], deviation=True)
                        _REG[id(m._invariant)]["busy"] = True
                        m.kalman_filter(ddb, span, **kw)
                        m.simulate(ir.Databox.zero(m, span), span, deviation=True)
                except Exception:
                    pass
                finally:
                    _REG[id(m._invariant)]["busy"] = False
            with rt.quiet(), np.errstate(all="ignore"):
                res0 = m.kalman_filter(data, span, return_info=True, **case["opts"])
            if case.get("mv"):
                # two parameter variants filtered in one call: each variant equals the single-variant model with its values
                _REG.pop(id(m._invariant), None)
                c03.variant_law(c, case, m, data, span, res0)
        except Exception as exc:
            c.inconc(f"kalman_filter:raised:{type(exc).__name__}")
        finally:
            _REG.pop(id(m._invariant), None)


def replay(c, case):
    install()
    run_case(c, case)


def shard(c):
    install()
    rng = c.rng
    n = c.scale(600, 4000)
    for i in range(n):
        if c.out_of_time():
            break
        try:
            case = c03.make_case(rng, ant=True)
        except Exception as exc:
            c.inconc(f"generator:error:{type(exc).__name__}")
            continue
        if case is None:
            continue
        try:
            run_case(c, case)
        except Exception as exc:
            c.inconc(f"harness:case-error:{type(exc).__name__}")
            c.extra["last_case_error"] = repr(exc)[:300]
        if i < 1:
            c.sample({k: case[k] for k in ("family", "source", "N", "mask", "stds", "opts")})
