"""
C04 -- model source text is translated to equations without changing their meaning

Deciding monitor: postcondition wrapper on Simultaneous.from_string. The workload generates a structured
model (ModelSpec: names, kinds, descriptions, log flags, equations as ASTs), renders it to source text with a drawn
combination of syntactic alternatives, registers the spec, and calls the real from_string; the monitor compares
  names per kind, descriptions, log status, number of equations per kind,
  the value of every dynamic and steady equation on random data at several dates
     (model._invariant._plain_dynamic_equator / _plain_steady_equator vs. the AST evaluator; shocks of dynamic
      transition equations read as shock + ant_shock, as the model object documents)
with the spec. The AST evaluator never parses text.

Channels:
  holds              pseudofunction arguments with at most one level of parentheses (what the expander documents)
  reject-or-right    deeper pseudofunction arguments / nested pseudofunctions: an exception (at parse or evaluation
                     time) is fine, a silently different value is a violation
Not decided: Jinja templates, from_file, malformed sources, equation order (reported as a note), `?{c}` upper/lower forms.
"""

from __future__ import annotations

import json
import threading

import numpy as np

from .. import runtime as rt
from ..oracles import expr as E
from ..workloads import models as M

ID = "C04"
TIERS = {
    "quick": {"shards": 8, "budget_s": 40},
    "thorough": {"shards": 16, "budget_s": 480},
}
MIN_EVENTS = {"quick": 1200, "thorough": 3000}
DECIDING = {"from_string"}
RULE = (
    "random ModelSpecs (1-8 transition variables, shocks, parameters, optional measurement block, exogenous variables, "
    "log flags, random expression trees over + - * / ^ unary minus, functions, pseudofunctions in every operator context, "
    "equation families) rendered to source with drawn syntax profiles (keyword aliases, split/re-ordered blocks, separators, "
    "descriptions with special characters, line/block comments, continuations, both shift bracket styles, = vs :=, !! steady "
    "versions, substitutions, !for loops, !if/!else, <...> context expressions, typed lists, !log-variables with/without !all-but). "
    "distinct key = (sorted syntax features used, pseudofunctions used, #equations class, channel); non-trivial = at least one "
    "syntactic alternative or pseudofunction beyond the canonical rendering and at least one lag or lead."
)
ASSUMPTIONS = [
    "the AST evaluator (numpy) defines the meaning of an equation; the renderer is precedence-aware and parenthesises conservatively",
    "equations are compared on 3 random positive data arrays at 3 dates each (rtol 1e-9 relative to term magnitude)",
]
ANCHORS = [
    "irispie.parsers.preparser:from_string",
    "irispie.parsers.preparser:_run_preparser_on_source_string",
    "irispie.parsers.preparser:_evaluate_contextual_expressions",
    "irispie.parsers._pseudofunctions:resolve_pseudofunctions",
    "irispie.parsers._pseudofunctions:_shift_all_names",
    "irispie.parsers._pseudofunctions:_pseudo_shift",
    "irispie.parsers._pseudofunctions:_pseudo_mov",
    "irispie.parsers._shifts:standardize_time_shifts",
    "irispie.parsers._lists:resolve_lists",
    "irispie.parsers._substitutions:resolve_substitutions",
    "irispie.parsers.models:from_string",
    "irispie.equations:xtring_from_human",
    "irispie.equations:_postprocess_xtring",
    "irispie.sources:ModelSource._populate_logly",
    "irispie.simultaneous._invariants:_introduce_anticipated_shocks_for_transition_shocks",
]

_EXPECT = threading.local()


def _kinds():
    import irispie as ir
    return {
        "tvars": ir.TRANSITION_VARIABLE,
        "mvars": ir.MEASUREMENT_VARIABLE,
        "exog": ir.EXOGENOUS_VARIABLE,
        "tshocks": ir.TRANSITION_SHOCK,
        "mshocks": ir.MEASUREMENT_SHOCK,
        "params": ir.PARAMETER,
    }


def install():
    import irispie

    def make(orig):
        def from_string(klass, *args, **kwargs):
            spec_case = getattr(_EXPECT, "case", None)
            _EXPECT.case = None  # one-shot: nested/internal calls are not attributed to the case
            result = orig(klass, *args, **kwargs)
            c = rt.ctx()
            if c is not None and spec_case is not None:
                try:
                    model = result[0] if isinstance(result, tuple) else result
                    check_model_against_spec(c, model, spec_case)
                except Exception as exc:
                    c.inconc(f"from_string:monitor-error:{type(exc).__name__}")
                    c.extra["last_monitor_error"] = repr(exc)[:300]
            return result
        return from_string
    rt.wrap_attr(irispie.Simultaneous, "from_string", make)


def _struct_key(case, spec):
    feats = tuple(case.get("features", []))
    pseudos = set()
    lagslead = False
    for eq in spec["teqs"] + spec["meqs"]:
        for side in ("lhs", "rhs"):
            _collect_pseudo(eq[side], pseudos)
            if any(s != 0 for _, s in E.occurrences(eq[side])):
                lagslead = True
    n = len(spec["teqs"]) + len(spec["meqs"])
    key = (feats, tuple(sorted(pseudos)), "n<=2" if n <= 2 else ("n<=5" if n <= 5 else "n>5"), case.get("channel", "holds"))
    nontrivial = lagslead and (bool(feats) or bool(pseudos))
    return key, nontrivial


def _collect_pseudo(node, out, ctx_op=None):
    k = node[0]
    if k == "pseudo":
        out.add(node[1] + (":" + ctx_op if ctx_op else ""))
        _collect_pseudo(node[2], out, None)
    elif k == "neg":
        _collect_pseudo(node[1], out, "neg")
    elif k == "bin":
        _collect_pseudo(node[2], out, node[1] + "L")
        _collect_pseudo(node[3], out, node[1] + "R")
    elif k == "call":
        for a in node[2]:
            _collect_pseudo(a, out, "arg")


def _classify_eq_mismatch(eq, shock_names=()):
    """mechanism key for an equation whose value differs: names the pseudofunction + operator context if one is involved"""
    if shock_names:
        occ = E.occurrences(eq["lhs"]) | E.occurrences(eq["rhs"])
        if any(n in shock_names and sh != 0 for (n, sh) in occ):
            return "equation-value:transition-shock-with-time-shift"
    found = set()
    for side in ("lhs", "rhs"):
        _collect_pseudo(eq[side], found)
    tight = sorted(f for f in found if ":" in f and f.split(":")[1] in ("*L", "*R", "/L", "/R", "^L", "^R", "neg", "-R"))
    shifts = [f for f in tight if f.startswith("shift:")]
    if shifts:
        return "equation-value:pseudofunction-shift-in-tight-operator-context"
    if found:
        return "equation-value:with-pseudofunction:" + sorted(found)[0].split(":")[0]
    return "equation-value:differs"


def check_model_against_spec(c, model, case):
    import irispie as ir
    spec = case["spec"]
    channel = case.get("channel", "holds")
    key, nontrivial = _struct_key(case, spec)
    c.event("from_string", channel, key=key, nontrivial=nontrivial)
    vio = lambda k, msg, detail=None: c.violation(k, msg, detail=detail, case=case)

    # ---- names by kind
    for kind, irkind in _kinds().items():
        want = [q["name"] for q in spec[kind]]
        got = list(model.get_names(kind=irkind))
        if sorted(want) != sorted(got):
            vio(f"names:{kind}:differ", f"{kind}: declared {sorted(want)} exposed {sorted(got)}")
        elif want != got:
            c.note(f"names:{kind}:order-differs-from-declaration")
    # ---- descriptions
    n2d = model.create_name_to_description()
    for kind in _kinds():
        for q in spec[kind]:
            want = (q.get("desc") or "").strip() if case.get("level", 0) > 0 else ""
            got = n2d.get(q["name"])
            if (got or "") != want:
                vio("description:quantity:differs", f"{q['name']}: declared {want!r} exposed {got!r}")
    # ---- log status
    logst = model.get_log_status()
    for kind in ("tvars", "mvars", "exog"):
        for q in spec[kind]:
            if logst.get(q["name"]) is not bool(q.get("log")):   # exactly True / False for every loggable variable, never None
                vio("log-status:differs", f"{q['name']}: declared log={q.get('log')} exposed {logst.get(q['name'])}")
    # ---- equations: counts
    n_t = len(model.get_dynamic_equations(kind=ir.TRANSITION_EQUATION))
    n_m = len(model.get_dynamic_equations(kind=ir.MEASUREMENT_EQUATION))
    if n_t != len(spec["teqs"]) or n_m != len(spec["meqs"]):
        vio("equations:count-differs", f"transition {n_t} vs {len(spec['teqs'])}, measurement {n_m} vs {len(spec['meqs'])}")
        return
    # ---- equation descriptions
    if case.get("level", 0) > 0:
        eq_objs = model.get_dynamic_equation_objects(kind=ir.TRANSITION_EQUATION) + model.get_dynamic_equation_objects(kind=ir.MEASUREMENT_EQUATION)
        for obj, eq in zip(eq_objs, spec["teqs"] + spec["meqs"]):
            if (obj.description or "") != (eq.get("desc") or "").strip():
                vio("description:equation:differs", f"declared {eq.get('desc')!r} exposed {obj.description!r}")
    # ---- equations: values
    name_to_qid = model.create_name_to_qid()
    nq = max(name_to_qid.values()) + 1
    lo, hi = M.shift_range(spec)
    pad = 10  # pseudofunctions also shift parameters (constant rows), which shift_range does not count
    ncols = (hi - lo) + 4 + 2 * pad
    ts = [t for t in range(-lo + pad, ncols - hi - pad)]
    params = {p["name"]: p["value"] for p in spec["params"]}
    twins = {q["name"]: "ant_" + q["name"] for q in spec["tshocks"]}
    ufs = M.user_funcs_of(spec)
    rng = np.random.default_rng(abs(hash(case["source"])) % (2 ** 32))
    eqs = spec["teqs"] + spec["meqs"]
    for rep in range(3):
        data = M.random_data(rng, spec, ncols)
        X = np.full((nq, ncols), np.nan)
        for name, arr in data.items():
            if name in name_to_qid:
                X[name_to_qid[name], :] = arr
        for p, v in params.items():
            X[name_to_qid[p], :] = v
        for which, equator in (("dynamic", model._invariant._plain_dynamic_equator), ("steady", model._invariant._plain_steady_equator)):
            for t in ts[:3]:
                with np.errstate(all="ignore"):
                    try:
                        want = np.array([
                            float(M.eval_equation(eq, data, params, t, which, twins if i < len(spec["teqs"]) else None, ufs))
                            for i, eq in enumerate(eqs)
                        ])
                    except Exception as exc:
                        c.inconc(f"oracle:evaluation-failed:{type(exc).__name__}")
                        return
                if not np.all(np.isfinite(want)) or np.max(np.abs(want)) > 1e8:
                    c.inconc("oracle:nonfinite-or-huge-value")
                    continue
                try:
                    with np.errstate(all="ignore"):
                        got = np.array([float(np.ravel(v)[0]) for v in equator.eval(X, t)])
                except Exception as exc:
                    if channel == "reject-or-right":
                        c.event("from_string", "rejected-at-evaluation", key=None)
                        return
                    shk = {q["name"] for q in spec["tshocks"]}
                    if any(_classify_eq_mismatch(e_, shk) == "equation-value:transition-shock-with-time-shift" for e_ in spec["teqs"]):
                        vio("equation-value:transition-shock-with-time-shift", f"{which} equator raised {type(exc).__name__}: {exc} (an equation holds a transition shock with a time shift)")
                        return
                    if isinstance(exc, ValueError) and "Integers to negative integer powers" in str(exc):
                        # numpy's rule for integer scalars: a function of integer literals (minimum(3,3), abs(-2), ...) returns a numpy
                        # integer, which cannot be raised to a negative integer power (a Python int or any float can)
                        vio("equation-eval:function-of-integer-literals-to-negative-integer-power", f"{which} equator raised {type(exc).__name__}: {exc}")
                        return
                    vio(f"equation-eval:raised:{type(exc).__name__}", f"{which} equator raised {type(exc).__name__}: {exc}")
                    return
                scale = 1.0 + np.abs(want)
                bad = np.abs(got - want) > 1e-9 * scale * 10
                if not bad.any():
                    continue
                # tolerate a different equation order within kind (not promised), report as note
                if _same_multiset(got, want):
                    c.note("equations:order-differs-from-source")
                    continue
                i = int(np.flatnonzero(bad)[0])
                eq = eqs[i]
                k = _classify_eq_mismatch(eq, {q["name"] for q in spec["tshocks"]} if i < len(spec["teqs"]) else ())
                if channel == "reject-or-right":
                    k = "deep-pseudofunction:silently-wrong:" + k.split(":", 1)[1]
                vio(k, f"{which} equation #{i} evaluates to {got[i]!r}, the equation as written gives {want[i]!r}",
                    detail={"equation_index": i, "which": which, "t": t, "irispie_human": _human(model, i, which)})
                return


def _same_multiset(a, b):
    a, b = np.sort(a), np.sort(b)
    return bool(np.all(np.abs(a - b) <= 1e-8 * (1 + np.abs(b))))


def _human(model, i, which):
    try:
        eqs = model.get_dynamic_equations() if which == "dynamic" else model.get_steady_equations()
        return eqs[i]
    except Exception:
        return None


# ------------------------------------------------------------------------------
# workload
# ------------------------------------------------------------------------------


def make_case(rng, level, channel="holds", size="small"):
    if channel == "holds":
        spec = M.random_general_spec(rng, size=size, pseudo=True, user_funcs=bool(rng.random() < 0.2))
    else:
        spec = M.random_general_spec(rng, size=size, pseudo=True, families=False)
        _deepen_pseudo(rng, spec)
    r = M.render_source(spec, rng, level)
    return {"kind": "model", "channel": channel, "level": level, "spec": spec, "source": r["source"], "context": r["context"],
            "features": r["features"]}


def _deepen_pseudo(rng, spec):
    """wrap something deeper than one parenthesis level / nest pseudofunctions (reject-or-right channel)"""
    names = [q["name"] for q in spec["tvars"]]
    a = E.var(names[0], 0)
    b = E.var(names[-1], -1)
    deep = [
        E.pseudo("diff", E.call("log", E.bin_("*", a, E.call("exp", E.bin_("-", b, E.num(1.0))))), None),
        E.pseudo("diff", E.pseudo("diff", a, -1), -1),
        E.pseudo("mov_avg", E.bin_("*", E.bin_("+", a, b), E.call("sqrt", E.bin_("+", a, E.num(1.0)))), -2),
        E.pseudo("roc", E.pseudo("shift", a, -2), -1),
        E.pseudo("pct", E.call("maximum", a, b), None),   # comma inside the argument
        E.pseudo("diff_log", E.bin_("^", E.bin_("+", a, b), E.bin_("-", b, E.num(0.5))), -1),
    ]
    node = deep[int(rng.integers(0, len(deep)))]
    eq = spec["teqs"][0]
    eq["rhs"] = E.bin_("+", eq["rhs"], node)


def run_case(c, case):
    import irispie as ir
    with c.running(case):
        ctx = M.context_for_irispie(case.get("context") or {})
        _EXPECT.case = case
        try:
            with rt.quiet():
                ir.Simultaneous.from_string(case["source"], context=ctx, **{k: v for k, v in case["spec"]["flags"].items()})
        except Exception as exc:
            _EXPECT.case = None
            if case.get("channel") == "reject-or-right":
                c.event("from_string", "rejected-at-parse", key=None)
            else:
                c.violation(f"from_string:raised:{type(exc).__name__}",
                            f"documented syntax rejected: {type(exc).__name__}: {str(exc)[:300]}")
        finally:
            _EXPECT.case = None


def replay(c, case):
    install()
    run_case(c, case)


def directed_cases():
    """deterministic cases hit on every run (one per known-finding mechanism and per basic feature)"""
    out = []
    base = {
        "tvars": [{"name": "y", "desc": "", "log": False}, {"name": "z", "desc": "", "log": False}],
        "mvars": [], "exog": [], "mshocks": [],
        "tshocks": [{"name": "e_y", "desc": ""}],
        "params": [{"name": "k", "desc": "", "value": 0.7}],
        "families": [], "flags": {"linear": False, "flat": True}, "user_funcs": {}, "meqs": [],
    }
    yz = E.bin_("+", E.var("y", 0), E.var("z", 0))
    variants = {
        "shift-times": E.bin_("*", E.par("k"), E.pseudo("shift", yz, -1)),
        "shift-divide": E.bin_("/", E.var("y", 0), E.pseudo("shift", E.bin_("-", E.var("z", 0), E.num(0.25)), -2)),
        "shift-minus": E.bin_("-", E.par("k"), E.pseudo("shift", yz, -1)),
        "shift-power": E.bin_("^", E.pseudo("shift", yz, -1), E.num(2.0)),
        "shift-plus": E.bin_("+", E.par("k"), E.pseudo("shift", yz, -1)),
        "diff-times": E.bin_("*", E.par("k"), E.pseudo("diff", yz, -1)),
        "movavg-divide": E.bin_("/", E.par("k"), E.pseudo("mov_avg", yz, -3)),
    }
    # known finding: a transition shock with a time shift, e_y[-1], becomes (e_y+ant_e_y)[-1] -- an index, not a shift
    variants["shock-with-lag"] = E.bin_("+", E.bin_("*", E.par("k"), E.var("y", -1)), E.bin_("*", E.num(0.5), E.var("e_y", -1)))
    # known finding: a function of integer literals raised to a negative integer power (numpy integer ** negative integer)
    variants["integer-function-to-negative-power"] = E.bin_("+", E.bin_("*", E.par("k"), E.var("y", -1)), E.bin_("^", E.call("maximum", E.num(2.0), E.num(3.0)), E.num(-1.0)))
    for name, rhs in variants.items():
        spec = json.loads(json.dumps(base))
        spec["teqs"] = [
            {"lhs": E.var("y", 0), "rhs": E.bin_("+", rhs, E.var("e_y", 0)), "steady": None, "desc": "", "eqsign": "="},
            {"lhs": E.var("z", 0), "rhs": E.bin_("*", E.par("k"), E.var("z", -1)), "steady": None, "desc": "", "eqsign": "="},
        ]
        r = M.render_source(spec, None, 0)
        out.append({"kind": "model", "channel": "holds", "level": 0, "directed": name, "spec": spec, "source": r["source"],
                    "context": r["context"], "features": ["directed:" + name]})
    return out


def shard(c):
    install()
    rng = c.rng
    if c.shard == 0:
        for case in directed_cases():
            run_case(c, case)
    n = c.scale(1800, 12000)
    for i in range(n):
        if c.out_of_time():
            break
        r = rng.random()
        level = 0 if r < 0.1 else (1 if r < 0.45 else 2)
        channel = "reject-or-right" if rng.random() < 0.1 else "holds"
        size = "small" if rng.random() < 0.7 else "large"
        try:
            case = make_case(rng, level, channel, size)
        except Exception as exc:
            c.inconc(f"generator:error:{type(exc).__name__}")
            continue
        run_case(c, case)
        if i < 2:
            c.sample({"source": case["source"], "context": case["context"], "features": case["features"], "channel": channel})
