"""
C02 -- Jacobians from algorithmic differentiation equal the true derivatives

Deciding monitors (postconditions on the real functions; the oracle is Richardson-extrapolated central
finite differences of the residual function, never irispie's differentiator):

  systemize       wrapper on Simultaneous.systemize(): for every variant, every equation and every data cell
                  (variable, t+s) the finite-difference derivative of the equation residual (w.r.t. the log of the
                  cell for log-variables) must equal the SUM of the entries of A and B (F, G; D, J for shocks) that
                  map to that cell; all other entries must vanish; dynamic-identity rows must be identities on
                  arbitrary paths; for linear models residual(X,t) == A xi_t + B xi_{t-1} + C + D u_t and
                  F y + G xi + H + J w on random paths X.
                  Residual function = the model's plain dynamic equator (C04 shows it equals the equation as
                  written); for generated models it is additionally cross-checked against the AST evaluator.
  steady_jacob    wrapper on steadiers.evaluators.SteadyEvaluator.eval / eval_jacob (flat and non-flat): FD of
                  eval_func w.r.t. the maybelog guess vs. the returned Jacobian.
  stacked_jacob   wrapper on stacked_time._evaluators.create_evaluator: FD of the returned eval_func w.r.t. the
                  maybelog guess vs. eval_jacob(...).toarray(), with and without terminator.

Channel "rejected-or-correct": an exception while differentiating (function not supported) is counted as
"rejected"; only a finite, wrong derivative is a violation.
Not decided: points closer than 1e-2 to kinks of maximum/minimum/abs; user functions are compared with rtol 1e-4.
"""

from __future__ import annotations

import json

import numpy as np

from .. import runtime as rt
from ..oracles import expr as E
from ..workloads import models as M

ID = "C02"
TIERS = {
    "quick": {"shards": 8, "budget_s": 45},
    "thorough": {"shards": 16, "budget_s": 480},
}
MIN_EVENTS = {"quick": 1000, "thorough": 1500}
DECIDING = {"systemize", "steady_jacob", "stacked_jacob"}
RULE = (
    "random models (expression trees of depth<=4 over + - * / ^ unary minus, numbers, parameters, variables at lags/leads, "
    "log exp sqrt logistic maximum minimum abs normal_cdf normal_pdf, user context functions; every log-status pattern; "
    "measurement blocks; shocks inside nonlinear functions) evaluated at random admissible points (random steady levels AND "
    "changes, so every time shift sees a different value), plus directed single-function models. distinct key = "
    "(monitor, functions/operators present, log pattern class, lag/lead pattern, flat?, terminator?); non-trivial = at least "
    "one nonlinear operator or function and one lag or lead."
)
ASSUMPTIONS = [
    "finite differences (Richardson, central, relative step 1e-3 -> error ~1e-9) of the residual function are the reference derivative",
    "column labels of A,B,D,F,G,J are read from the model's system vectors (tokens = (quantity, shift))",
    "the plain equator equals the equation as written (property C04); cross-checked against the AST at the evaluation point for generated models",
]
ANCHORS = [
    "irispie.aldi.differentiators:Atom.__mul__",
    "irispie.aldi.differentiators:Atom.__truediv__",
    "irispie.aldi.differentiators:Atom.__rtruediv__",
    "irispie.aldi.differentiators:Atom.__pow__",
    "irispie.aldi.differentiators:Atom._power",
    "irispie.aldi.differentiators:Atom._exponential",
    "irispie.aldi.differentiators:Atom.log",
    "irispie.aldi.differentiators:Atom.exp",
    "irispie.aldi.differentiators:Atom.sqrt",
    "irispie.aldi.differentiators:Atom.logistic",
    "irispie.aldi.differentiators:Atom.maximum",
    "irispie.aldi.differentiators:Context.eval_to_arrays",
    "irispie.aldi.differentiators:Context.eval_diff_to_array",
    "irispie.aldi.finite_differentiators:finite_differentiator",
    "irispie.fords.systems:System.__init__",
    "irispie.steadiers._jacobian:FlatSteadyJacobian.eval",
    "irispie.steadiers._jacobian:NonflatSteadyJacobian.eval",
    "irispie.stacked_time._jacobians:Jacobian.eval",
    "irispie.stacked_time._jacobians:Jacobian._populate_map",
    "irispie.fords.terminators:Terminator.terminate_jacobian",
]

_SPEC_REG = {}  # id(model._invariant) -> case  (models are kept alive by the case runner)
_MAX_FD_CALLS_PER_EVALUATOR = 3


def register(model, case):
    _SPEC_REG[id(model._invariant)] = case


# ------------------------------------------------------------------------------
# helpers
# ------------------------------------------------------------------------------


# the residual functions handed to _fd_matrix silence everything but underflow, which _fd_matrix probes for
_IGN = dict(divide="ignore", over="ignore", invalid="ignore")


def _fd_matrix(func, x0, rel=1e-3):
    """Richardson central FD Jacobian of vector function func at x0; returns (J, err)"""
    x0 = np.asarray(x0, dtype=float)
    f0 = np.asarray(func(x0), dtype=float).ravel()
    n = x0.size
    # an intermediate result that underflows at x0 (exp(-10006) == 0.0, then 0.0**(c-1) in the derivative) puts the point on the
    # edge of the floating-point range: the true derivative exists but neither algorithmic differentiation nor finite
    # differences can represent the computation there; nothing is decided at such a point
    try:
        with np.errstate(under="raise"):
            func(x0)
    except FloatingPointError:
        c_ = rt.ctx()
        if c_ is not None:
            c_.inconc("fd:evaluation-underflows(edge of the floating-point range)")
        return np.full((f0.size, n), np.nan), np.zeros((f0.size, n))
    except Exception:
        pass
    J = np.zeros((f0.size, n))
    Err = np.zeros((f0.size, n))
    n_kink = 0
    for j in range(n):
        h = rel * max(1.0, abs(x0[j]))
        def both(hh):
            xp = x0.copy(); xp[j] += hh
            xm = x0.copy(); xm[j] -= hh
            fp, fm = np.asarray(func(xp), dtype=float).ravel(), np.asarray(func(xm), dtype=float).ravel()
            return (fp - fm) / (2 * hh), (fp - 2 * f0 + fm) / hh      # central difference, forward minus backward difference
        (d1, _), (d2, k2), (d4, k4) = both(h), both(h / 2), both(h / 4)
        r1 = (4 * d2 - d1) / 3
        r2 = (4 * d4 - d2) / 3
        rr = (16 * r2 - r1) / 15
        J[:, j] = rr
        Err[:, j] = np.abs(rr - r2) + 1e-12 * (np.abs(rr) + np.abs(f0) / h)
        # kink (maximum/minimum/abs at a tie, e.g. maximum(x, x[-1]) on a flat path): the one-sided derivatives differ by an
        # amount that does NOT shrink with the step (for a smooth function it is h*f'' and halves). The property quantifies over
        # points away from kinks: such entries are left undecided
        with np.errstate(invalid="ignore"):
            kink = (np.abs(k4) > 0.75 * np.abs(k2)) & (np.abs(k4) > 1e-5 * (1 + np.abs(rr)))
        if kink.any():
            J[kink, j] = np.nan
            n_kink += int(kink.sum())
    if n_kink:
        c_ = rt.ctx()
        if c_ is not None:
            c_.inconc("fd:entry-at-a-kink", n_kink)
    # a residual that is undefined on one side of x0 in some direction sits on the boundary of its domain (0**0.3,
    # log at 0, ...): the property quantifies over interior points only, so the whole row is left undecided
    edge = ~np.all(np.isfinite(J), axis=1)
    if edge.any():
        J[edge, :] = np.nan
        c = rt.ctx()
        if c is not None:
            c.inconc("fd:row-on-domain-boundary", int(edge.sum()))
    return J, Err


def _compare(c, got, want, err, rtol, key, msg, case, detail=None, monitor="", op=""):
    """compare matrices; returns True if a violation was recorded"""
    got = np.asarray(got, dtype=float)
    want = np.asarray(want, dtype=float)
    if got.shape != want.shape:
        c.violation(key + ":shape", f"{msg}: shape {got.shape} vs reference {want.shape}", case=case, detail=detail)
        return True
    ok_ref = np.isfinite(want) & np.isfinite(err)
    tol = rtol * (1 + np.abs(want)) + 50 * err
    ill = ok_ref & (err > 1e-5 * (1 + np.abs(want)))
    if ill.any():
        c.inconc(f"{monitor}:fd-error-estimate-too-large", int(ill.sum()))
    with np.errstate(invalid="ignore"):
        huge = ok_ref & ((np.abs(want) > 1e8) | (np.abs(got) > 1e8))   # next to a pole (v[1]/v[-2] with v[-2] ~ 0) nothing is decided
    if huge.any():
        c.inconc(f"{monitor}:reference-derivative-huge", int(huge.sum()))
    cmp = ok_ref & ~ill & ~huge
    if not cmp.any():
        c.inconc(f"{monitor}:no-comparable-entry")
        return False
    with np.errstate(invalid="ignore"):
        bad = cmp & ~(np.abs(got - want) <= tol)
    if bad.any():
        i, j = map(int, np.argwhere(bad)[0])
        d = dict(detail or {})
        d.update({"row": i, "col": j, "got": float(got[i, j]) if np.isfinite(got[i, j]) else repr(got[i, j]), "reference": float(want[i, j]),
                  "n_bad": int(bad.sum()), "n_compared": int(cmp.sum())})
        c.violation(key, f"{msg}: entry ({i},{j}) is {got[i, j]!r}, finite differences give {want[i, j]!r} ({int(bad.sum())} of {int(cmp.sum())} entries differ)",
                    case=case, detail=d)
        return True
    return False


def _features_of_model(model):
    """structural fingerprint from the equation strings (for distinct keys and mechanism classification)"""
    try:
        text = " ".join(model.get_dynamic_equations())
    except Exception:
        return ()
    feats = []
    for f in ("log(", "exp(", "sqrt(", "logistic(", "maximum(", "minimum(", "abs(", "normal_cdf(", "normal_pdf(", "ufun1(", "ufun2(", "^", "/", "*"):
        if f in text:
            feats.append(f.rstrip("("))
    return tuple(feats)


def _classify(feats, base):
    """mechanism key: names the most specific function involved (used for known findings)"""
    for f in ("sqrt", "maximum", "minimum", "abs", "normal_cdf", "normal_pdf", "logistic", "ufun1", "ufun2"):
        if f in feats:
            return f"{base}:with-{f}"
    return base


# ------------------------------------------------------------------------------
# monitor 1: systemize
# ------------------------------------------------------------------------------


def _build_point(model, vid, linear, rng=None):
    """Evaluation array X (quantities x columns) reconstructed from the public steady levels/changes:
    level + change*s (level * change**s for log-variables); zeros/ones for linear models."""
    name_to_qid = model.create_name_to_qid()
    logly = model.get_log_status()
    inv = model._invariant
    min_s, max_s = inv._min_shift, inv._max_shift
    ncols = -min_s + 1 + max_s + 1  # one extra column to the left for xi_{t-1}
    first_shift = min_s - 1
    nq = max(name_to_qid.values()) + 1
    X = np.full((nq, ncols), np.nan)
    var = model._variants[vid]
    shifts = np.arange(first_shift, first_shift + ncols, dtype=float)
    for name, qid in name_to_qid.items():
        lvl = var.levels.get(qid)
        chg = var.changes.get(qid)
        lvl = np.nan if lvl is None else float(lvl)
        is_log = logly.get(name)
        if linear and is_log is not None:
            X[qid, :] = 1.0 if is_log else 0.0
            continue
        if is_log:
            chg = 1.0 if (chg is None or not np.isfinite(chg)) else float(chg)
            X[qid, :] = lvl * chg ** shifts
        else:
            chg = 0.0 if (chg is None or not np.isfinite(chg)) else float(chg)
            X[qid, :] = lvl + chg * shifts
    return X, -first_shift  # column index of shift 0


def _check_system(c, model, system, vid, linear, case):
    inv = model._invariant
    sv = inv.dynamic_descriptor.system_vectors
    equator = inv._plain_dynamic_equator
    logly_by_qid = model.create_qid_to_logly()
    X, col0 = _build_point(model, vid, linear)
    kind_of = model.create_qid_to_kind()
    import irispie as ir
    # shocks: steady value 0 (NaN levels in the variant)
    for qid, kind in kind_of.items():
        if kind in (ir.TRANSITION_SHOCK | ir.MEASUREMENT_SHOCK | ir.ANTICIPATED_SHOCK_VALUE):
            X[qid, :] = 0.0
    n_t = len(sv.transition_eids)
    n_m = len(sv.measurement_eids)
    feats = _features_of_model(model)

    def resid(Xa):
        with np.errstate(**_IGN):
            out = equator.eval(Xa, col0)
        return np.array([float(np.ravel(v)[0]) for v in out], dtype=float)

    try:
        f0 = resid(X)
    except Exception as exc:
        c.inconc(f"systemize:residual-function-raised:{type(exc).__name__}")
        return
    if not np.all(np.isfinite(f0)) or np.max(np.abs(f0)) > 1e8:
        c.inconc("systemize:evaluation-point-outside-domain")
        return

    # cross-check equator vs AST for generated models
    if case is not None and case.get("spec") is not None:
        try:
            spec = case["spec"]
            n2q = model.create_name_to_qid()
            data = {n: X[q, :] for n, q in n2q.items()}
            params = {p["name"]: float(X[n2q[p["name"]], col0]) for p in spec["params"]}
            twins = {q["name"]: "ant_" + q["name"] for q in spec["tshocks"]}
            ufs = M.user_funcs_of(spec)
            with np.errstate(all="ignore"):
                want = np.array([float(M.eval_equation(eq, data, params, col0, "dynamic", twins if i < len(spec["teqs"]) else None, ufs))
                                 for i, eq in enumerate(spec["teqs"] + spec["meqs"])])
            if np.all(np.isfinite(want)) and not np.allclose(f0, want, rtol=1e-9, atol=1e-9):
                c.violation("systemize:equator-differs-from-ast", f"plain equator {f0} vs AST {want}", case=case)
                return
        except Exception as exc:
            c.inconc(f"systemize:ast-crosscheck-error:{type(exc).__name__}")

    xi = list(sv.transition_variables)
    idx = {(t.qid, t.shift): j for j, t in enumerate(xi)}
    A, B, D = np.asarray(system.A), np.asarray(system.B), np.asarray(system.D)
    F, G, J = np.asarray(system.F), np.asarray(system.G), np.asarray(system.J)

    # ---- cells of transition variables
    qids = sorted({t.qid for t in xi})
    cells = []
    for q in qids:
        shifts = [t.shift for t in xi if t.qid == q]
        for s in range(min(shifts) - 1, max(shifts) + 1):
            cells.append((q, s))
    x0 = np.array([X[q, col0 + s] for q, s in cells])
    mlog = np.array([bool(logly_by_qid.get(q)) for q, _ in cells])
    z0 = np.where(mlog, np.log(np.where(mlog, x0, 1.0)), x0)

    def f_of_cells(z):
        Xa = X.copy()
        vals = np.where(mlog, np.exp(np.where(mlog, z, 0.0)), z)
        for (q, s), v in zip(cells, vals):
            Xa[q, col0 + s] = v
        return resid(Xa)

    Jfd, Err = _fd_matrix(f_of_cells, z0)
    got_t = np.zeros((n_t, len(cells)))
    got_m = np.zeros((n_m, len(cells)))
    for k, (q, s) in enumerate(cells):
        if (q, s) in idx:
            got_t[:, k] += A[:n_t, idx[(q, s)]]
            got_m[:, k] += G[:, idx[(q, s)]]
        if (q, s + 1) in idx:
            got_t[:, k] += B[:n_t, idx[(q, s + 1)]]
    nlog = int(sum(bool(logly_by_qid.get(q)) for q in qids))
    lagslead = (min(s for _, s in cells), max(s for _, s in cells))
    key = ("systemize", feats, f"log{min(nlog, 2)}of{min(len(qids), 3)}", lagslead, "linear" if linear else "nonlinear", n_m > 0)
    nontrivial = (linear or any(f in feats for f in ("log", "exp", "sqrt", "logistic", "maximum", "^", "/"))) and (lagslead[0] < -1 or lagslead[1] > 0)
    c.event("systemize", "linear" if linear else "nonlinear", key=key, nontrivial=nontrivial)
    rtol = 1e-4 if any(f.startswith("ufun") for f in feats) else 1e-6
    detail = {"cells": [(int(q), int(s)) for q, s in cells], "variant": vid}
    if _compare(c, got_t, Jfd[:n_t, :], Err[:n_t, :], rtol, _classify(feats, "systemize:A+B-differs-from-derivative"),
                "transition equations, d residual / d cell vs A+B", case, detail, "systemize"):
        return
    if n_m and _compare(c, got_m, Jfd[n_t:, :], Err[n_t:, :], rtol, _classify(feats, "systemize:G-differs-from-derivative"),
                        "measurement equations, d residual / d transition cell vs G", case, detail, "systemize"):
        return
    # measurement variables (F)
    if n_m:
        mv = list(sv.measurement_variables)
        mlogm = np.array([bool(logly_by_qid.get(t.qid)) for t in mv])
        y0 = np.array([X[t.qid, col0 + t.shift] for t in mv])
        zy0 = np.where(mlogm, np.log(np.where(mlogm, y0, 1.0)), y0)
        def f_of_y(z):
            Xa = X.copy()
            vals = np.where(mlogm, np.exp(np.where(mlogm, z, 0.0)), z)
            for t, v in zip(mv, vals):
                Xa[t.qid, col0 + t.shift] = v
            return resid(Xa)[n_t:]
        Ffd, Ferr = _fd_matrix(f_of_y, zy0)
        if _compare(c, F, Ffd, Ferr, rtol, _classify(feats, "systemize:F-differs-from-derivative"), "d measurement residual / d measurement variable vs F", case, detail, "systemize"):
            return
    # shocks (D, J): derivative w.r.t. the unanticipated shock at value 0
    ts = list(sv.transition_shocks)
    if ts:
        def f_of_u(z):
            Xa = X.copy()
            for t, v in zip(ts, z):
                Xa[t.qid, col0 + t.shift] = v
            return resid(Xa)[:n_t]
        Dfd, Derr = _fd_matrix(f_of_u, np.zeros(len(ts)), rel=1e-3)
        if _compare(c, D[:n_t, :], Dfd, Derr, rtol, _classify(feats, "systemize:D-differs-from-derivative"), "d transition residual / d shock vs D", case, detail, "systemize"):
            return
    ms = list(sv.measurement_shocks)
    if ms and n_m:
        def f_of_w(z):
            Xa = X.copy()
            for t, v in zip(ms, z):
                Xa[t.qid, col0 + t.shift] = v
            return resid(Xa)[n_t:]
        Jfd2, Jerr = _fd_matrix(f_of_w, np.zeros(len(ms)), rel=1e-3)
        if _compare(c, J, Jfd2, Jerr, rtol, _classify(feats, "systemize:J-differs-from-derivative"), "d measurement residual / d measurement shock vs J", case, detail, "systemize"):
            return
    # ---- dynamic identities are identities on arbitrary paths
    rng = np.random.default_rng(12345)
    Xr = rng.normal(size=X.shape)
    xi_t = np.array([Xr[t.qid, col0 + t.shift] for t in xi])
    xi_l = np.array([Xr[t.qid, col0 + t.shift - 1] for t in xi])
    dyn = A[n_t:, :] @ xi_t + B[n_t:, :] @ xi_l
    if dyn.size and np.max(np.abs(dyn)) > 1e-12:
        c.violation("systemize:dynamic-identity-rows-not-identities", f"A_dyn xi_t + B_dyn xi_(t-1) = {dyn} on a random path", case=case)
        return
    if np.any(D[n_t:, :] != 0) or (np.asarray(system.C)[n_t:] != 0).any():
        c.violation("systemize:dynamic-identity-rows-have-constant-or-shock", "C or D non-zero in identity rows", case=case)
        return
    # every xi token at shift < max must be tied to its neighbour: rank check (each non-leading token appears in B-identities)
    # ---- linear models: full identity on random paths
    if linear:
        Xl = X.copy()
        for q in qids:
            Xl[q, :] = rng.normal(size=X.shape[1]) if not logly_by_qid.get(q) else np.exp(0.1 * rng.normal(size=X.shape[1]))
        if n_m:
            for t in sv.measurement_variables:
                Xl[t.qid, :] = rng.normal(size=X.shape[1]) if not logly_by_qid.get(t.qid) else np.exp(0.1 * rng.normal(size=X.shape[1]))
        u = rng.normal(size=len(ts))
        for t, v in zip(ts, u):
            Xl[t.qid, col0] = v
        w = rng.normal(size=len(ms))
        for t, v in zip(ms, w):
            Xl[t.qid, col0] = v
        def vec(tokens, lag=0):
            out = np.array([Xl[t.qid, col0 + t.shift - lag] for t in tokens])
            lg = np.array([bool(logly_by_qid.get(t.qid)) for t in tokens], dtype=bool)
            if lg.any():
                out[lg] = np.log(out[lg])
            return out
        fl = resid(Xl)
        if not lg_any(logly_by_qid, qids, sv):
            lin_t = A[:n_t] @ vec(xi) + B[:n_t] @ vec(xi, 1) + np.asarray(system.C)[:n_t] + (D[:n_t] @ u if len(ts) else 0)
            if np.max(np.abs(lin_t - fl[:n_t])) > 1e-9 * (1 + np.max(np.abs(fl))):
                c.violation("systemize:linear-identity-transition", f"residual {fl[:n_t]} vs A xi + B xi(-1) + C + D u = {lin_t}", case=case)
                return
            if n_m:
                lin_m = F @ vec(sv.measurement_variables) + G @ vec(xi) + np.asarray(system.H) + (J @ w if len(ms) else 0)
                if np.max(np.abs(lin_m - fl[n_t:])) > 1e-9 * (1 + np.max(np.abs(fl))):
                    c.violation("systemize:linear-identity-measurement", f"residual {fl[n_t:]} vs F y + G xi + H + J w = {lin_m}", case=case)
                    return
            c.event("systemize", "linear-full-identity", key=None)


def lg_any(logly_by_qid, qids, sv):
    return any(logly_by_qid.get(q) for q in qids) or any(logly_by_qid.get(t.qid) for t in sv.measurement_variables)


def install():
    import irispie

    def make_systemize(orig):
        def systemize(self, *args, **kwargs):
            result = orig(self, *args, **kwargs)
            c = rt.ctx()
            if c is None:
                return result
            try:
                systems = result if isinstance(result, (list, tuple)) else [result]
                linear = bool(self.resolve_flags(**{k: v for k, v in kwargs.items() if k in ("linear", "flat", "deterministic")}).is_linear)
                case = _SPEC_REG.get(id(self._invariant))
                for vid, system in enumerate(systems):
                    _check_system(c, self, system, vid, linear, case)
            except Exception as exc:
                c.inconc(f"systemize:monitor-error:{type(exc).__name__}")
                c.extra["last_monitor_error"] = repr(exc)[:300]
            return result
        return systemize
    rt.wrap_attr(irispie.Simultaneous, "systemize", make_systemize)

    # ---- monitor 2: steady evaluators
    try:
        from irispie.steadiers import evaluators as sev
    except Exception:
        sev = None
        if rt.ctx():
            rt.ctx().note("anchor_missing:steadiers.evaluators")
    if sev is not None:
        counts = {}

        def steady_check(self, guess, jac, flavour):
            c = rt.ctx()
            if c is None:
                return
            n = counts.get(id(self), 0)
            if n >= _MAX_FD_CALLS_PER_EVALUATOR:
                return
            counts[id(self)] = n + 1
            try:
                guess = np.array(guess, dtype=float)
                def f(z):
                    with np.errstate(**_IGN):
                        return np.asarray(self.eval_func(z), dtype=float).ravel()
                f0 = f(guess)
                if not np.all(np.isfinite(f0)) or np.max(np.abs(f0)) > 1e8:
                    c.inconc("steady_jacob:point-outside-domain")
                    return
                Jfd, Err = _fd_matrix(f, guess)
                self._update_steady_array(guess)
                nonflat = type(self).__name__.startswith("Nonflat")
                eqs = getattr(self._equator, "humans", ()) or ()
                text = " ".join(eqs)
                feats = tuple(f_ for f_ in ("log", "exp", "sqrt", "logistic", "maximum", "minimum", "abs", "^", "/") if (f_ + "(" in text or (f_ in "^/" and f_ in text)))
                growth = False
                if nonflat:
                    ch = self._get_maybelog_changes(guess)
                    growth = bool(np.any(np.abs(ch) > 1e-8))
                key = ("steady_jacob", "nonflat" if nonflat else "flat", feats, growth, min(len(guess), 6))
                c.event("steady_jacob", ("nonflat" if nonflat else "flat") + ("+growth" if growth else ""), key=key,
                        nontrivial=bool(feats))
                case = c.case
                base = "steady_jacob:nonflat" if nonflat else "steady_jacob:flat"
                if nonflat and growth:
                    # classify: are the time-0 rows right and only the time-k rows wrong?
                    ne = len(f0) // 2
                    jac = np.asarray(jac, dtype=float)
                    top_ok = _quiet_equal(jac[:ne], Jfd[:ne], Err[:ne])
                    bot_ok = _quiet_equal(jac[ne:], Jfd[ne:], Err[ne:])
                    if top_ok and not bot_ok:
                        base = "steady_jacob:nonflat:time-k-rows-differ-with-growth"
                _compare(c, jac, Jfd, Err, 1e-6, _classify(feats, base) if "time-k" not in base else base,
                         f"{type(self).__name__}.eval_jacob vs FD of eval_func", case,
                         {"guess": guess.tolist(), "equations": list(eqs)[:8]}, "steady_jacob")
            except Exception as exc:
                c.inconc(f"steady_jacob:monitor-error:{type(exc).__name__}")
                c.extra["last_monitor_error"] = repr(exc)[:300]

        def make_eval(orig):
            def eval(self, maybelog_guess, *a, **k):
                out = orig(self, maybelog_guess, *a, **k)
                try:
                    steady_check(self, maybelog_guess, out[1], "eval")
                except Exception:
                    pass
                return out
            return eval

        def make_eval_jacob(orig):
            def eval_jacob(self, maybelog_guess, *a, **k):
                out = orig(self, maybelog_guess, *a, **k)
                try:
                    steady_check(self, maybelog_guess, out, "eval_jacob")
                except Exception:
                    pass
                return out
            return eval_jacob
        rt.wrap_attr(sev.SteadyEvaluator, "eval", make_eval)
        rt.wrap_attr(sev.SteadyEvaluator, "eval_jacob", make_eval_jacob)

    # ---- monitor 3: stacked-time evaluator
    try:
        from irispie.stacked_time import _evaluators as stev
    except Exception:
        stev = None
        if rt.ctx():
            rt.ctx().note("anchor_missing:stacked_time._evaluators")
    if stev is not None:
        def make_create(orig):
            def create_evaluator(*args, **kwargs):
                ev = orig(*args, **kwargs)
                try:
                    terminator = kwargs.get("terminator", args[4] if len(args) > 4 else None)
                    equations = kwargs.get("wrt_equations", args[2] if len(args) > 2 else ())
                    return _wrap_stacked(ev, terminator is not None, tuple(e.human for e in equations))
                except Exception:
                    return ev
            return create_evaluator
        rt.wrap_attr(stev, "create_evaluator", make_create)


def _quiet_equal(got, want, err):
    tol = 1e-6 * (1 + np.abs(want)) + 50 * err
    with np.errstate(invalid="ignore"):
        return bool(np.all(np.abs(got - want) <= tol))


_LAST_EV = {}


def _wrap_stacked(ev, has_terminator, humans):
    import dataclasses
    state = {"n": 0, "last": None}
    orig_jacob = ev.eval_jacob
    orig_fj = ev.eval_func_jacob
    orig_f = ev.eval_func

    def check(guess, data_array, jac):
        c = rt.ctx()
        if c is None or state["n"] >= _MAX_FD_CALLS_PER_EVALUATOR:
            return
        state["n"] += 1
        try:
            base = np.array(data_array, dtype=float, copy=True)
            g0 = np.array(guess if guess is not None else ev.get_init_guess(base), dtype=float)
            if g0.size > 400:
                c.inconc("stacked_jacob:too-large-for-dense-fd")
                return
            def f(z):
                arr = base.copy()
                with np.errstate(**_IGN):
                    return np.asarray(orig_f(z, arr), dtype=float).ravel()
            f0 = f(g0)
            if not np.all(np.isfinite(f0)) or np.max(np.abs(f0)) > 1e8:
                c.inconc("stacked_jacob:point-outside-domain")
                return
            if np.max(np.abs(g0)) > 1e6:
                # a diverging Newton iterate (values of 1e14 were seen under a badly conditioned plan): residuals that are
                # differences of such numbers have an ulp larger than the effect of any finite-difference step on the other
                # unknowns, so the finite differences are exactly zero there; nothing can be decided at such a point
                c.inconc("stacked_jacob:point-magnitude-beyond-fd-resolution")
                return
            text = " ".join(humans)
            feats = tuple(f_ for f_ in ("log", "exp", "sqrt", "logistic", "maximum", "minimum", "abs", "^", "/") if (f_ + "(" in text or (f_ in "^/" and f_ in text)))
            J_ = jac.toarray() if hasattr(jac, "toarray") else np.asarray(jac)
            if set(feats) & {"^", "/", "log", "sqrt"} and not np.all(np.isfinite(J_)):
                # x**a, 1/x, log and sqrt have the edge of their domain at 0: a point (including the terminal condition the
                # terminator writes) with an endogenous value exactly there is not an interior point; when irispie's Jacobian
                # is not finite at such a point the case is left undecided (an infinite one-sided derivative, not a wrong one)
                a0, a1 = base.copy(), base.copy()
                with np.errstate(all="ignore"):
                    orig_f(g0, a0); orig_f(g0 + 0.12345, a1)
                rows = np.any(a0 != a1, axis=1)
                if np.any(a0[rows, :] == 0):
                    c.inconc("stacked_jacob:point-on-domain-boundary")
                    return
            Jfd, Err = _fd_matrix(f, g0)
            J = jac.toarray() if hasattr(jac, "toarray") else np.asarray(jac)
            nper = len(f0) // max(1, len(humans))
            key = ("stacked_jacob", feats, has_terminator, min(nper, 8), min(len(humans), 5))
            c.event("stacked_jacob", "terminator" if has_terminator else "no-terminator", key=key, nontrivial=bool(feats) and nper >= 2)
            _compare(c, J, Jfd, Err, 1e-6, _classify(feats, "stacked_jacob:differs" + (":with-terminator" if has_terminator else "")),
                     "stacked-time Jacobian vs FD of eval_func", c.case, {"equations": list(humans)[:8], "n_unknowns": int(g0.size)}, "stacked_jacob")
        except Exception as exc:
            c.inconc(f"stacked_jacob:monitor-error:{type(exc).__name__}")
            c.extra["last_monitor_error"] = repr(exc)[:300]

    def eval_jacob(guess, data_array):
        if guess is not None:
            state["last"] = (np.array(guess, dtype=float, copy=True), np.array(data_array, dtype=float, copy=True))
        out = orig_jacob(guess, data_array)
        check(guess, data_array, out)
        return out

    def eval_func_jacob(guess, data_array):
        if guess is not None:
            state["last"] = (np.array(guess, dtype=float, copy=True), np.array(data_array, dtype=float, copy=True))
        out = orig_fj(guess, data_array)
        check(guess, data_array, out[1])
        return out

    _LAST_EV.clear()
    _LAST_EV.update(state=state, eval_jacob=eval_jacob, has_terminator=has_terminator)
    try:
        return dataclasses.replace(ev, eval_jacob=eval_jacob, eval_func_jacob=eval_func_jacob)
    except Exception:
        try:
            ev.eval_jacob = eval_jacob
            ev.eval_func_jacob = eval_func_jacob
        except Exception:
            pass
        return ev


# ------------------------------------------------------------------------------
# workload
# ------------------------------------------------------------------------------

_DIFFERENTIABLE = ["log", "exp", "sqrt", "logistic", "maximum"]


def make_case(rng, kind):
    if kind == "general":
        funcs = _DIFFERENTIABLE if rng.random() < 0.7 else None
        spec = M.random_general_spec(rng, size="small" if rng.random() < 0.6 else "large", pseudo=bool(rng.random() < 0.4), funcs=funcs,
                                     user_funcs=bool(rng.random() < 0.15), with_steady_versions=False, depth=int(rng.integers(1, 5)))
    elif kind == "linear":
        spec = random_linear_spec(rng)
    else:
        raise ValueError(kind)
    # evaluation point: random levels and changes
    point = {}
    for grp in ("tvars", "mvars", "exog"):
        for q in spec[grp]:
            lvl = float(np.round(rng.uniform(0.6, 1.8), 4))
            if q.get("log"):
                chg = float(np.round(rng.uniform(0.97, 1.04), 4))
            else:
                chg = float(np.round(rng.uniform(-0.03, 0.03), 4))
            if rng.random() < 0.2:
                chg = 1.0 if q.get("log") else 0.0
            point[q["name"]] = [lvl, chg]
    r = M.render_source(spec, rng, 1 if rng.random() < 0.5 else 0)
    return {"kind": kind, "spec": spec, "source": r["source"], "context": r["context"], "point": point}


def random_linear_spec(rng):
    n = int(rng.integers(1, 5))
    names = [f"x{i}" for i in range(n)]
    shocks = [f"e{i}" for i in range(n)]
    spec = {
        "tvars": [{"name": nm, "desc": "", "log": False} for nm in names],
        "mvars": [], "exog": [], "mshocks": [], "families": [], "user_funcs": {},
        "tshocks": [{"name": s, "desc": ""} for s in shocks],
        "params": [{"name": "rho", "desc": "", "value": 0.6}, {"name": "kk", "desc": "", "value": 0.25}],
        "teqs": [], "meqs": [], "flags": {"linear": True, "flat": True},
    }
    for i, nm in enumerate(names):
        terms = [E.bin_("*", E.par("rho"), E.var(nm, -int(rng.integers(1, 4))))]
        for _ in range(int(rng.integers(0, 4))):
            j = int(rng.integers(0, n))
            s = int(rng.integers(-3, 4))
            coef = E.num(float(np.round(rng.uniform(-0.9, 0.9), 2)))
            if rng.random() < 0.3:
                coef = E.bin_("*", coef, E.par("kk"))
            terms.append(E.bin_("*", coef, E.var(names[j], s)))
        terms.append(E.num(float(np.round(rng.uniform(-1, 1), 2))))
        terms.append(E.bin_("*", E.num(float(np.round(rng.uniform(0.5, 2), 2))), E.var(shocks[i], 0)))
        lhs = E.var(nm, 0) if rng.random() < 0.7 else E.bin_("*", E.num(2.0), E.var(nm, 0))
        spec["teqs"].append({"lhs": lhs, "rhs": E.add_all(terms), "steady": None, "desc": "", "eqsign": "="})
    if rng.random() < 0.6:
        k = int(rng.integers(1, 3))
        for j in range(k):
            spec["mvars"].append({"name": f"ob{j}", "desc": "", "log": False})
            spec["mshocks"].append({"name": f"w{j}", "desc": ""})
            i = int(rng.integers(0, n))
            rhs = E.add_all([E.bin_("*", E.num(float(np.round(rng.uniform(0.5, 1.5), 2))), E.var(names[i], -int(rng.integers(0, 3)))),
                             E.num(float(np.round(rng.uniform(-1, 1), 2))), E.var(f"w{j}", 0)])
            spec["meqs"].append({"lhs": E.var(f"ob{j}", 0), "rhs": rhs, "steady": None, "desc": "", "eqsign": "="})
    return spec


def directed_cases():
    """single-function models hit on every run: one per operator / function / argument pattern"""
    out = []
    x, y, ylag, a = E.var("x", 0), E.var("y", 0), E.var("y", -1), E.par("a")
    bodies = {
        "sqrt": E.call("sqrt", E.bin_("*", x, ylag)),
        "sqrt-of-sum": E.call("sqrt", E.bin_("+", x, E.bin_("*", a, E.var("y", 1)))),
        "maximum-var-floor-binding": E.call("maximum", E.bin_("*", E.num(0.2), x), ylag),
        "maximum-var-floor-slack": E.call("maximum", E.bin_("*", E.num(5.0), x), ylag),
        "maximum-number-floor": E.call("maximum", x, E.num(0.3)),
        "maximum-number-first": E.call("maximum", E.num(0.3), x),
        "minimum": E.call("minimum", x, E.bin_("*", E.num(3.0), ylag)),
        "abs": E.call("abs", E.bin_("-", x, E.bin_("*", E.num(3.0), ylag))),
        "normal_cdf": E.call("normal_cdf", E.bin_("-", x, ylag)),
        "normal_pdf": E.call("normal_pdf", E.bin_("-", x, ylag)),
        "logistic": E.call("logistic", E.bin_("-", x, ylag)),
        "pow-var-var": E.bin_("^", x, ylag),
        "pow-num-var": E.bin_("^", E.num(2.0), ylag),
        "pow-par-var": E.bin_("^", a, ylag),
        "pow-var-neg": E.bin_("^", x, E.num(-1.5)),
        "div-num-var": E.bin_("/", E.num(2.0), ylag),
        "sub-num-var": E.bin_("-", E.num(2.0), E.bin_("*", x, ylag)),
        "neg": E.neg(E.bin_("*", x, E.var("y", 2))),
        "exp-log": E.call("exp", E.bin_("*", a, E.call("log", E.bin_("*", x, ylag)))),
        "shock-in-exp": E.bin_("*", x, E.call("exp", E.var("ex", 0))),
    }
    for lognm, logs in (("nolog", (False, False)), ("logx", (True, False)), ("logboth", (True, True))):
        for name, body in bodies.items():
            spec = {
                "tvars": [{"name": "x", "desc": "", "log": logs[0]}, {"name": "y", "desc": "", "log": logs[1]}],
                "mvars": [], "exog": [], "mshocks": [], "families": [], "user_funcs": {},
                "tshocks": [{"name": "ex", "desc": ""}],
                "params": [{"name": "a", "desc": "", "value": 0.7}],
                "teqs": [
                    {"lhs": E.var("x", 0), "rhs": E.bin_("+", body, E.var("ex", 0)) if name != "shock-in-exp" else body, "steady": None, "desc": "", "eqsign": "="},
                    {"lhs": E.var("y", 0), "rhs": E.bin_("+", E.bin_("*", a, ylag), E.num(0.3)), "steady": None, "desc": "", "eqsign": "="},
                ],
                "meqs": [], "flags": {"linear": False, "flat": False},
            }
            r = M.render_source(spec, None, 0)
            out.append({"kind": "directed", "directed": f"{name}/{lognm}", "spec": spec, "source": r["source"], "context": {},
                        "point": {"x": [1.3, 1.02 if logs[0] else 0.02], "y": [0.9, 1.03 if logs[1] else -0.01]}})
    return out


def run_case(c, case):
    import irispie as ir
    with c.running(case):
        spec = case["spec"]
        ctx = M.context_for_irispie(case.get("context") or {})
        try:
            with rt.quiet():
                m = ir.Simultaneous.from_string(case["source"], context=ctx, **spec["flags"])
        except Exception as exc:
            c.inconc(f"parse-failed:{type(exc).__name__}")
            return
        register(m, case)
        assign = {p["name"]: p["value"] for p in spec["params"]}
        for n, (lvl, chg) in case["point"].items():
            assign[n] = (lvl, chg)
        m.assign(**assign)
        if spec["params"] and len(case["source"]) % 3 == 0:
            # a second parameter variant with other parameter values: systemize() returns one system per variant, each the
            # derivative at ITS variant's values (the monitor reads the point from the variant it is given)
            try:
                m.alter_num_variants(2)
                m[1].assign(**{p["name"]: float(p["value"]) * 0.8 + 0.03 for p in spec["params"]})
                c.note("systemize:two-parameter-variants")
            except Exception as exc:
                c.note(f"systemize:second-variant-not-built:{type(exc).__name__}")
        # 1. systemize at the assigned point
        try:
            with rt.quiet(), np.errstate(all="ignore"):
                m.systemize()
        except Exception as exc:
            c.event("systemize", "rejected", key=None)
            c.note(f"systemize:rejected:{type(exc).__name__}")
        # 2. steady evaluators at the same point (flat and non-flat), constructed the way solve_steady does
        try:
            _run_steady_evaluators(c, m, spec)
        except Exception as exc:
            c.note(f"steady-evaluator-construction:{type(exc).__name__}")
        # 3. stacked-time evaluator without terminator at a random data array
        try:
            _run_stacked_evaluator(c, m, spec, case)
        except Exception as exc:
            c.note(f"stacked-evaluator-construction:{type(exc).__name__}")
        _SPEC_REG.pop(id(m._invariant), None)


def _run_steady_evaluators(c, m, spec):
    import irispie as ir
    from irispie.steadiers import evaluators as sev
    qids = [m.create_name_to_qid()[q["name"]] for grp in ("tvars", "mvars") for q in spec[grp]]
    eqs = m.get_steady_equation_objects(kind=ir.TRANSITION_EQUATION | ir.MEASUREMENT_EQUATION)
    for klass in (sev.FlatSteadyEvaluator, sev.NonflatSteadyEvaluator):
        mm = m.copy()
        variant = mm._variants[0]
        try:
            with rt.quiet():
                ev = klass(tuple(qids), tuple(qids), eqs, mm._invariant.quantities, variant, context=mm._invariant._context,
                           iter_printer_settings={"every": 10 ** 9})
        except TypeError:
            with rt.quiet():
                ev = klass(tuple(qids), tuple(qids), eqs, mm._invariant.quantities, variant, context=mm._invariant._context)
        g = np.array(ev.get_init_guess(), dtype=float)
        try:
            with rt.quiet(), np.errstate(all="ignore"):
                ev.eval_jacob(g)
        except Exception as exc:
            c.event("steady_jacob", "rejected", key=None)
            c.note(f"steady_jacob:rejected:{type(exc).__name__}")


def _run_stacked_evaluator(c, m, spec, case):
    import irispie as ir
    from irispie.stacked_time import _evaluators as stev
    from irispie.incidences.main import Token
    n2q = m.create_name_to_qid()
    lo, hi = m._invariant._min_shift, m._invariant._max_shift
    nper = int(np.random.default_rng(abs(hash(case["source"])) % 2 ** 32).integers(1, 5))
    ncols = -lo + nper + hi
    rng = np.random.default_rng(abs(hash(case["source"])) % 2 ** 32)
    nq = max(n2q.values()) + 1
    X = np.zeros((nq, ncols))
    for grp in ("tvars", "mvars", "exog"):
        for q in spec[grp]:
            X[n2q[q["name"]], :] = rng.uniform(0.6, 1.8, size=ncols)
    for p in spec["params"]:
        X[n2q[p["name"]], :] = p["value"]
    for q in spec["tshocks"]:
        X[n2q[q["name"]], :] = rng.normal(0, 0.05, size=ncols)
    cols = list(range(-lo, -lo + nper))
    tv = [n2q[q["name"]] for q in spec["tvars"]]
    spots = [Token(q, col) for col in cols for q in tv]
    eqs = m.get_dynamic_equation_objects(kind=ir.TRANSITION_EQUATION)
    ev = stev.create_evaluator(spots, cols, eqs, m._invariant.quantities, None, m._invariant._context)
    try:
        with rt.quiet(), np.errstate(all="ignore"):
            ev.eval_jacob(None, X)
    except Exception as exc:
        c.event("stacked_jacob", "rejected", key=None)
        c.note(f"stacked_jacob:rejected:{type(exc).__name__}")


def kinked_lead_model(rng):
    """x = rho*x[-1] + a*KINK(x[+1]) + k + e  (+ an optional log-variable reading x[+1]): the derivative w.r.t. the lead is
    exactly zero on one side of the kink (inactive maximum/minimum, x[+1]^2 at the origin) and non-zero on the other, so the
    sparsity the terminal-condition correction sees at the first evaluation is not the one it needs later"""
    rho = float(np.round(rng.uniform(0.3, 0.9), 2))
    a = float(np.round(rng.uniform(0.1, 0.4), 2))
    cth = float(np.round(rng.uniform(0.3, 1.0), 2))
    kind = str(rng.choice(["maximum", "maximum", "square"]))   # minimum() of an expression is rejected by irispie (TypeError)
    xl = E.var("x", 1)
    if kind == "maximum":
        kink, xbar = E.call("maximum", E.bin_("-", xl, E.num(cth)), E.num(0.0)), 0.0       # inactive at 0 < c
    elif kind == "minimum":
        kink, xbar = E.call("minimum", E.bin_("+", xl, E.num(cth)), E.num(0.0)), 0.0       # inactive at 0 > -c
    else:
        kink, xbar = E.bin_("^", xl, E.num(2)), 0.0                                         # zero slope at the origin
    spec = {"tvars": [{"name": "x", "desc": "", "log": False}], "mvars": [], "exog": [], "mshocks": [], "families": [], "user_funcs": {},
            "tshocks": [{"name": "e", "desc": ""}], "params": [{"name": "rho", "desc": "", "value": rho}, {"name": "a", "desc": "", "value": a}],
            "teqs": [{"lhs": E.var("x", 0), "rhs": E.add_all([E.bin_("*", E.par("rho"), E.var("x", -1)), E.bin_("*", E.par("a"), kink), E.var("e", 0)]),
                      "steady": None, "desc": "", "eqsign": "="}],
            "meqs": [], "flags": {"linear": False, "flat": True}}
    steady = {"x": (xbar, 0.0)}
    if rng.random() < 0.5:
        spec["tvars"].append({"name": "y", "desc": "", "log": True})
        spec["tshocks"].append({"name": "ey", "desc": ""})
        spec["teqs"].append({"lhs": E.var("y", 0), "rhs": E.bin_("*", E.bin_("*", E.bin_("^", E.var("y", -1), E.num(0.6)), E.call("exp", E.bin_("*", E.num(0.1), E.var("x", 1)))), E.call("exp", E.var("ey", 0))),
                             "steady": None, "desc": "", "eqsign": "="})
        steady["y"] = (1.0, 1.0)
    return spec, steady, {"family": "kink", "kind": kind}


def _drive_evaluator_history(c, rng, n_points=3):
    """ask the evaluator of the last stacked-time simulation for its Jacobian at further points: the same evaluator object
    (and its terminator) must return the true derivatives at every point of its life, not only at the first one"""
    st = _LAST_EV.get("state")
    if not st or st.get("last") is None:
        return
    g0, data = st["last"]
    st["n"] = 0
    for i in range(n_points):
        sc = float(rng.choice([0.02, 0.3, 1.5]))
        g = g0 + sc * rng.normal(0, 1, size=g0.shape) * np.maximum(1.0, np.abs(g0)) * (1 if i else 0)
        try:
            with rt.quiet(), np.errstate(all="ignore"):
                _LAST_EV["eval_jacob"](g, data.copy())
            c.note("stacked_jacob:evaluator-history-point")
        except Exception as exc:
            c.note(f"stacked_jacob:evaluator-history-raised:{type(exc).__name__}")


def run_terminator_case(c, case):
    """family-N (or kinked-lead) model simulated by stacked time with the first-order terminal condition: the stacked Jacobian
    monitor then sees the terminator's Jacobian correction at the Newton iterates and, afterwards, at further points asked of
    the same evaluator"""
    import irispie as ir
    from ..workloads import families as F
    rng = np.random.default_rng(case["seed"])
    if rng.random() < 0.35:
        spec, steady, meta = kinked_lead_model(rng)
    else:
        spec, steady, meta = F.family_N(rng, measurement=False)
    if spec is None:
        return
    src = M.render_source(spec, None, 0)["source"]
    with c.running(dict(case, source=src)):
        try:
            with rt.quiet():
                m = ir.Simultaneous.from_string(src, **spec["flags"])
                m.assign(**{p["name"]: p["value"] for p in spec["params"]})
                m.assign(**{n: (lvl, chg) for n, (lvl, chg) in steady.items()})
                m.solve_steady()
                m.solve()
        except Exception as exc:
            c.inconc(f"terminator-case:steady-or-solve-failed:{type(exc).__name__}")
            return
        if not int(m.max_lead):
            return
        T = int(rng.integers(2, 7))
        span = ir.Span(ir.qq(2020, 1), ir.qq(2020, 1) + (T - 1))
        db = ir.Databox.steady(m, span)
        sh = spec["tshocks"][0]["name"]
        db[sh][ir.qq(2020, 1)] = float(rng.normal(0, 0.03))
        db["ant_" + sh][ir.qq(2020, 1) + (T - 1)] = float(rng.normal(0, 0.03))
        _LAST_EV.clear()
        kw = {}
        if case["seed"] % 2 == 1 and len(spec["tvars"]) >= 2:
            # with a simulation plan the unknowns of the stacked system are no longer "all variables at all dates" in their
            # natural order: an exogenized variable leaves, an endogenized shock enters (anticipated swap at one date, sometimes
            # a second, unanticipated one at the first date); the terminal-condition correction must follow the same columns
            try:
                plan = ir.SimulationPlan(m, span)
                t0 = ir.qq(2020, 1) + int(case["seed"] // 2 % T)
                v0 = spec["tvars"][int(case["seed"] // 4 % len(spec["tvars"]))]["name"]
                plan.exogenize_anticipated(t0, v0)
                plan.endogenize_anticipated(t0, "ant_" + sh)
                db[v0][t0] = float(db[v0].get_data(t0)[0, 0]) * 1.01
                if case["seed"] % 3 == 0 and len(spec["tshocks"]) >= 2:
                    v1 = spec["tvars"][int((case["seed"] // 4 + 1) % len(spec["tvars"]))]["name"]
                    plan.exogenize_unanticipated(ir.qq(2020, 1), v1)
                    plan.endogenize_unanticipated(ir.qq(2020, 1), spec["tshocks"][1]["name"])
                kw["plan"] = plan
                c.note("terminator-case:with-simulation-plan")
            except Exception as exc:
                c.note(f"terminator-case:plan-not-built:{type(exc).__name__}")
        try:
            with rt.quiet(), np.errstate(all="ignore"):
                m.simulate(db, span, method="stacked_time", when_fails="silent", solver_settings={"step_tolerance": float("inf")}, **kw)
        except Exception as exc:
            c.inconc(f"terminator-case:simulate-raised:{type(exc).__name__}")
        _drive_evaluator_history(c, rng)


def replay(c, case):
    install()
    if case.get("kind") == "terminator":
        run_terminator_case(c, case)
    else:
        run_case(c, case)


def shard(c):
    install()
    rng = c.rng
    if True:
        cases = directed_cases()
        for i, case in enumerate(cases):
            if i % c.nshards == c.shard:
                run_case(c, case)
    for i in range(c.scale(40, 400)):
        if c.out_of_time():
            break
        try:
            run_terminator_case(c, {"kind": "terminator", "seed": int(rng.integers(0, 2 ** 31))})
        except Exception as exc:
            c.inconc(f"harness:case-error:{type(exc).__name__}")
    n = c.scale(450, 4000)
    for i in range(n):
        if c.out_of_time():
            break
        kind = "linear" if rng.random() < 0.25 else "general"
        try:
            case = make_case(rng, kind)
        except Exception as exc:
            c.inconc(f"generator:error:{type(exc).__name__}")
            continue
        run_case(c, case)
        if i < 1:
            c.sample({"source": case["source"], "point": case["point"]})
