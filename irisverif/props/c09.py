"""
C09 -- periods are calendar-consistent integers, spans their ranges

Deciding monitors (postconditions on the REAL irispie.dates methods, oracle = oracles/c09_calendar.py,
a pure datetime/calendar model in which a period is (frequency letter, ordinal)):

  period.arith     Period.__add__/__radd__/__sub__  (int offsets, period differences, mixed frequency rejected)
  period.compare   Period.__eq__/__ne__/__lt__/__le__/__gt__/__ge__  (order == integer order; mixed rejected)
  period.hash      Period.__hash__  (a function of (frequency, ordinal) only)
  period.calendar  to_year_segment, .year/.segment/.month/.day, to_ymd(start|middle|end)
  period.keyword   shift(int|yoy|soy|boy|eopy|tty), create_soy/create_eopy/create_tty
  span.*           Span.__init__ (mixed rejected), __iter__, __len__, __getitem__, reverse, reversed, shift,
                   shift_start, shift_end, __add__/__radd__/__sub__(int), resolve; periods_from_until,
                   get_encompassing_span
  law              relations between several calls evaluated by the driver: p+(q-p)==q, (p+n)-p==n, trichotomy,
                   == => same hash / set / dict membership, tiling, constructors agree, span observations agree
                   with one another and with a mirrored (start, end, step) model after every step of a history.

The abstraction function period -> (letter, ordinal) reads Period.serial (named in the property's anchor state) and
a per-class base offset calibrated ONCE at install time through the public constructor, so a re-basing of the
internal serial is not a violation.

Not decided / outside the wording (never a violation; some are counted in evidence notes):
  * `end << start` shorthand vs its docstring; Span.__rsub__ (NameError).
  * `span - period` (returns a range that leaves out the last period although the docstring says "each period").
  * reverse()/reversed() of a span whose end is not reachable from start in steps (|step|>1, unaligned): documented as
    swapping start and end, so it enumerates a different set; asserted only for aligned spans.
  * comparison of a Period with a non-period (None, int, str) -- currently raises IrisPieError.
  * out-of-range segments (qq(2020,5) silently becomes 2021-Q1), float offsets, zero step, unresolved spans (len() is None).
  * keyword shifts of integer periods (no calendar), create_eoy/create_som/create_eopm (not in the statement).
  * context resolution against a BACKWARD span (its start_date is the later period).
  * the repository's own tests under these monitors (no pytest plugin in this round).
"""

from __future__ import annotations

import datetime as _dt
import operator

import numpy as np

from .. import runtime as rt
from ..oracles import c09_calendar as cal
from ..workloads import c09_domain as dom

ID = "C09"
TIERS = {
    "quick": {"shards": 8, "budget_s": 20},
    "thorough": {"shards": 16, "budget_s": 200},
}
MIN_EVENTS = {"quick": 300000, "thorough": 5000000}
EXHAUSTIVE = {"quick": True, "thorough": True}
RULE = (
    "EXHAUSTIVE (never cut by the time budget) over the bounded domain: quick = every Y/H/Q/M period of the years 1900..2100 "
    "and of the years 1,2,4,100,400,1582,1583,1600,1700,9998,9999, every day of 1999..2001, 2023..2025 and of the years "
    "1,4,100,400,1583,1900,2100,9999, ii(-400..400) and 9 large integers; thorough = every Y/H/Q/M period of the years 1..9999, "
    "every day of 1583..2400 and of the same boundary years, ii(-5000..5000); each period x every offset in "
    "+-{0,1,2,3,f-1,f,f+1,365,366,10^4} x the full battery of operators/accessors/keyword shifts; every ordered pair of "
    "distinct frequencies x every comparison/subtraction/Span construction for the mixed-frequency rule; PLUS (time-budgeted, "
    "random) periods anywhere in years 1..9999 with offsets up to 10^5 and Span histories of <= 12 in-place mutations "
    "(steps +-1..+-7, forward/backward/empty, open-ended resolved against ResolutionContext/Series/Span/Period). "
    "distinct key = (frequency, operation, offset class, position of the period in its year (first/last/feb/jan1/feb29/...), "
    "leap/common/century year, year boundary crossed) or (span: op, direction, |step| class, length class, aligned); "
    "non-trivial = offset != 0 / distinct operands / non-empty span."
)
ASSUMPTIONS = [
    "oracle: datetime.date / calendar.monthrange (proleptic Gregorian, years 1..9999); oracle self-check (two routes) run in every shard",
    "abstraction function reads Period.serial (the state named by the property) with a per-class base calibrated at install time",
    "Frequency enum values 1/2/4/12/365/0 as documented in the Frequency docstring table",
]
ANCHORS = [
    "irispie.dates:Period.__add__",
    "irispie.dates:Period.__sub__",
    "irispie.dates:Period._sub_period",
    "irispie.dates:Period.__eq__",
    "irispie.dates:Period.__lt__",
    "irispie.dates:Period.__hash__",
    "irispie.dates:Period.shift",
    "irispie.dates:_check_periods",
    "irispie.dates:_serial_from_ysf",
    "irispie.dates:RegularPeriodMixin.to_year_segment",
    "irispie.dates:RegularPeriodMixin.to_ymd",
    "irispie.dates:RegularPeriodMixin.create_soy",
    "irispie.dates:RegularPeriodMixin.create_eopy",
    "irispie.dates:RegularPeriodMixin.create_tty",
    "irispie.dates:DailyPeriod.to_year_segment",
    "irispie.dates:DailyPeriod.to_ymd",
    "irispie.dates:DailyPeriod.create_soy",
    "irispie.dates:DailyPeriod.create_eopy",
    "irispie.dates:DailyPeriod.create_tty",
    "irispie.dates:DailyPeriod.from_year_segment",
    "irispie.dates:Span.__init__",
    "irispie.dates:Span.__iter__",
    "irispie.dates:Span.__len__",
    "irispie.dates:Span.__getitem__",
    "irispie.dates:Span.reverse",
    "irispie.dates:Span.shift",
    "irispie.dates:Span.shift_start",
    "irispie.dates:Span.shift_end",
    "irispie.dates:Span.resolve",
    "irispie.dates:ContextualPeriod.resolve",
    "irispie.dates:periods_from_until",
    "irispie.dates:get_encompassing_span",
]

_INT = (int, np.integer)
_S = {"installed": False, "letter": {}, "base": {}, "hash": {}, "Period": None, "Span": None}


# ------------------------------------------------------------------------------
# abstraction function
# ------------------------------------------------------------------------------


def _letter(p):
    t = type(p)
    f = _S["letter"].get(t, 0)
    if f == 0:
        try:
            fr = t.frequency
            f = cal.LETTER_FROM_VALUE.get(int(fr)) if fr is not None and not getattr(t, "needs_resolve", False) else None
        except Exception:
            f = None
        _S["letter"][t] = f
    return f


def _abs(p):
    """(letter, oracle ordinal) of a concrete period, None for anything else"""
    if not isinstance(p, _S["Period"]) or getattr(p, "needs_resolve", False):
        return None
    f = _letter(p)
    if f is None:
        return None
    return f, p.serial - _S["base"][f]


def _is_int(x):
    return isinstance(x, _INT) and not isinstance(x, bool)


def _pkey(f, k):
    """position of the period in its year; the kind of year only where it matters (days, February)"""
    pc = cal.position_class(f, k)
    if f == "D" or (f == "M" and pc == "feb"):
        return f"{pc}|{cal.year_class(f, k)}"
    return pc


def _crosses(f, k1, k2):
    if f == "I" or not (cal.in_calendar(f, k1) and cal.in_calendar(f, k2)):
        return "-"
    return "x" if cal.decode(f, k1)[0] != cal.decode(f, k2)[0] else "s"


def _seen(exc):
    if getattr(exc, "_iv_seen", False):
        return True
    try:
        exc._iv_seen = True
    except Exception:
        pass
    return False


def _raised(c, op, exc, f, inside, what=""):
    """an exception left a monitored function: violation if the input was inside the quantifier"""
    if _seen(exc):
        return
    if inside:
        c.violation(f"{op}:raised:{type(exc).__name__}:{f}", f"{op} raised {type(exc).__name__}: {exc} on {what}")
    else:
        c.inconc(f"{op}:raised-outside-quantifier:{type(exc).__name__}")


def _guard(c, op, fn, *a):
    try:
        fn(c, *a)
    except Exception as exc:  # monitors never raise into the code under observation
        c.inconc(f"{op}:monitor-error:{type(exc).__name__}")


# ------------------------------------------------------------------------------
# Period monitors
# ------------------------------------------------------------------------------


def _check_add(c, op, self, n, result):
    a = _abs(self)
    if a is None:
        return
    f, k = a
    n = int(n)
    r = _abs(result)
    key = f"{f}|add|{cal.offset_class(f, n)}|{_pkey(f, k)}|{_crosses(f, k, k + n)}" if op == "add" else f"{f}|{op}|{cal.offset_class(f, n)}"
    c.event("period.arith", op, key=key, nontrivial=n != 0)
    if type(result) is not type(self) or r is None:
        c.violation(f"{op}:wrong-type:{f}", f"{self!r} {op} {n} returned {type(result).__name__}")
    elif r[1] != k + n:
        c.violation(f"{op}:wrong-result:{f}", f"({f},{k}) {op} {n}: ordinal {r[1]} instead of {k + n}")


def _make_add(op):
    def make(orig):
        def wrapper(self, other):
            c = rt.ctx()
            if c is None or getattr(self, "needs_resolve", False):
                return orig(self, other)
            try:
                result = orig(self, other)
            except Exception as exc:
                _raised(c, op, exc, _letter(self), _is_int(other), f"{self!r}, {other!r}")
                raise
            if _is_int(other):
                _guard(c, op, _check_add, op, self, other, result)
            else:
                c.inconc(f"{op}:non-integer-offset")
            return result
        return wrapper
    return make


def _make_sub(orig):
    Period = _S["Period"]
    def __sub__(self, other):
        c = rt.ctx()
        if c is None or getattr(self, "needs_resolve", False) or getattr(other, "needs_resolve", False):
            return orig(self, other)
        is_per = isinstance(other, Period)
        fa = _letter(self)
        mixed = is_per and _letter(other) != fa
        try:
            result = orig(self, other)
        except Exception as exc:
            if mixed:
                _seen(exc)
                c.event("period.arith", "mixed-rejected", key=f"{fa}|sub|{_letter(other)}|rejected")
            else:
                _raised(c, "sub", exc, fa, is_per or _is_int(other), f"{self!r}, {other!r}")
            raise
        if mixed:
            c.event("period.arith", "mixed-not-rejected", key=f"{fa}|sub|{_letter(other)}|silent")
            c.violation("mixed-frequency:sub:not-rejected", f"{self!r} - {other!r} returned {result!r}")
        elif is_per:
            _guard(c, "sub", _check_sub_period, self, other, result)
        elif _is_int(other):
            _guard(c, "sub-int", _check_add, "sub-int", self, -int(other), result)
        else:
            c.inconc("sub:non-integer-offset")
        return result
    return __sub__


def _check_sub_period(c, self, other, result):
    f, k = _abs(self)
    _, j = _abs(other)
    c.event("period.arith", "sub-period", key=f"{f}|sub-period|{cal.offset_class(f, k - j)}|{_pkey(f, j)}|{_crosses(f, j, k)}", nontrivial=k != j)
    if not _is_int(result) or int(result) != k - j:
        c.violation(f"sub-period:wrong-distance:{f}", f"({f},{k}) - ({f},{j}) returned {result!r} instead of {k - j}")


_CMP = {"__eq__": operator.eq, "__ne__": operator.ne, "__lt__": operator.lt, "__le__": operator.le, "__gt__": operator.gt, "__ge__": operator.ge}


def _make_cmp(name):
    py = _CMP[name]
    op = name.strip("_")
    def make(orig):
        Period = _S["Period"]
        def wrapper(self, other):
            c = rt.ctx()
            if c is None or getattr(self, "needs_resolve", False):
                return orig(self, other)
            if not isinstance(other, Period) or getattr(other, "needs_resolve", False):
                c.note(f"compare-with-non-period:{op}")
                return orig(self, other)
            fa, fb = _letter(self), _letter(other)
            try:
                result = orig(self, other)
            except Exception as exc:
                if fa != fb:
                    _seen(exc)
                    c.event("period.compare", "mixed-rejected", key=f"{fa}|{op}|{fb}|rejected")
                else:
                    _raised(c, op, exc, fa, True, f"{self!r}, {other!r}")
                raise
            if fa != fb:
                c.event("period.compare", "mixed-not-rejected", key=f"{fa}|{op}|{fb}|silent")
                if result is not NotImplemented or op in ("eq", "ne"):
                    c.violation(f"mixed-frequency:{op}:not-rejected", f"{self!r} {op} {other!r} returned {result!r}")
                return result
            try:
                k, j = self.serial - _S["base"][fa], other.serial - _S["base"][fa]
                c.event("period.compare", op, key=f"{fa}|{op}|{cal.offset_class(fa, k - j)}|{cal.position_class(fa, k)}", nontrivial=k != j)
                if not isinstance(result, (bool, np.bool_)) or bool(result) != py(k, j):
                    c.violation(f"{op}:disagrees-with-integer-order:{fa}", f"({fa},{k}) {op} ({fa},{j}) returned {result!r}")
            except Exception as exc:
                c.inconc(f"{op}:monitor-error:{type(exc).__name__}")
            return result
        return wrapper
    return make


def _make_hash(orig):
    def __hash__(self):
        result = orig(self)
        c = rt.ctx()
        if c is None:
            return result
        try:
            a = _abs(self)
            if a is not None:
                table = _S["hash"]
                first = table.get(a)
                c.event("period.hash", a[0], key=f"{a[0]}|hash|{cal.position_class(*a)}", nontrivial=first is not None)
                if first is None:
                    if len(table) >= 200000:
                        table.clear()
                    table[a] = result
                elif first != result:
                    c.violation(f"hash:not-a-function-of-the-period:{a[0]}", f"hash of {a} was {first}, now {result}")
        except Exception as exc:
            c.inconc(f"hash:monitor-error:{type(exc).__name__}")
        return result
    return __hash__


def _make_to_year_segment(orig):
    def to_year_segment(self):
        c = rt.ctx()
        if c is None:
            return orig(self)
        a = _abs(self)
        try:
            result = orig(self)
        except Exception as exc:
            _raised(c, "to_year_segment", exc, a[0] if a else "?", a is not None and cal.in_calendar(*a), f"{a}")
            raise
        if a is not None:
            _guard(c, "to_year_segment", _check_year_segment, a, result)
        return result
    return to_year_segment


def _check_year_segment(c, a, result):
    f, k = a
    if not cal.in_calendar(f, k):
        c.inconc("to_year_segment:outside-calendar")
        return
    c.event("period.calendar", "to_year_segment", key=f"{f}|ys|{_pkey(f, k)}")
    want = cal.decode(f, k)
    if tuple(result) != want:
        c.violation(f"to_year_segment:wrong:{f}", f"({f},{k}): {result!r} instead of {want}")


def _wrap_property(owner, name, op, check):
    prop = owner.__dict__.get(name)
    if not isinstance(prop, property):
        c = rt.ctx()
        if c is not None:
            c.note(f"anchor_missing:{owner.__name__}.{name}")
        return
    fget = prop.fget
    def getter(self):
        c = rt.ctx()
        if c is None:
            return fget(self)
        a = _abs(self)
        try:
            result = fget(self)
        except Exception as exc:
            _raised(c, op, exc, a[0] if a else "?", a is not None and cal.in_calendar(*a), f"{a}")
            raise
        if a is not None and cal.in_calendar(*a):
            _guard(c, op, check, op, a, result)
        return result
    new = property(getter, prop.fset, prop.fdel, prop.__doc__)
    setattr(owner, name, new)
    rt._INSTALLED.append((owner, name, prop))


def _check_accessor(c, op, a, result):
    f, k = a
    if op == "year":
        want = cal.decode(f, k)[0]
    elif op == "segment":
        want = cal.decode(f, k)[1]
    elif op == "month":
        want = cal.first_day(f, k).month
    else:
        want = cal.first_day(f, k).day
    c.event("period.calendar", op, key=f"{f}|{op}|{_pkey(f, k)}")
    if result != want:
        c.violation(f"{op}:disagrees-with-calendar:{f}", f"({f},{k}).{op} = {result!r}, calendar says {want}")


def _make_to_ymd(orig):
    def to_ymd(self, *args, **kwargs):
        c = rt.ctx()
        if c is None:
            return orig(self, *args, **kwargs)
        a = _abs(self)
        position = kwargs.get("position", args[0] if args else "start")
        inside = a is not None and cal.in_calendar(*a) and position in cal.POSITIONS and (a[0] != "D" or not args)
        try:
            result = orig(self, *args, **kwargs)
        except Exception as exc:
            _raised(c, "to_ymd", exc, a[0] if a else "?", inside, f"{a} position={position!r}")
            raise
        if inside:
            _guard(c, "to_ymd", _check_to_ymd, a, position, result)
        return result
    return to_ymd


def _check_to_ymd(c, a, position, result):
    f, k = a
    c.event("period.calendar", f"to_ymd:{position}", key=f"{f}|ymd|{position}|{_pkey(f, k)}")
    try:
        day = _dt.date(*result)
    except Exception:
        c.violation(f"to_ymd:not-a-date:{f}", f"({f},{k}).to_ymd({position}) = {result!r}")
        return
    first, last = cal.first_day(f, k), cal.last_day(f, k)
    if position == "start" and day != first:
        c.violation(f"to_ymd:start-is-not-first-day:{f}", f"({f},{k}): {day} instead of {first}")
    elif position == "end" and day != last:
        c.violation(f"to_ymd:end-is-not-last-day:{f}", f"({f},{k}): {day} instead of {last}")
    elif not (first <= day <= last):
        c.violation(f"to_ymd:{position}-outside-period:{f}", f"({f},{k}): {day} not in {first}..{last}")


_KEYWORD = {"yoy": cal.yoy, "soy": cal.soy, "boy": cal.soy, "eopy": cal.eopy, "tty": cal.tty}


def _check_keyword(c, op, kw, self, a, result):
    f, k = a
    want = _KEYWORD[kw](f, k)
    c.event("period.keyword", f"{op}", key=f"{f}|{op}|{kw}|{_pkey(f, k)}")
    if want is None:
        if result is not None:
            c.violation(f"{kw}:start-of-year-not-None:{f}", f"({f},{k}) {op}({kw}) returned {result!r}, documented: None in start-of-year periods")
        return
    r = _abs(result)
    if r is None or type(result) is not type(self):
        c.violation(f"{kw}:wrong-type:{f}", f"({f},{k}) {op}({kw}) returned {result!r}")
    elif r[1] != want:
        c.violation(f"{kw}:lands-on-wrong-period:{f}", f"({f},{k}) {op}({kw}): ordinal {r[1]} instead of {want}")


def _keyword_inside(a, kw):
    if a is None or a[0] == "I" or not cal.in_calendar(*a):
        return False
    want = _KEYWORD[kw](*a)
    return want is None or cal.in_calendar(a[0], want)


def _make_shift(orig):
    def shift(self, *args, **kwargs):
        c = rt.ctx()
        if c is None or getattr(self, "needs_resolve", False):
            return orig(self, *args, **kwargs)
        by = kwargs.get("by", args[0] if args else -1)
        a = _abs(self)
        kw = by if isinstance(by, str) else None
        inside = a is not None and ((kw in _KEYWORD and _keyword_inside(a, kw)) or _is_int(by))
        try:
            result = orig(self, *args, **kwargs)
        except Exception as exc:
            _raised(c, f"shift:{kw}" if kw else "shift", exc, a[0] if a else "?", inside, f"{a} by={by!r}")
            raise
        if a is None:
            return result
        if kw in _KEYWORD:
            if a[0] == "I" or not cal.in_calendar(*a):
                c.inconc("shift:keyword-outside-calendar")
            else:
                _guard(c, "shift", _check_keyword, "shift", kw, self, a, result)
        elif _is_int(by):
            _guard(c, "shift", _check_add, "shift", self, by, result)
        return result
    return shift


def _make_create(kw):
    def make(orig):
        def create(self):
            c = rt.ctx()
            if c is None:
                return orig(self)
            a = _abs(self)
            inside = _keyword_inside(a, kw)
            try:
                result = orig(self)
            except Exception as exc:
                _raised(c, f"create_{kw}", exc, a[0] if a else "?", inside, f"{a}")
                raise
            if a is not None and a[0] != "I" and cal.in_calendar(*a):
                _guard(c, f"create_{kw}", _check_keyword, f"create_{kw}", kw, self, a, result)
            return result
        return create
    return make


# ------------------------------------------------------------------------------
# Span monitors
# ------------------------------------------------------------------------------

_MAX_CHECK_LEN = 20000


def _span_state(span):
    """(letter, start ordinal, end ordinal, step) of a resolved span, None otherwise"""
    try:
        if span.needs_resolve:
            return None
        a, b = _abs(span.start), _abs(span.end)
        if a is None or b is None or a[0] != b[0]:
            return None
        return a[0], a[1], b[1], span.step
    except Exception:
        return None


def _skey(st, with_f=False):
    f, s, e, step = st
    n = cal.span_len(s, e, step)
    lc = "empty" if n == 0 else ("one" if n == 1 else ("short" if n <= 12 else "long"))
    sc = "1" if abs(step) == 1 else ("2..3" if abs(step) <= 3 else ">3")
    al = "aligned" if (e - s) % step == 0 else "unaligned"
    return f"{f + '|' if with_f else ''}{'fwd' if step > 0 else 'bwd'}|{sc}|{lc}|{al}"


def _make_span_init(orig):
    def __init__(self, *args, **kwargs):
        c = rt.ctx()
        if c is None:
            return orig(self, *args, **kwargs)
        names = ("from_per", "until_per", "step")
        given = dict(zip(names, args))
        given.update(kwargs)
        a, b = _abs(given.get("from_per")), _abs(given.get("until_per"))
        step = given.get("step", 1)
        mixed = a is not None and b is not None and a[0] != b[0]
        try:
            orig(self, *args, **kwargs)
        except Exception as exc:
            if mixed:
                _seen(exc)
                c.event("span.init", "mixed-rejected", key=f"{a[0]}|Span|{b[0]}|rejected")
            else:
                _raised(c, "Span", exc, a[0] if a else "?", a is not None and b is not None and _is_int(step) and step != 0, f"{given!r}")
            raise
        try:
            if mixed:
                c.event("span.init", "mixed-not-rejected", key=f"{a[0]}|Span|{b[0]}|silent")
                c.violation("mixed-frequency:Span:not-rejected", f"Span({given.get('from_per')!r}, {given.get('until_per')!r}) was constructed")
            elif a is not None and b is not None and _is_int(step) and step != 0:
                st = _span_state(self)
                c.event("span.init", "concrete", key="init|" + _skey((a[0], a[1], b[1], step), True), nontrivial=a[1] != b[1])
                if st != (a[0], a[1], b[1], step):
                    c.violation("Span:state-differs-from-arguments", f"Span({a}, {b}, {step}) has state {st}")
            else:
                c.event("span.init", "open-ended", key=f"init|open|{a is None}|{b is None}|{step}")
        except Exception as exc:
            c.inconc(f"Span:monitor-error:{type(exc).__name__}")
    return __init__


def _make_span_len(orig):
    def __len__(self):
        result = orig(self)
        c = rt.ctx()
        if c is not None:
            st = _span_state(self)
            if st is not None and st[3] != 0:
                try:
                    want = cal.span_len(st[1], st[2], st[3])
                    c.event("span.len", "len", key="len|" + _skey(st), nontrivial=want > 0)
                    if result != want:
                        c.violation("span.len:wrong", f"len of {st} = {result!r} instead of {want}")
                except Exception as exc:
                    c.inconc(f"span.len:monitor-error:{type(exc).__name__}")
        return result
    return __len__


def _make_span_iter(orig):
    def __iter__(self):
        c = rt.ctx()
        if c is None:
            return orig(self)
        st = _span_state(self)
        if st is not None and st[3] != 0 and cal.span_len(st[1], st[2], st[3]) <= _MAX_CHECK_LEN:
            try:
                got = list(orig(self))
            except Exception as exc:
                _raised(c, "span.iter", exc, st[0], True, f"{st}")
                raise
            _guard(c, "span.iter", _check_span_iter, self, st, got)
        elif st is not None:
            c.inconc("span.iter:too-long-to-materialize")
        return orig(self)
    return __iter__


def _check_span_iter(c, span, st, got):
    f, s, e, step = st
    want = cal.span_indices(s, e, step)
    c.event("span.iter", "iter", key="iter|" + _skey(st, True), nontrivial=len(want) > 0)
    cls = type(span.start)
    if any(type(p) is not cls for p in got):
        c.violation("span.iter:wrong-period-type", f"{st}: yields {[type(p).__name__ for p in got][:4]}")
        return
    have = [p.serial - _S["base"][f] for p in got]
    if have != want:
        c.violation("span.iter:does-not-enumerate-start-to-end", f"{st}: {have[:8]}... ({len(have)}) instead of {want[:8]}... ({len(want)})")


def _make_span_getitem(orig):
    def __getitem__(self, i):
        c = rt.ctx()
        if c is None:
            return orig(self, i)
        st = _span_state(self)
        try:
            result = orig(self, i)
        except IndexError as exc:
            if st is not None and isinstance(i, int):
                n = cal.span_len(st[1], st[2], st[3])
                _seen(exc)
                c.event("span.getitem", "index-error", key="getitem|indexerror|" + _skey(st))
                if -n <= i < n:
                    c.violation("span.getitem:IndexError-inside-range", f"{st}[{i}] raised IndexError, len {n}")
            raise
        except Exception as exc:
            _raised(c, "span.getitem", exc, st[0] if st else "?", st is not None and isinstance(i, (int, slice)), f"{st}[{i!r}]")
            raise
        if st is not None and st[3] != 0:
            _guard(c, "span.getitem", _check_span_getitem, self, st, i, result)
        return result
    return __getitem__


def _check_span_getitem(c, span, st, i, result):
    f, s, e, step = st
    n = cal.span_len(s, e, step)
    if isinstance(i, int) and not isinstance(i, bool):
        c.event("span.getitem", "int", key=f"getitem|{'neg' if i < 0 else 'pos'}|{'edge' if i in (0, -1, n - 1, -n) else 'inner'}|" + _skey(st))
        if not (-n <= i < n):
            c.violation("span.getitem:no-IndexError-outside-range", f"{st}[{i}] returned {result!r}, len {n}")
            return
        want = s + (i if i >= 0 else n + i) * step
        r = _abs(result)
        if r is None or r[0] != f or r[1] != want:
            c.violation("span.getitem:wrong-period", f"{st}[{i}] = {r} instead of ordinal {want}")
    elif isinstance(i, slice):
        if n > _MAX_CHECK_LEN:
            c.inconc("span.getitem:too-long-to-materialize")
            return
        want = cal.span_indices(s, e, step)[i]
        neg = i.step is not None and i.step < 0
        c.event("span.getitem", "slice", key=f"getitem|slice|{'neg' if neg else 'pos'}|{'empty' if not want else 'some'}|" + _skey(st), nontrivial=bool(want))
        have = [(_abs(p) or (None, None))[1] for p in result]
        if have != want:
            if neg and have == want[::-1]:
                c.violation("span.getitem:negative-step-slice-in-forward-order", f"{st}[{i!r}] = {have[:6]} instead of {want[:6]}")
            else:
                c.violation("span.getitem:slice-wrong-elements", f"{st}[{i!r}] = {have[:6]} instead of {want[:6]}")
    else:
        c.inconc("span.getitem:index-type-outside-quantifier")


def _sgn(args):
    return "-" if not args else ("0" if args[0] == 0 else ("+" if args[0] > 0 else "neg"))


def _make_span_mutator(name, transition):
    """in-place mutators: state after == transition(state before, argument)"""
    def make(orig):
        def wrapper(self, *args):
            c = rt.ctx()
            if c is None:
                return orig(self, *args)
            before = _span_state(self)
            try:
                result = orig(self, *args)
            except Exception as exc:
                _raised(c, f"span.{name}", exc, before[0] if before else "?", before is not None and all(_is_int(x) for x in args), f"{before} {args!r}")
                raise
            if before is not None and all(_is_int(x) for x in args):
                try:
                    after = _span_state(self)
                    want = (before[0],) + transition(before[1], before[2], before[3], *[int(x) for x in args])
                    c.event("span.mutate", name, key=f"{name}|{_sgn(args)}|" + _skey(before), nontrivial=True)
                    if after != want:
                        c.violation(f"span.{name}:wrong-state", f"{before} .{name}{args} -> {after} instead of {want}")
                except Exception as exc:
                    c.inconc(f"span.{name}:monitor-error:{type(exc).__name__}")
            return result
        return wrapper
    return make


def _make_span_functional(name, transition):
    """functional forms: result state == transition(state), receiver untouched"""
    def make(orig):
        Period = _S["Period"]
        def wrapper(self, *args):
            c = rt.ctx()
            if c is None:
                return orig(self, *args)
            before = _span_state(self)
            if args and isinstance(args[0], Period):
                c.note("span-minus-period:not-decided")
                return orig(self, *args)
            try:
                result = orig(self, *args)
            except Exception as exc:
                _raised(c, f"span.{name}", exc, before[0] if before else "?", before is not None and all(_is_int(x) for x in args), f"{before} {args!r}")
                raise
            if before is not None and all(_is_int(x) for x in args):
                try:
                    want = (before[0],) + transition(before[1], before[2], before[3], *[int(x) for x in args])
                    got = _span_state(result)
                    c.event("span.functional", name, key=f"{name}|{_sgn(args)}|" + _skey(before), nontrivial=True)
                    if got != want:
                        c.violation(f"span.{name}:wrong-result", f"{before} {name}{args} -> {got} instead of {want}")
                    if _span_state(self) != before:
                        c.violation(f"span.{name}:receiver-modified", f"{before} became {_span_state(self)}")
                except Exception as exc:
                    c.inconc(f"span.{name}:monitor-error:{type(exc).__name__}")
            return result
        return wrapper
    return make


def _ctx_end(x):
    """(attribute, offset) of a contextual period, read from its public string form '<>.start+2'"""
    s = str(x)
    if not s.startswith("<>."):
        return None
    s = s[3:]
    for name in ("start", "end"):
        if s.startswith(name):
            rest = s[len(name):]
            return name + "_date", int(rest) if rest else 0
    return None


def _make_span_resolve(orig):
    def resolve(self, context, *args):
        c = rt.ctx()
        if c is None:
            return orig(self, context, *args)
        try:
            ends = [self.start, self.end]
            step = self.step
            want = []
            for x in ends:
                a = _abs(x)
                if a is not None:
                    want.append(a)
                    continue
                spec = _ctx_end(x)
                ref = _abs(getattr(context, spec[0], None)) if spec else None
                want.append((ref[0], ref[1] + spec[1]) if ref is not None else None)
        except Exception:
            want = None
        try:
            result = orig(self, context, *args)
        except Exception as exc:
            inside = want is not None and all(w is not None for w in want) and want[0][0] == want[1][0]
            if want is not None and all(w is not None for w in want) and want[0][0] != want[1][0]:
                _seen(exc)
                c.event("span.resolve", "mixed-rejected", key="resolve|mixed|rejected")
            else:
                _raised(c, "span.resolve", exc, "?", inside, f"{self!r}")
            raise
        try:
            if want is not None and all(w is not None for w in want):
                if want[0][0] != want[1][0]:
                    c.event("span.resolve", "mixed-not-rejected", key="resolve|mixed|silent")
                    c.violation("mixed-frequency:Span.resolve:not-rejected", f"{self!r} resolved to {result!r}")
                else:
                    opened = sum(1 for x in ends if _abs(x) is None)
                    got = _span_state(result)
                    wanted = (want[0][0], want[0][1], want[1][1], step)
                    c.event("span.resolve", f"open{opened}", key=f"resolve|open{opened}|{type(context).__name__}|{'fwd' if step > 0 else 'bwd'}|{wanted[0]}", nontrivial=opened > 0)
                    if got != wanted:
                        c.violation("span.resolve:wrong-end-points", f"{self!r} against {type(context).__name__} -> {got} instead of {wanted}")
            else:
                c.inconc("span.resolve:context-without-dates")
        except Exception as exc:
            c.inconc(f"span.resolve:monitor-error:{type(exc).__name__}")
        return result
    return resolve


def _make_periods_from_until(orig):
    def periods_from_until(start_per, end_per, step=1):
        c = rt.ctx()
        if c is None:
            return orig(start_per, end_per, step)
        a, b = _abs(start_per), _abs(end_per)
        mixed = a is not None and b is not None and a[0] != b[0]
        try:
            result = orig(start_per, end_per, step)
        except Exception as exc:
            if mixed:
                _seen(exc)
                c.event("span.from_until", "mixed-rejected", key=f"{a[0]}|from_until|{b[0]}|rejected")
            else:
                _raised(c, "periods_from_until", exc, a[0] if a else "?", a is not None and b is not None and _is_int(step) and step > 0, f"{a} {b} {step}")
            raise
        try:
            if mixed:
                c.event("span.from_until", "mixed-not-rejected", key=f"{a[0]}|from_until|{b[0]}|silent")
                c.violation("mixed-frequency:periods_from_until:not-rejected", f"{start_per!r}, {end_per!r}")
            elif a is not None and b is not None and _is_int(step) and step > 0 and cal.span_len(a[1], b[1], step) <= _MAX_CHECK_LEN:
                want = cal.span_indices(a[1], b[1], step)
                have = [(_abs(p) or (None, None))[1] for p in result]
                c.event("span.from_until", "forward", key="from_until|" + _skey((a[0], a[1], b[1], step)), nontrivial=len(want) > 0)
                if have != want or any(type(p) is not type(start_per) for p in result):
                    c.violation("periods_from_until:does-not-enumerate-start-to-end", f"{a}..{b} step {step}: {have[:6]} ({len(have)}) instead of {want[:6]} ({len(want)})")
            else:
                c.inconc("periods_from_until:outside-quantifier")
        except Exception as exc:
            c.inconc(f"periods_from_until:monitor-error:{type(exc).__name__}")
        return result
    return periods_from_until


def _make_encompassing(orig):
    def get_encompassing_span(*args):
        result = orig(*args)
        c = rt.ctx()
        if c is None:
            return result
        try:
            starts, ends = [], []
            ok = True
            for x in args:
                if x is None:
                    continue
                if not (hasattr(x, "start_date") and hasattr(x, "end_date")):
                    ok = False
                    break
                a, b = _abs(x.start_date), _abs(x.end_date)
                if a is None or b is None or a[0] != b[0] or a[1] > b[1]:
                    ok = False
                    break
                starts.append(a)
                ends.append(b)
            if not ok or not starts or len({a[0] for a in starts}) != 1:
                c.inconc("get_encompassing_span:arguments-outside-quantifier")
                return result
            want = (starts[0][0], min(a[1] for a in starts), max(b[1] for b in ends), 1)
            c.event("span.encompassing", f"n={min(len(starts), 4)}", key=f"encompassing|{want[0]}|{min(len(starts), 4)}|{len(set(starts))}|{len(set(ends))}", nontrivial=len(starts) > 1)
            got = _span_state(result[0])
            if got != want or _abs(result[1]) != want[:1] + (want[1],) or _abs(result[2]) != want[:1] + (want[2],):
                c.violation("get_encompassing_span:not-min-start-max-end", f"{got} instead of {want}")
        except Exception as exc:
            c.inconc(f"get_encompassing_span:monitor-error:{type(exc).__name__}")
        return result
    return get_encompassing_span


# ------------------------------------------------------------------------------
# install
# ------------------------------------------------------------------------------


def calibrate():
    """abstraction function period -> (letter, ordinal): one reference period per class through the public constructors"""
    if _S.get("classes"):
        return
    from irispie import dates as D
    _S["Period"], _S["Span"] = D.Period, D.Span
    classes = {"Y": D.YearlyPeriod, "H": D.HalfyearlyPeriod, "Q": D.QuarterlyPeriod, "M": D.MonthlyPeriod, "D": D.DailyPeriod, "I": D.IntegerPeriod}
    for f, cls in classes.items():
        _S["letter"][cls] = f
        ref = dom.make_period(f, 2000, 1)
        _S["base"][f] = ref.serial - cal.index(f, 2000, 1)
    _S["classes"] = classes


def install():
    if _S["installed"]:
        return
    import irispie
    from irispie import dates as D
    _S["installed"] = True
    calibrate()

    P = D.Period
    rt.wrap_attr(P, "__add__", _make_add("add"))
    rt.wrap_attr(P, "__radd__", _make_add("radd"))
    rt.wrap_attr(P, "__sub__", _make_sub)
    for name in _CMP:
        rt.wrap_attr(P, name, _make_cmp(name))
    rt.wrap_attr(P, "__hash__", _make_hash)
    rt.wrap_attr(P, "shift", _make_shift)
    for owner in (D.RegularPeriodMixin, D.DailyPeriod):
        rt.wrap_attr(owner, "to_year_segment", _make_to_year_segment)
        rt.wrap_attr(owner, "to_ymd", _make_to_ymd)
        for kw in ("soy", "eopy", "tty"):
            rt.wrap_attr(owner, f"create_{kw}", _make_create(kw))
        for name in ("year", "segment"):
            _wrap_property(owner, name, name, _check_accessor)
    for name in ("month", "day"):
        _wrap_property(D.DailyPeriod, name, name, _check_accessor)

    S = D.Span
    rt.wrap_attr(S, "__init__", _make_span_init)
    rt.wrap_attr(S, "__len__", _make_span_len)
    rt.wrap_attr(S, "__iter__", _make_span_iter)
    rt.wrap_attr(S, "__getitem__", _make_span_getitem)
    rt.wrap_attr(S, "reverse", _make_span_mutator("reverse", lambda s, e, st: (e, s, -st)))
    rt.wrap_attr(S, "shift", _make_span_mutator("shift", lambda s, e, st, by: (s + by, e + by, st)))
    rt.wrap_attr(S, "shift_start", _make_span_mutator("shift_start", lambda s, e, st, by: (s + by, e, st)))
    rt.wrap_attr(S, "shift_end", _make_span_mutator("shift_end", lambda s, e, st, by: (s, e + by, st)))
    rt.wrap_attr(S, "reversed", _make_span_functional("reversed", lambda s, e, st: (e, s, -st)))
    rt.wrap_attr(S, "__add__", _make_span_functional("add", lambda s, e, st, by: (s + by, e + by, st)))
    rt.wrap_attr(S, "__radd__", _make_span_functional("radd", lambda s, e, st, by: (s + by, e + by, st)))
    rt.wrap_attr(S, "__sub__", _make_span_functional("sub", lambda s, e, st, by: (s - by, e - by, st)))
    rt.wrap_attr(S, "resolve", _make_span_resolve)
    rt.wrap_attr(D, "periods_from_until", _make_periods_from_until)
    if getattr(irispie, "periods_from_until", None) is not None:
        irispie.periods_from_until = D.periods_from_until
    rt.wrap_attr(D, "get_encompassing_span", _make_encompassing)


# ------------------------------------------------------------------------------
# Driver: per-period battery (laws between several calls are evaluated here)
# ------------------------------------------------------------------------------


def _law(c, name, ok, key, msg, f="", nontrivial=True):
    c.event("law", name, key=f"law|{name}|{key}", nontrivial=nontrivial)
    if not ok:
        c.violation(f"law:{name}:{f}" if f else f"law:{name}", msg() if callable(msg) else msg)


def _try(c, op, fn, f, inside=True):
    """run one public call; exceptions that no monitor has attributed are recorded here"""
    try:
        return True, fn()
    except Exception as exc:
        if not getattr(exc, "_iv_seen", False):
            _raised(c, f"unmonitored:{op}", exc, f, inside, op)
        return False, None


def _run_period(c, case):
    f, y, s = case["f"], case["y"], case["s"]
    offsets = case.get("offsets") or dom.offsets_for(f)
    with c.running(case):
        ok, p = _try(c, "construct", lambda: dom.make_period(f, y, s), f)
        if not ok:
            return
        k = cal.index(f, y, s)
        a = _abs(p)
        pk = _pkey(f, k)
        _law(c, "construct", a == (f, k), f"{f}|{pk}", lambda: f"constructor {f}({y},{s}) has ordinal {a} instead of {(f, k)}", f)
        if f == "D":
            d = cal.first_day(f, k)
            import irispie
            ok, p2 = _try(c, "dd(y,m,d)", lambda: irispie.dd(d.year, d.month, d.day), f)
            if ok:
                _law(c, "constructors-agree", _abs(p2) == (f, k), f"{f}|{pk}", lambda: f"dd({d.year},{d.month},{d.day}) != dd({y},None,{s})", f)
        if f != "I":
            _calendar_battery(c, p, f, k, pk)
        for n in offsets:
            _offset_battery(c, p, f, k, n, pk)


def _calendar_battery(c, p, f, k, pk):
    _try(c, "year", lambda: p.year, f)
    _try(c, "segment", lambda: p.segment, f)
    _try(c, "to_year_segment", lambda: p.to_year_segment(), f)
    if f == "D":
        _try(c, "month", lambda: p.month, f)
        _try(c, "day", lambda: p.day, f)
    ymd = {}
    for pos in cal.POSITIONS:
        ok, r = _try(c, "to_ymd", lambda: p.to_ymd(position=pos), f)
        if ok:
            ymd[pos] = r
    _try(c, "to_ymd", lambda: p.to_ymd(), f)
    # tiling: last day of p + one day == first day of p+1, first day of p - one day == last day of p-1
    if cal.in_calendar(f, k + 1) and "end" in ymd:
        ok, nxt = _try(c, "to_ymd", lambda: (p + 1).to_ymd(position="start"), f)
        if ok:
            _law(c, "tiling", _dt.date(*ymd["end"]) + cal.ONE_DAY == _dt.date(*nxt), f"{f}|{pk}",
                 lambda: f"({f},{k}) ends {ymd['end']}, next period starts {nxt}", f)
    # tiling seen from the calendar side: the first and the last day of p belong to p, the day before to p-1, the day after
    # to p+1 (every day lies in exactly one period) -- read through the public day -> period constructor
    if f in cal.REGULAR and cal.in_calendar(f, k - 1) and cal.in_calendar(f, k + 1):
        P = _S["Period"]
        fr = p.frequency
        d0, d1 = cal.first_day(f, k), cal.last_day(f, k)
        for day, want_k, what in ((d0, k, "first"), (d1, k, "last"), (d0 - cal.ONE_DAY, k - 1, "day-before"), (d1 + cal.ONE_DAY, k + 1, "day-after")):
            ok, q_ = _try(c, "from_ymd", lambda: P.from_ymd(fr, day.year, day.month, day.day), f)
            if ok:
                _law(c, "tiling:day-belongs-to-one-period", _abs(q_) == (f, want_k), f"{f}|{what}|{pk}",
                     lambda: f"{day.isoformat()} ({what} of ({f},{k})) is assigned to {_abs(q_)}, the calendar says ({f},{want_k})", f)
    if "start" in ymd and "end" in ymd and "middle" in ymd:
        _law(c, "start<=middle<=end", ymd["start"] <= ymd["middle"] <= ymd["end"], f"{f}|{pk}", lambda: f"({f},{k}) {ymd}", f)
    for kw in ("yoy", "soy", "boy", "eopy", "tty"):
        inside = _keyword_inside((f, k), kw)
        ok, r = _try(c, f"shift:{kw}", lambda: p.shift(kw), f, inside)
        if ok and kw == "tty" and r is not None:
            _law(c, "tty-same-year", cal.decode(*_abs(r))[0] == cal.decode(f, k)[0], f"{f}|{pk}", lambda: f"({f},{k}) tty -> {_abs(r)}", f)
    for kw in ("soy", "eopy", "tty"):
        _try(c, f"create_{kw}", getattr(p, f"create_{kw}"), f, _keyword_inside((f, k), kw))


_HASH_OFFSETS = {0, 1, -1, 10 ** 4}


def _offset_battery(c, p, f, k, n, pk):
    oc = cal.offset_class(f, n)
    key = f"{f}|{oc}"
    ok, q = _try(c, "add", lambda: p + n, f)
    if not ok:
        return
    ok2, q2 = _try(c, "radd", lambda: n + p, f)
    ok3, q3 = _try(c, "sub-int", lambda: p - (-n), f)
    ok4, q4 = _try(c, "shift", lambda: p.shift(n), f)
    ok5, d = _try(c, "sub", lambda: q - p, f)
    if ok5:
        _law(c, "(p+n)-p==n", d == n, key, lambda: f"({f},{k}): (p+{n})-p = {d!r}", f, n != 0)
        ok6, back = _try(c, "add", lambda: p + d, f)
        if ok6:
            okq, same = _try(c, "eq", lambda: back == q, f)
            if okq:
                _law(c, "p+(q-p)==q", same is True, key, lambda: f"({f},{k}), q=p+{n}: p+(q-p) = {_abs(back)}", f, n != 0)
    for name, ok_, alt in (("n+p", ok2, q2), ("p-(-n)", ok3, q3), ("shift(n)", ok4, q4)):
        if ok_:
            okq, same = _try(c, "eq", lambda: alt == q, f)
            if okq:
                _law(c, f"p+n=={name}", same is True, key, lambda: f"({f},{k}) n={n}: {_abs(alt)} vs {_abs(q)}", f, n != 0)
    res = {}
    for name, fn in _CMP.items():
        okc, r = _try(c, name, lambda: fn(p, q), f)
        if okc:
            res[name] = r
        _try(c, name, lambda: fn(q, p), f)
    if len(res) == 6:
        lt, eq, gt = res["__lt__"], res["__eq__"], res["__gt__"]
        _law(c, "trichotomy", [lt, eq, gt].count(True) == 1 and [lt, eq, gt].count(False) == 2, key, lambda: f"({f},{k}) vs +{n}: lt={lt} eq={eq} gt={gt}", f, n != 0)
        _law(c, "order-is-integer-order", (lt, eq, gt) == (n > 0, n == 0, n < 0), key, lambda: f"({f},{k}) vs +{n}: lt={lt} eq={eq} gt={gt}", f, n != 0)
        _law(c, "le/ge/ne-consistent", res["__le__"] == (lt or eq) and res["__ge__"] == (gt or eq) and res["__ne__"] == (not eq), key,
             lambda: f"({f},{k}) vs +{n}: {res}", f, n != 0)
    if n in _HASH_OFFSETS:
        okh, twin = _try(c, "sub-int", lambda: q - n, f)   # equal to p, distinct object
        if okh:
            okh, hs = _try(c, "hash", lambda: (hash(twin), hash(p), hash(q)), f)
        if okh:
            _law(c, "equal=>same-hash", hs[0] == hs[1], key, lambda: f"({f},{k}): hash {hs[0]} vs {hs[1]}", f)
            okm, mem = _try(c, "membership", lambda: (twin in {p}, {p: 7}.get(twin), twin in [p], (q in {p}) == (n == 0)), f)
            if okm:
                _law(c, "set/dict-membership", mem == (True, 7, True, True), key, lambda: f"({f},{k}) n={n}: {mem}", f)


# ------------------------------------------------------------------------------
# Driver: mixed frequencies
# ------------------------------------------------------------------------------

_MIXED_OPS = {
    "eq": lambda a, b: a == b, "ne": lambda a, b: a != b, "lt": lambda a, b: a < b, "le": lambda a, b: a <= b,
    "gt": lambda a, b: a > b, "ge": lambda a, b: a >= b, "sub": lambda a, b: a - b,
}


def _run_mixed(c, case):
    import irispie
    from irispie import dates as D
    fa, ya, sa = case["a"]
    fb, yb, sb = case["b"]
    with c.running(case):
        a, b = dom.make_period(fa, ya, sa), dom.make_period(fb, yb, sb)
        same_serial = a.serial == b.serial
        ops = dict(_MIXED_OPS)
        ops["Span"] = lambda a, b: irispie.Span(a, b)
        ops["Span-backward"] = lambda a, b: irispie.Span(a, b, -1)
        ops[">>"] = lambda a, b: a >> b
        ops["periods_from_until"] = lambda a, b: D.periods_from_until(a, b)
        ops["resolve"] = lambda a, b: irispie.Span(a, None).resolve(D.ResolutionContext(b, b))
        for name, fn in ops.items():
            try:
                r = fn(a, b)
                rejected = False
            except Exception as exc:
                rejected = True
            _law(c, "mixed-frequency-rejected", rejected, f"{fa}|{name}|{fb}|{'same-serial' if same_serial else 'other'}",
                 lambda: f"{a!r} {name} {b!r} evaluated to {r!r} instead of raising", name)


def _mixed_cases():
    """every ordered pair of distinct frequencies; operands chosen so that the internal integers coincide or differ"""
    reps = {"Y": [(2020, 1), (8080, 1)], "H": [(2020, 1), (1010, 1)], "Q": [(2020, 1), (505, 1)], "M": [(2020, 1), (168, 5)],
            "D": [(2020, 60), (6, 194)], "I": [(0, 2020), (0, 8080), (0, 737484), (0, 24240), (0, 4040)]}
    for fa in cal.ALL:
        for fb in cal.ALL:
            if fa == fb:
                continue
            for (ya, sa) in reps[fa]:
                for (yb, sb) in reps[fb]:
                    yield {"kind": "mixed", "a": [fa, ya, sa], "b": [fb, yb, sb]}


# ------------------------------------------------------------------------------
# Driver: Span histories against a mirrored (start, end, step) model
# ------------------------------------------------------------------------------


def _period_from_ordinal(f, k):
    return _S["classes"][f](k + _S["base"][f])


def _make_context(kind, f, cs, ce):
    import irispie
    from irispie import dates as D
    ps, pe = _period_from_ordinal(f, cs), _period_from_ordinal(f, ce)
    if kind == "context":
        return D.ResolutionContext(ps, pe)
    if kind == "series":
        return irispie.Series(start=ps, values=np.arange(ce - cs + 1, dtype=float))
    if kind == "span":
        return irispie.Span(ps, pe)
    if kind == "period":
        return ps
    raise ValueError(kind)


def _observe_span(c, span, model, f, rng_ints, tag):
    """every observation of the span must agree with the mirrored model and with one another"""
    s, e, step = model
    want = cal.span_indices(s, e, step)
    sk = _skey((f, s, e, step))
    tag = f
    n = len(want)
    ok, L = _try(c, "span.iter", lambda: list(span), f)
    if not ok:
        return
    have = [(_abs(p) or (None, None))[1] for p in L]
    _law(c, "span:list==model", have == want, f"{tag}|{sk}", lambda: f"history model {model}: list {have[:8]} ({len(have)}) vs {want[:8]} ({n})", "", n > 0)
    ok, ln = _try(c, "span.len", lambda: len(span), f)
    if ok:
        _law(c, "span:len==len(list)", ln == len(L) == n, sk, lambda: f"model {model}: len {ln}, list has {len(L)}, model {n}", "", n > 0)
    st = (_abs(span.start), _abs(span.end), span.step)
    _law(c, "span:start/end/step==model", st == ((f, s), (f, e), step), sk, lambda: f"model {model}: {st}", "")
    idx = sorted({0, 1, n - 1, n // 2, -1, -n, -(n // 2) - 1} | {int(i) % max(n, 1) for i in rng_ints[:2]})
    for i in idx:
        if -n <= i < n:
            ok, r = _try(c, "span.getitem", lambda: span[i], f)
            if ok:
                _law(c, "span:index==list", _abs(r) == (f, want[i]), f"{'neg' if i < 0 else 'pos'}|{sk}", lambda: f"model {model}: span[{i}] = {_abs(r)} vs {want[i]}", "")
    for i in (n, -n - 1):
        try:
            r = span[i]
            raised = False
        except IndexError:
            raised = True
        except Exception as exc:
            raised = None
        _law(c, "span:index-out-of-range-raises", raised is True, f"{sk}", lambda: f"model {model}: span[{i}] -> {raised}", "")
    a, b, st2 = (rng_ints + [0, 0, 1])[:3]
    slices = [slice(None, None, None), slice(1, None), slice(None, -1), slice(a % (n + 1), None, 2), slice(None, None, 1 + abs(st2) % 3),
              slice(min(a, b) % (n + 1), max(a, b) % (n + 2))]
    for sl in slices:
        ok, r = _try(c, "span.getitem", lambda: span[sl], f)
        if ok:
            got = [(_abs(p) or (None, None))[1] for p in r]
            _law(c, "span:slice==list-slice", got == want[sl], f"{'step' if sl.step not in (None, 1) else 'plain'}|{sk}", lambda: f"model {model}: span[{sl}] = {got[:6]} vs {want[sl][:6]}", "", bool(want[sl]))
    for sl in (slice(None, None, -1), slice(None, None, -2)):   # monitor decides (key names the mechanism)
        _try(c, "span.getitem", lambda: span[sl], f)
    aligned = (e - s) % step == 0
    ok, rv = _try(c, "span.reversed", lambda: list(span.reversed()), f)
    if ok and aligned:
        got = [(_abs(p) or (None, None))[1] for p in rv]
        _law(c, "span:reversed==list-reversed", got == want[::-1], sk, lambda: f"model {model}: reversed {got[:6]} vs {want[::-1][:6]}", "", n > 1)
    by = (rng_ints + [3])[0] % 11 - 5
    ok, sh = _try(c, "span.add", lambda: list(span + by), f)
    if ok:
        got = [(_abs(p) or (None, None))[1] for p in sh]
        _law(c, "span:shifted==each-period-shifted", got == [x + by for x in want], sk, lambda: f"model {model} + {by}: {got[:6]}", "", n > 0)
    if step > 0:
        from irispie import dates as D
        ok, t = _try(c, "periods_from_until", lambda: D.periods_from_until(span.start, span.end, step), f)
        if ok:
            _law(c, "periods_from_until==list(span)", [(_abs(p) or (None, None))[1] for p in t] == want, sk, lambda: f"model {model}", "", n > 0)


def _run_span_history(c, case):
    """case: f, start/end = oracle ordinal or ["start"|"end", offset] (contextual), step, ops, context"""
    import irispie
    from irispie import dates as D
    f = case["f"]
    with c.running(case):
        def end_point(x):
            if x is None:
                return None          # an end point left out: the span's default for its direction
            if isinstance(x, list):
                return (irispie.start if x[0] == "start" else irispie.end) + x[1] if x[1] else (irispie.start if x[0] == "start" else irispie.end)
            return _period_from_ordinal(f, x)
        m_start, m_end, step = case["start"], case["end"], case["step"]
        ok, span = _try(c, "Span", lambda: irispie.Span(end_point(m_start), end_point(m_end), step), f)
        if not ok:
            return
        # documented defaults of an end point that was left out: a forward span runs from the context start to the context end,
        # a backward span from the context end down to the context start
        if m_start is None:
            m_start = ["start" if step > 0 else "end", 0]
        if m_end is None:
            m_end = ["end" if step > 0 else "start", 0]
        ints = list(case.get("ints", [3, 5, 2]))
        def concrete():
            return not isinstance(m_start, list) and not isinstance(m_end, list)
        def bump(x, by):
            return [x[0], x[1] + by] if isinstance(x, list) else x + by
        if concrete():
            _observe_span(c, span, (m_start, m_end, step), f, ints, "initial")
        # every object an operation was applied to in functional form (resolve, reversed, +, -, >>, copy) stays what it was,
        # whatever is done later to the object that operation returned (added after a seeded change made resolve() return
        # the receiver itself for fully specified spans)
        ancestors = []
        def snap(x):
            try:
                body = None if x.needs_resolve else tuple(repr(p_) for p_ in list(x)[:60])
            except Exception:
                body = "?"
            return (repr(x.start), repr(x.end), x.step, body)
        for op in case["ops"]:
            name, arg = op[0], (op[1] if len(op) > 1 else None)
            prev_obj, prev_snap = span, snap(span)
            if name == "shift":
                ok, _ = _try(c, "span.shift", lambda: span.shift(arg), f)
                m_start, m_end = bump(m_start, arg), bump(m_end, arg)
            elif name == "shift_start":
                ok, _ = _try(c, "span.shift_start", lambda: span.shift_start(arg), f)
                m_start = bump(m_start, arg)
            elif name == "shift_end":
                ok, _ = _try(c, "span.shift_end", lambda: span.shift_end(arg), f)
                m_end = bump(m_end, arg)
            elif name == "reverse":
                ok, _ = _try(c, "span.reverse", lambda: span.reverse(), f)
                m_start, m_end, step = m_end, m_start, -step
            elif name == "reversed":
                ok, span2 = _try(c, "span.reversed", lambda: span.reversed(), f)
                if ok:
                    span = span2
                m_start, m_end, step = m_end, m_start, -step
            elif name in ("add", "radd", "sub"):
                fn = {"add": lambda: span + arg, "radd": lambda: arg + span, "sub": lambda: span - arg}[name]
                ok, span2 = _try(c, f"span.{name}", fn, f)
                if ok:
                    span = span2
                by = -arg if name == "sub" else arg
                m_start, m_end = bump(m_start, by), bump(m_end, by)
            elif name == "restep":
                new = abs(arg) if step > 0 else -abs(arg)
                ok, span2 = _try(c, "span.restep", (lambda: span >> new) if step > 0 else (lambda: span << new), f)
                if ok:
                    span = span2
                step = new
            elif name == "copy":
                ok, twin = _try(c, "span.copy", lambda: span.copy(), f)
                if ok:
                    old, span = span, twin
                    before = (repr(old.start), repr(old.end), old.step)
                    _try(c, "span.shift", lambda: span.shift(1), f)
                    m_start, m_end = bump(m_start, 1), bump(m_end, 1)
                    _law(c, "span:copy-is-independent", (repr(old.start), repr(old.end), old.step) == before, f"{f}", lambda: f"original changed to {old!r}", "")
            elif name == "resolve":
                kind, cs, ce = arg
                ok, ctx = _try(c, "context", lambda: _make_context(kind, f, cs, ce), f)
                if not ok:
                    return
                ok, span2 = _try(c, "span.resolve", lambda: span.resolve(ctx), f)
                if kind == "period":
                    ce = cs
                def res(x):
                    return (cs if x[0] == "start" else ce) + x[1] if isinstance(x, list) else x
                m_start, m_end = res(m_start), res(m_end)
                if ok:
                    span = span2
                    _law(c, "span:resolved-is-concrete", bool(span) and not span.needs_resolve, f"{kind}|{f}", lambda: f"{span!r}", "")
            else:
                raise ValueError(name)
            if not ok:
                return
            if name in ("resolve", "reversed", "add", "radd", "sub", "restep", "copy"):
                # functional forms: what they were applied to is remembered even when the very same object came back
                ancestors.append((prev_obj, prev_snap, name))
            for obj, s0, how in ancestors:
                _law(c, "span:earlier-object-unchanged-by-later-operations", snap(obj) == s0, f"{how}|{name}|{f}",
                     lambda: f"the span {how}() was applied to was {s0[:3]} and is now {snap(obj)[:3]} after {name}", "", True)
            if concrete():
                _observe_span(c, span, (m_start, m_end, step), f, ints, name)
                ints = ints[1:] + ints[:1]


def _random_history(rng, tier):
    f = str(rng.choice(list(cal.ALL)))
    if f == "I":
        s = int(rng.integers(-50, 50))
    elif f == "D":
        y = int(rng.choice([1999, 2000, 2023, 2024, 1900, 2100, int(rng.integers(1600, 2400))]))
        s = cal.index("D", y, int(rng.choice([1, 31, 58, 59, 60, 300, 364, 365])))
    else:
        s = cal.index(f, int(rng.integers(1900, 2101)), int(rng.integers(1, cal.PER_YEAR[f] + 1)))
    step = int(rng.choice([1, 1, 1, -1, -1, 2, -2, 3, -3, 4, -5, 7]))
    length = int(rng.choice([0, 1, 2, 3, 5, 8, 13, 40]))
    direction = 1 if step > 0 else -1
    if rng.random() < 0.1:
        e = s - direction * int(rng.integers(1, 4))           # empty span
    else:
        e = s + direction * max(length - 1, 0) * abs(step) + (direction * int(rng.integers(0, abs(step))) if rng.random() < 0.5 else 0)
    start, end = s, e
    open_ended = rng.random() < 0.35
    ops = []
    if open_ended:
        which = int(rng.integers(0, 3))
        off1, off2 = int(rng.integers(-3, 4)), int(rng.integers(-3, 4))
        fwd = step > 0
        if which in (0, 2):
            start = ["start" if fwd else "end", off1] if rng.random() < 0.7 else None
        if which in (1, 2):
            end = ["end" if fwd else "start", off2] if rng.random() < 0.7 else None
    n_ops = int(rng.integers(1, 13))
    names = ["shift", "shift_start", "shift_end", "reverse", "reversed", "add", "radd", "sub", "restep", "copy"]
    resolve_at = int(rng.integers(0, n_ops)) if open_ended else -1
    if not open_ended and rng.random() < 0.4:
        resolve_at = int(rng.integers(0, n_ops))   # resolving a fully specified span: a no-op that must still return a new object
    for i in range(n_ops):
        if i == resolve_at:
            lo, hi = min(s, e), max(s, e)
            cs = lo - int(rng.integers(0, 6))
            ce = hi + int(rng.integers(0, 6))
            ops.append(["resolve", [str(rng.choice(["context", "series", "span", "period"])), cs, ce]])
            continue
        name = str(rng.choice(names))
        if name in ("reverse", "reversed", "copy"):
            ops.append([name])
        elif name == "restep":
            ops.append([name, int(rng.integers(1, 6))])
        else:
            big = [12, -12, 365, -366, 400] if tier == "thorough" or rng.random() < 0.2 else []
            ops.append([name, int(rng.choice([0, 1, -1, 2, -2, 3, -3, 4, -4, 7, -7] + big))])
    return {"kind": "span", "f": f, "start": start, "end": end, "step": step, "ops": ops, "ints": [int(x) for x in rng.integers(0, 50, size=3)]}


def _run_span_extras(c, case):
    """p ** n, p >> q, ellipsis constructors, get_encompassing_span"""
    import irispie
    from irispie import dates as D
    f, k, n, m = case["f"], case["k"], case["n"], case["m"]
    with c.running(case):
        p = _period_from_ordinal(f, k)
        q = _period_from_ordinal(f, k + m)
        if abs(n) > 1:
            ok, sp = _try(c, "period**n", lambda: p ** n, f)
            if ok:
                want = [k + i for i in range(n)] if n > 0 else [k - i for i in range(-n)]
                got = [(_abs(x) or (None, None))[1] for x in sp]
                _law(c, "p**n==n-periods-from-p", got == want, f"{f}|{'fwd' if n > 0 else 'bwd'}", lambda: f"({f},{k})**{n} = {got[:6]}", "")
        ok, sp = _try(c, "p>>q", lambda: p >> q, f)
        if ok:
            got = [(_abs(x) or (None, None))[1] for x in sp]
            _law(c, "p>>q==forward-span", got == cal.span_indices(k, k + m, 1), f"{f}|{'empty' if m < 0 else 'some'}", lambda: f"({f},{k})>>(+{m}) = {got[:6]}", "", m >= 0)
        if f in cal.REGULAR and cal.in_calendar(f, k) and cal.in_calendar(f, k + m):
            ctor = {"Y": irispie.yy, "H": irispie.hh, "Q": irispie.qq, "M": irispie.mm}[f]
            a, b = cal.decode(f, k), cal.decode(f, k + m)
            a, b = (a[:1], b[:1]) if f == "Y" else (a, b)
            ok, sp = _try(c, "ellipsis-constructor", lambda: ctor(*a, ..., *b), f)
            if ok:
                _law(c, "ellipsis-constructor==Span", _span_state(sp) == (f, k, k + m, 1), f"{f}", lambda: f"{_span_state(sp)}", "")
        # not decided (outside the wording): span - period; what is observed goes to the evidence notes only
        try:
            sp = irispie.Span(p, _period_from_ordinal(f, k + 3))
            r = sp - p
            c.note("observed:span-minus-period:" + ("range-leaves-out-the-last-period" if list(r) == [0, 1, 2] else ("distances-of-all-periods" if list(r) == [0, 1, 2, 3] else "other")))
        except Exception as exc:
            c.note(f"observed:span-minus-period:raised:{type(exc).__name__}")
        # encompassing span of forward spans / periods / None
        lo, hi = min(k, k + m), max(k, k + m)
        args = [irispie.Span(_period_from_ordinal(f, lo), _period_from_ordinal(f, hi)), None, _period_from_ordinal(f, k + n),
                irispie.Span(_period_from_ordinal(f, lo - 2), _period_from_ordinal(f, lo + 1))]
        ok, r = _try(c, "get_encompassing_span", lambda: D.get_encompassing_span(*args), f)
        if ok:
            want = (f, min(lo - 2, k + n), max(hi, k + n, lo + 1), 1)
            _law(c, "encompassing==min-start-max-end", _span_state(r[0]) == want, f"{f}", lambda: f"{_span_state(r[0])} vs {want}", "")


# ------------------------------------------------------------------------------
# Directed cases (deterministic; every known finding is hit on every run and seed)
# ------------------------------------------------------------------------------

DIRECTED = [
    {"kind": "period", "f": "D", "y": 2020, "s": 60},     # 2020-02-29: .segment / to_year_segment / tty of daily periods
    {"kind": "period", "f": "D", "y": 2021, "s": 1},
    {"kind": "period", "f": "D", "y": 2021, "s": 365},
    {"kind": "period", "f": "M", "y": 2000, "s": 2},
    {"kind": "period", "f": "M", "y": 1900, "s": 2},
    {"kind": "period", "f": "Q", "y": 1, "s": 1},
    {"kind": "period", "f": "Y", "y": 9999, "s": 1},
    {"kind": "span", "f": "Q", "start": cal.index("Q", 2020, 1), "end": cal.index("Q", 2021, 4), "step": 1, "ops": [["reverse"], ["shift", 2]], "ints": [3, 5, 2]},
    {"kind": "span", "f": "M", "start": ["start", 1], "end": ["end", -1], "step": 1,
     "ops": [["shift", 1], ["resolve", ["series", cal.index("M", 2020, 1), cal.index("M", 2021, 6)]], ["restep", 3]], "ints": [1, 4, 2]},
]


def _dispatch_raw(c, case):
    kind = case["kind"]
    if kind == "period":
        _run_period(c, case)
    elif kind == "mixed":
        _run_mixed(c, case)
    elif kind == "span":
        _run_span_history(c, case)
    elif kind == "span-extras":
        _run_span_extras(c, case)
    else:
        raise ValueError(kind)


def _dispatch(c, case):
    """An exception that escapes a case means irispie raised on, or returned an unusable value for, an input inside the
    stated domain (e.g. a non-existent calendar day from to_ymd makes datetime.date raise in the driver): recorded as a
    violation with the case attached (confirmed by the fresh-process replay like any other), never a harness crash."""
    try:
        with c.running(case):
            _dispatch_raw(c, case)
    except Exception as exc:
        import traceback
        tb = traceback.extract_tb(exc.__traceback__)
        where = next((f"{fr.name}:{fr.lineno}" for fr in reversed(tb) if "irispie" in fr.filename and "irisverif" not in fr.filename), tb[-1].name if tb else "?")
        c.violation(f"case-raised:{type(exc).__name__}:{case.get('kind', '?')}",
                    f"{type(exc).__name__}: {str(exc)[:160]} (last irispie frame / driver function: {where})", case=case)


def replay(c, case):
    install()
    _dispatch(c, case)


def shard(c):
    install()
    rng = c.rng
    bad = cal.selfcheck()
    c.extra["oracle_selfcheck_problems"] = len(bad)
    if bad:
        c.note(f"oracle-selfcheck:{bad[0]}")

    # ---- 0. directed
    for case in DIRECTED:
        _dispatch(c, case)
    if c.shard == 0:
        c.sample(DIRECTED[0])
        c.sample(DIRECTED[-1])

    # ---- 1. mixed frequencies: every ordered pair of distinct frequencies (sharded)
    for i, case in enumerate(_mixed_cases()):
        if i % c.nshards == c.shard:
            _run_mixed(c, case)
            if i == c.shard:
                c.sample(case)

    # ---- 2. EXHAUSTIVE bounded domain (never cut by the time budget)
    n_enum = 0
    for f, y, s in dom.enumerate_domain(c.tier, c.shard, c.nshards):
        _run_period(c, {"kind": "period", "f": f, "y": y, "s": s})
        n_enum += 1
        if n_enum == 40 + 7 * c.shard:
            c.sample({"kind": "period", "f": f, "y": y, "s": s, "offsets": dom.offsets_for(f)})
    c.extra["exhaustive_periods_enumerated"] = n_enum
    if c.shard == 0:
        c.extra["exhaustive_periods_in_domain"] = dom.domain_size(c.tier)

    # ---- 3. span histories + extras (random; a fixed number first, the rest of the budget is used in step 5)
    def histories(n, timed):
        done = 0
        for i in range(n):
            if timed and c.out_of_time():
                break
            case = _random_history(rng, c.tier)
            try:
                _run_span_history(c, case)
            except Exception as exc:
                c.inconc(f"span-history:harness:{type(exc).__name__}")
            if not timed and i == 2:
                c.sample(case)
            f = str(rng.choice(list(cal.ALL)))
            k = int(rng.integers(-40, 40)) if f == "I" else cal.index(f, int(rng.integers(1900, 2100)), 1) + int(rng.integers(0, 400))
            case = {"kind": "span-extras", "f": f, "k": k, "n": int(rng.integers(-6, 7)), "m": int(rng.integers(-3, 30))}
            try:
                _run_span_extras(c, case)
            except Exception as exc:
                c.inconc(f"span-extras:harness:{type(exc).__name__}")
            done += 1
        return done
    n_hist = histories(c.scale(250, 4000), False)

    # ---- 4. random periods anywhere in the calendar, wide offsets
    for i in range(c.scale(300, 20000)):
        f = str(rng.choice(list(cal.ALL)))
        if f == "I":
            y, s = 0, int(rng.integers(-10 ** 9, 10 ** 9))
        else:
            y = int(rng.integers(1, 10000))
            s = int(rng.integers(1, cal.n_segments(f, y) + 1))
        offs = sorted({int(x) for x in rng.integers(-10 ** 5, 10 ** 5, size=4)} | {int(x) for x in rng.integers(-40, 40, size=3)})
        case = {"kind": "period", "f": f, "y": y, "s": s, "offsets": offs}
        _run_period(c, case)
        if i == 1:
            c.sample(case)

    # ---- 5. more span histories while the budget lasts
    n_hist += histories(c.scale(1200, 12000), True)
    c.extra["span_histories"] = n_hist
