"""
C07 -- simulation plans hit exogenized points exactly; swaps invert a simulation

Deciding monitors
  planned    wrapper on Simultaneous.simulate(plan=...) (first_order and stacked_time), any caller:
             (a) every exogenized (variable, date) equals its INPUT value in the output,
             (b) every shock cell that is not endogenized equals its input value,
             (c) the planned output is an ordinary simulation: re-running the real simulator WITHOUT a plan on the
                 input with the output shocks reproduces the planned path (so C01/C06 carry over to it).
  inversion  workload-level law through the real code: targets are taken from an ordinary simulation driven by shocks E
             at cells Omega; exogenizing those variables and endogenizing exactly those shocks at those dates
             (anticipated <-> ant_<shock>, unanticipated <-> plain) must recover E at Omega, leave every other shock
             cell untouched and reproduce the whole path.
The impact matrix d(targets)/d(instruments) is measured by perturbing the real base simulation; cond > 1e4 => inconclusive.
Not decided: under/over-identified plans, when_data/transforms of Simultaneous plans, period_by_period with plans.
"""

from __future__ import annotations

import numpy as np

from .. import runtime as rt
from ..workloads import families as F
from ..workloads import models as M

ID = "C07"
TIERS = {
    "quick": {"shards": 8, "budget_s": 50},
    "thorough": {"shards": 16, "budget_s": 540},
}
MIN_EVENTS = {"quick": 8000, "thorough": 1200}
DECIDING = {"planned", "inversion", "variants"}
RULE = (
    "families L and N (first_order), N and L (stacked_time); 1-4 swap cells, anticipated only / unanticipated only / mixed, "
    "several dates, the same variable at several dates, exogenized date later than the endogenized one (anticipated), "
    "log-variables as targets, background shocks that are not part of the plan. distinct key = (family, method, #cells, kinds, "
    "distinct dates, max lead, log targets, deviation); non-trivial = at least 2 cells or an anticipated cell whose target date "
    "differs from the instrument date."
)
ASSUMPTIONS = [
    "identification is certified by a finite-difference impact matrix from the real base simulation (cond <= 1e4)",
    "tolerance 1e-8*(1+scale)*max(1, cond/1e3) for recovered shocks and paths; 1e-10 relative for exogenized cells",
]
ANCHORS = [
    "irispie.fords.simulators:_simulate_conditional",
    "irispie.fords.simulators:_generate_period_system",
    "irispie.fords.simulators:_adjust_initials",
    "irispie.fords.simulators:_insert_exogenized_unanticipated",
    "irispie.fords.simulators:_insert_exogenized_anticipated",
    "irispie.fords.solutions:Solution.expand_square_solution",
    "irispie.stacked_time.simulators:_get_wrt_spots",
    "irispie.stacked_time.simulators:_copy_exogenized_data_to_frame_data",
    "irispie.plans.simulation_plans:SimulationPlan.get_registers_as_bool_arrays",
    "irispie.frames:split_into_frames",
]

_BUSY = {"on": False}
_CASE_TOL = {"mul": 1.0}


def install():
    import irispie

    def make(orig):
        def simulate(self, in_db, span, *args, **kwargs):
            result = orig(self, in_db, span, *args, **kwargs)
            c = rt.ctx()
            plan = kwargs.get("plan")
            if c is None or plan is None or _BUSY["on"] or getattr(plan, "is_empty", False):
                return result
            if isinstance(result, tuple) and isinstance(result[1], dict) and not all(getattr(st, "is_success", True) for st in result[1].get("exit_status", ())):
                c.inconc("planned:reported-failure")
                return result
            _BUSY["on"] = True
            try:
                out = result[0] if isinstance(result, tuple) else result
                _check_planned(c, orig, self, in_db, span, kwargs, plan, out)
            except Exception as exc:
                c.inconc(f"planned:monitor-error:{type(exc).__name__}")
                c.extra["last_monitor_error"] = repr(exc)[:400]
            finally:
                _BUSY["on"] = False
            return result
        return simulate
    rt.wrap_attr(irispie.Simultaneous, "simulate", make)


def _cells(plan, which, span):
    """[(name, period index, kind)] registered AND active in the plan; read from the raw registers (a status of None or False
    means "not registered" / "withdrawn"), not through the plan's own boolean-array helper that the simulators use"""
    out = []
    pos = {str(t): k for k, t in enumerate(span)}
    for kind in ("anticipated", "unanticipated"):
        reg = f"{which}_{kind}"
        try:
            register = plan.get_register_by_name(reg)
            base = tuple(plan.base_span)
        except Exception:
            continue
        for n, statuses in register.items():
            for t, st in zip(base, statuses):
                if st is None or st is False or not bool(st):
                    continue
                k = pos.get(str(t))
                if k is not None:
                    out.append((n, int(k), kind))
    return out


def _check_planned(c, orig, model, in_db, span, kwargs, plan, out):
    import irispie as ir
    span = tuple(span)
    method = kwargs.get("method", "first_order")
    if method not in ("first_order", "stacked_time", "stacked"):
        c.inconc("planned:method-not-decided")
        return
    if model.num_variants != 1:
        c.inconc("planned:multi-variant-not-decided")
        return
    case = c.case
    vio = lambda k, msg, detail=None: c.violation(k, msg, detail=detail, case=case)
    exo = _cells(plan, "exogenized", span)
    endo = _cells(plan, "endogenized", span)
    logly = model.get_log_status()
    tol = _CASE_TOL["mul"]
    # ---- (a) exogenized cells equal their input values
    for n, k, kind in exo:
        want = float(in_db[n].get_data(span[k])[0, 0])
        got = float(out[n].get_data(span[k])[0, 0])
        c.event("planned", f"exogenized:{kind}", key=("exo", method, kind, bool(logly.get(n))), nontrivial=True)
        if not np.isfinite(want):
            c.inconc("planned:exogenized-cell-has-no-input-value")
            continue
        if not (abs(got - want) <= 1e-10 * (1 + abs(want)) * tol):   # tol: the case's conditioning multiplier (impact cond / 1e3, at least 1)
            vio(f"planned:exogenized-point-missed:{method}:{kind}" + (":log-variable" if logly.get(n) else ""),
                f"{n} in period index {k}: output {got!r}, exogenized input {want!r}")
            return
    # ---- (b) only endogenized shock cells may differ from their input
    import irispie as _ir
    shock_names = list(model.get_names(kind=_ir.TRANSITION_SHOCK)) + list(model.get_names(kind=_ir.ANTICIPATED_SHOCK_VALUE)) + list(model.get_names(kind=_ir.MEASUREMENT_SHOCK))
    endo_set = {(n, k) for n, k, _ in endo}
    for n in shock_names:
        a = np.nan_to_num(np.asarray(out[n].get_data(span), dtype=float)[:, 0]) if n in out else np.zeros(len(span))
        b = np.nan_to_num(np.asarray(in_db[n].get_data(span), dtype=float)[:, 0]) if n in in_db else np.zeros(len(span))
        for k in range(len(span)):
            if (n, k) in endo_set:
                continue
            c.event("planned", "non-endogenized-shock-cell", key=None)
            if abs(a[k] - b[k]) > 1e-10 * (1 + abs(b[k])) * tol:
                vio(f"planned:non-endogenized-shock-changed:{method}", f"{n} in period index {k}: input {b[k]!r}, output {a[k]!r}")
                return
    # ---- (c) the planned output is an ordinary simulation driven by the output shocks
    db2 = in_db.copy()
    for n in shock_names:
        if n in out:
            ser = db2[n].copy() if n in db2 else ir.Series()
            ser[ir.Span(span[0], span[-1])] = np.nan_to_num(np.asarray(out[n].get_data(span), dtype=float))
            db2[n] = ser
    kw = {k: v for k, v in kwargs.items() if k in ("method", "deviation", "solver_settings", "terminal", "initial_guess")}
    try:
        with rt.quiet():
            re = orig(model, db2, ir.Span(span[0], span[-1]), when_fails="silent", **kw)
    except Exception as exc:
        c.inconc(f"planned:unplanned-resimulation-failed:{type(exc).__name__}")
        return
    tnames = list(model.get_names(kind=_ir.TRANSITION_VARIABLE))
    for n in tnames:
        a = np.asarray(out[n].get_data(span), dtype=float)[:, 0]
        b = np.asarray(re[n].get_data(span), dtype=float)[:, 0]
        c.event("planned", "is-an-ordinary-simulation", key=("resim", method, len(exo)), nontrivial=len(exo) >= 1)
        if not np.all(np.isfinite(b)):
            c.inconc("planned:unplanned-resimulation-not-finite")
            return
        if np.max(np.abs(a - b)) > 1e-8 * (1 + np.max(np.abs(b))) * tol:
            vio(f"planned:path-is-not-the-simulation-of-its-own-shocks:{method}", f"{n}: max discrepancy {np.max(np.abs(a - b)):.3e}")
            return


# ------------------------------------------------------------------------------
# workload
# ------------------------------------------------------------------------------


def make_case(rng):
    r = rng.random()
    if r < 0.45:
        family, method = "L", "first_order"
    elif r < 0.7:
        family, method = "N", "first_order"
    elif r < 0.9:
        family, method = "N", "stacked_time"
    else:
        family, method = "L", "stacked_time"
    if family == "L":
        spec, meta = F.family_L(rng, unit_root=False, measurement=bool(rng.random() < 0.3))
        steady = None
    else:
        spec, steady, meta = F.family_N(rng, measurement=False)
        if spec is None:
            return None
    T = int(rng.integers(3, 16))
    tnames = [q["name"] for q in spec["tvars"]]
    shocks = [q["name"] for q in spec["tshocks"]]
    scale = 1.0 if family == "L" else 0.03
    ncell = int(rng.integers(1, 5))
    # the property quantifies over "anticipated/unanticipated mode": a plan is in ONE mode; plans mixing both kinds of swaps
    # (and anticipated plans with later unanticipated background shocks, which split the simulation into frames that no longer
    # see the earlier anticipated instruments) are not decided
    # ... EXCEPT mixed plans that are exactly identified frame by frame: the unanticipated swap dates are the break points
    # of the simulation, and every anticipated swap has its instrument date and its target date before the first break
    # point (added after a seeded change that only showed in the second frame of such a plan)
    mode = str(rng.choice(["anticipated", "unanticipated", "mixed"], p=[0.35, 0.35, 0.3]))
    cells = []
    used = set()
    breaks, window = [], (0, T)
    if mode == "mixed":
        if T < 4:
            mode = "unanticipated"
        else:
            breaks = sorted(set(int(b) for b in rng.integers(1, T, size=int(rng.integers(1, 3)))))
            # the window is the FIRST one: an ordinary simulation announces every anticipated shock at the start, whereas a plan
            # re-announces the anticipated instruments of a later frame at that frame's first period, so only anticipated swaps
            # before the first break point are an inversion of the ordinary simulation
            window = (0, breaks[0])
            if rng.random() < 0.4:
                # ... or the unanticipated swap sits in the very first period: a single frame that holds both kinds of swaps
                breaks, window = [0], (0, T)
            ncell = max(ncell, len(breaks) + 1)
    for ci in range(ncell):
        kind = mode if mode != "mixed" else ("unanticipated" if ci < len(breaks) else "anticipated")
        i = int(rng.integers(0, len(shocks)))
        t_s = int(rng.integers(0, T))
        if mode == "mixed":
            t_s = breaks[ci] if kind == "unanticipated" else int(rng.integers(window[0], window[1]))
        if kind == "anticipated" and method == "stacked_time":
            pass
        if (shocks[i], t_s, kind) in used:
            continue
        used.add((shocks[i], t_s, kind))
        # target: the variable of the same equation (index i), at the same date (unanticipated) or at/after it (anticipated)
        t_x = t_s if kind == "unanticipated" else int(rng.integers(t_s, min(T, t_s + 3)))
        if rng.random() < 0.25 and kind == "anticipated":
            t_x = int(rng.integers(max(0, t_s - 2), t_s + 1))   # target before the anticipated shock date (leads make it identified)
        if mode == "mixed" and kind == "anticipated":
            t_x = min(max(t_x, window[0]), window[1] - 1)
        cells.append({"shock": shocks[i], "t_s": t_s, "kind": kind, "var": tnames[i % len(tnames)], "t_x": t_x,
                      "value": float(np.round(rng.normal(0, scale) * rng.uniform(0.3, 2), 5) or scale)})
    # the same (variable, date) cannot be a target twice
    seen = set()
    cells = [cl for cl in cells if not ((cl["var"], cl["t_x"], cl["kind"]) in seen or seen.add((cl["var"], cl["t_x"], cl["kind"])))]
    if not cells:
        return None
    background = []
    for _ in range(int(rng.integers(0, 3))):
        nm = shocks[int(rng.integers(0, len(shocks)))]
        t = int(rng.integers(0, T))
        kind = str(rng.choice(["anticipated", "unanticipated"]))
        if any(cl["shock"] == nm and cl["t_s"] == t for cl in cells):
            continue
        if mode == "anticipated" and kind == "unanticipated":
            t = 0
        if mode == "mixed" and kind == "unanticipated":
            t = int(rng.choice([0] + breaks))   # no additional break points
        background.append([nm, t, kind, float(np.round(rng.normal(0, scale), 5))])
    rr = M.render_source(spec, None, 0)
    return {"kind": "plan", "family": family, "method": method, "spec": spec, "steady": steady, "meta": meta, "source": rr["source"], "T": T,
            "cells": cells, "background": background, "mode": mode, "n_decoys": int(rng.integers(1, 3)) if rng.random() < 0.3 else 0,
            "edit_seed": int(rng.integers(0, 2 ** 31)), "two_variants": bool(rng.random() < 0.25), "hist": int(rng.integers(0, 2 ** 31)) if rng.random() < 0.4 else None, "deviation": bool(rng.random() < 0.3) if method == "first_order" else False}


def run_case(c, case):
    import irispie as ir
    spec, family, method = case["spec"], case["family"], case["method"]
    with c.running(case):
        try:
            with rt.quiet():
                m = ir.Simultaneous.from_string(case["source"], **spec["flags"])
        except Exception as exc:
            c.inconc(f"parse-failed:{type(exc).__name__}")
            return
        m.assign(**{p["name"]: p["value"] for p in spec["params"]})
        try:
            with rt.quiet():
                if family == "N":
                    m.assign(**{n: (lvl, chg) for n, (lvl, chg) in case["steady"].items()})
                m.solve_steady()
                m.solve()
        except Exception as exc:
            c.inconc(f"steady-or-solve-failed:{type(exc).__name__}")
            return
        s = str(m.get_solution().system_stability)
        if "MULTIPLE" in s or "NO_" in s:
            c.inconc("model-not-determinate")
            return
        from ..oracles import linre as _linre
        if not _linre.square_solution_consistent(m.get_solution().T, m.get_eigenvalues()):
            c.inconc("model-determinate-by-count-only(rank condition fails)")
            return
        if case.get("hist") is not None:
            # history of the model object: query operations before the monitored plan simulations on the same solved model
            from ..workloads import history as Hist
            for op in Hist.perturb(m, case["hist"], spec, freq="mm"):
                c.note("history:" + op)
        tnames_ = [q["name"] for q in spec["tvars"]]
        shocks_ = [q["name"] for q in spec["tshocks"]]
        T = case["T"]
        start = ir.mm(2022, 3)
        span = ir.Span(start, start + (T - 1))
        sp = tuple(span)
        dev = case["deviation"]
        kw = {"method": method}
        if method == "first_order":
            kw["deviation"] = dev
        else:
            kw["solver_settings"] = {"step_tolerance": float("inf")}
        base_db = ir.Databox.zero(m, span) if dev else ir.Databox.steady(m, span)
        for nm, t, kind, val in case["background"]:
            base_db[("ant_" if kind == "anticipated" else "") + nm][sp[t]] = val
        db = base_db.copy()
        inst = lambda cl: ("ant_" if cl["kind"] == "anticipated" else "") + cl["shock"]
        for cl in case["cells"]:
            db[inst(cl)][sp[cl["t_s"]]] = cl["value"]
        _BUSY["on"] = True   # base simulations are not planned; keep the monitor quiet anyway
        try:
            with rt.quiet():
                base, binfo = m.simulate(db, span, when_fails="silent", return_info=True, **kw)
            if not all(getattr(st, "is_success", True) for st in binfo.get("exit_status", ())):
                c.inconc("base-simulation:reported-failure")
                return
            # ---- impact matrix by finite differences on the real base simulation
            cells = case["cells"]
            k = len(cells)
            J = np.zeros((k, k))
            targ0 = np.array([float(base[cl["var"]].get_data(sp[cl["t_x"]])[0, 0]) for cl in cells])
            logly = m.get_log_status()
            h = 1e-3 if family == "L" else 1e-4
            for j, cl in enumerate(cells):
                dbp = db.copy()
                dbp[inst(cl)][sp[cl["t_s"]]] = cl["value"] + h
                with rt.quiet():
                    bp = m.simulate(dbp, span, when_fails="silent", **kw)
                tp = np.array([float(bp[c2["var"]].get_data(sp[c2["t_x"]])[0, 0]) for c2 in cells])
                J[:, j] = (tp - targ0) / h
        except Exception as exc:
            c.inconc(f"base-simulation-failed:{type(exc).__name__}")
            return
        finally:
            _BUSY["on"] = False
        if not np.all(np.isfinite(targ0)) or not np.all(np.isfinite(J)):
            c.inconc("base-simulation-not-finite")
            return
        sv = np.linalg.svd(J, compute_uv=False)
        cond = sv[0] / sv[-1] if sv[-1] > 0 else np.inf
        if not np.isfinite(cond) or cond > 1e4 or sv[-1] < 1e-6:
            c.inconc("impact-matrix-singular-or-ill-conditioned")
            return
        _CASE_TOL["mul"] = max(1.0, cond / 1e3)
        # ---- planned simulation: targets from the base path, instruments endogenized
        plan = ir.SimulationPlan(m, span)
        db2 = base_db.copy()
        for cl in cells:
            if cl["kind"] == "anticipated":
                plan.exogenize_anticipated(sp[cl["t_x"]], cl["var"])
                plan.endogenize_anticipated(sp[cl["t_s"]], "ant_" + cl["shock"])
            else:
                plan.exogenize_unanticipated(sp[cl["t_x"]], cl["var"])
                plan.endogenize_unanticipated(sp[cl["t_s"]], cl["shock"])
            db2[cl["var"]][sp[cl["t_x"]]] = float(base[cl["var"]].get_data(sp[cl["t_x"]])[0, 0])
        # ---- an EDITED plan: decoy points are registered and then withdrawn (status=False); with input values off the
        # path at the withdrawn dates, a withdrawn point that is still treated as active moves the simulation
        g_ = np.random.default_rng(case.get("edit_seed", 0))
        for _ in range(int(case.get("n_decoys", 0))):
            anticipated = all(cl["kind"] == "anticipated" for cl in cells) if case.get("mode") != "mixed" else False
            if case.get("mode") == "mixed":
                continue   # a withdrawn break point could legitimately matter for the frame layout of a mixed plan: not drawn
            t_d = int(g_.integers(0, T))
            v_d = tnames_[int(g_.integers(0, len(tnames_)))]
            s_d = shocks_[int(g_.integers(0, len(shocks_)))]
            if any((cl["var"] == v_d and cl["t_x"] == t_d) or (cl["shock"] == s_d and cl["t_s"] == t_d) for cl in cells):
                continue
            try:
                if anticipated:
                    plan.exogenize_anticipated(sp[t_d], v_d); plan.endogenize_anticipated(sp[t_d], "ant_" + s_d)
                    plan.exogenize_anticipated(sp[t_d], v_d, status=False); plan.endogenize_anticipated(sp[t_d], "ant_" + s_d, status=False)
                else:
                    plan.exogenize_unanticipated(sp[t_d], v_d); plan.endogenize_unanticipated(sp[t_d], s_d)
                    plan.exogenize_unanticipated(sp[t_d], v_d, status=False); plan.endogenize_unanticipated(sp[t_d], s_d, status=False)
                c.note("plan-edit:decoy-registered-and-withdrawn")
            except Exception as exc:
                c.note(f"plan-edit:raised:{type(exc).__name__}")
        try:
            with rt.quiet(), np.errstate(all="ignore"):
                out, pinfo = m.simulate(db2, span, plan=plan, when_fails="silent", return_info=True, **kw)
            if not all(getattr(st, "is_success", True) for st in pinfo.get("exit_status", ())):
                c.inconc("planned-simulation:reported-failure")
                return
        except Exception as exc:
            c.inconc(f"planned-simulation:raised:{type(exc).__name__}")
            c.note(f"planned-simulation:raised:{type(exc).__name__}:{str(exc)[:80]}")
            return
        # ---- inversion law
        kinds = "".join(sorted({cl["kind"][0] for cl in cells}))
        key = (family, method, k, kinds, len({cl["t_s"] for cl in cells}), int(m.max_lead), any(logly.get(cl["var"]) for cl in cells), dev)
        nontrivial = k >= 2 or any(cl["kind"] == "anticipated" and cl["t_x"] != cl["t_s"] for cl in cells)
        c.event("inversion", f"{method}:{kinds}", key=key, nontrivial=nontrivial)
        tol = 1e-8 * _CASE_TOL["mul"] if method == "first_order" else 1e-6 * _CASE_TOL["mul"]
        nonlinear_inverse = (method != "first_order" and family != "L")
        for cl in cells:
            got = float(np.nan_to_num(out[inst(cl)].get_data(sp[cl["t_s"]])[0, 0]))
            if abs(got - cl["value"]) > tol * (1 + abs(cl["value"])) and nonlinear_inverse:
                # the nonlinear inverse problem need not be unique: a different shock vector that hits every target and is a
                # valid simulation of its own shocks (both asserted by the `planned` monitor on this very call) is not a violation
                c.inconc("inversion:nonlinear-model-alternative-solution(targets hit, valid simulation)")
                return
            if abs(got - cl["value"]) > tol * (1 + abs(cl["value"])):
                c.violation(f"inversion:shock-not-recovered:{method}:{cl['kind']}",
                            f"{inst(cl)} in period index {cl['t_s']}: recovered {got!r}, the base simulation used {cl['value']!r} (impact cond {cond:.1e})",
                            detail={"cell": cl})
                return
        for q in spec["tvars"]:
            a = np.asarray(out[q["name"]].get_data(sp), dtype=float)[:, 0]
            b = np.asarray(base[q["name"]].get_data(sp), dtype=float)[:, 0]
            if np.max(np.abs(a - b)) > tol * (1 + np.max(np.abs(b))):
                c.violation(f"inversion:path-not-reproduced:{method}", f"{q['name']}: max discrepancy {np.max(np.abs(a - b)):.3e} (impact cond {cond:.1e})")
                return


        # ---- the planned path is an ordinary simulation of its own shocks on a FRESH model object (no history, empty caches)
        if method == "first_order" or case.get("hist") is not None:
            try:
                with rt.quiet(), np.errstate(all="ignore"):
                    m2 = ir.Simultaneous.from_string(case["source"], **spec["flags"])
                    m2.assign(**{p["name"]: p["value"] for p in spec["params"]})
                    if family == "N":
                        m2.assign(**{n: (lvl, chg) for n, (lvl, chg) in case["steady"].items()})
                    m2.solve_steady()
                    m2.solve()
                    db3 = db2.copy()
                    for n_ in [q["name"] for q in spec["tshocks"]]:
                        for nm_ in (n_, "ant_" + n_):
                            if nm_ in out:
                                ser = db3[nm_].copy() if nm_ in db3 else ir.Series()
                                ser[span] = np.nan_to_num(np.asarray(out[nm_].get_data(sp), dtype=float))
                                db3[nm_] = ser
                    _BUSY["on"] = True
                    try:
                        re2 = m2.simulate(db3, span, when_fails="silent", **kw)
                    finally:
                        _BUSY["on"] = False
            except Exception as exc:
                c.inconc(f"fresh-model-resimulation-failed:{type(exc).__name__}")
                return
            for q in spec["tvars"]:
                a = np.asarray(out[q["name"]].get_data(sp), dtype=float)[:, 0]
                b = np.asarray(re2[q["name"]].get_data(sp), dtype=float)[:, 0]
                c.event("planned", "is-an-ordinary-simulation-on-a-fresh-model", key=("fresh", method, kinds, case.get("hist") is not None), nontrivial=True)
                if not np.all(np.isfinite(b)):
                    c.inconc("fresh-model-resimulation-not-finite")
                    return
                if np.max(np.abs(a - b)) > max(tol, 1e-8) * (1 + np.max(np.abs(b))):
                    c.violation(f"planned:path-differs-from-simulation-of-its-own-shocks-on-a-fresh-model:{method}",
                                f"{q['name']}: max discrepancy {np.max(np.abs(a - b)):.3e} (the model object that ran the plan had "
                                f"{'a history of earlier queries' if case.get('hist') is not None else 'no earlier history'})")
                    return


        # ---- two DATA variants in one planned call: each variant hits its own targets with its own shocks
        if case.get("two_variants"):
            try:
                dbb = base_db.copy()
                for cl in cells:
                    dbb[inst(cl)][sp[cl["t_s"]]] = float(np.round(-0.6 * cl["value"] + (0.3 if family == "L" else 0.004), 6))
                _BUSY["on"] = True
                try:
                    with rt.quiet(), np.errstate(all="ignore"):
                        base1 = m.simulate(dbb, span, when_fails="silent", **kw)
                finally:
                    _BUSY["on"] = False
                db2b = base_db.copy()
                for cl in cells:
                    db2b[cl["var"]][sp[cl["t_x"]]] = float(base1[cl["var"]].get_data(sp[cl["t_x"]])[0, 0])
                with rt.quiet(), np.errstate(all="ignore"):
                    out1, pinfo1 = m.simulate(db2b, span, plan=plan, when_fails="silent", return_info=True, **kw)   # monitored
                if not all(getattr(st, "is_success", True) for st in pinfo1.get("exit_status", ())):
                    c.inconc("two-variants:single-run-reported-failure")
                    return
                both = ir.Databox()
                for k_ in db2.keys():
                    a_, b_ = db2[k_], db2b[k_]
                    if isinstance(a_, ir.Series):
                        if a_.start != b_.start or a_.data.shape[0] != b_.data.shape[0]:
                            c.inconc("two-variants:inputs-not-aligned")
                            return
                        both[k_] = ir.Series(start=a_.start, values=np.column_stack([np.asarray(a_.data, dtype=float)[:, 0], np.asarray(b_.data, dtype=float)[:, 0]]))
                    else:
                        both[k_] = a_
                _BUSY["on"] = True
                try:
                    with rt.quiet(), np.errstate(all="ignore"):
                        outj = m.simulate(both, span, plan=plan, num_variants=2, when_fails="silent", **kw)
                finally:
                    _BUSY["on"] = False
            except Exception as exc:
                c.inconc(f"two-variants:raised:{type(exc).__name__}")
                c.note(f"two-variants:raised:{type(exc).__name__}:{str(exc)[:80]}")
                return
            names_ = [q["name"] for q in spec["tvars"]] + sorted({inst(cl) for cl in cells})
            for v_, single in enumerate((out, out1)):
                for n_ in names_:
                    a_ = np.nan_to_num(np.asarray(outj[n_].get_data(sp), dtype=float))
                    b_ = np.nan_to_num(np.asarray(single[n_].get_data(sp), dtype=float)[:, 0])
                    c.event("variants", "planned-joint-run==single-runs", key=("variants", method, kinds, v_), nontrivial=v_ >= 1)
                    if a_.ndim != 2 or a_.shape[1] < 2:
                        c.violation("two-variants:output-has-one-variant", f"{n_}: shape {a_.shape}")
                        return
                    err = np.max(np.abs(a_[:, v_] - b_))
                    if not np.isfinite(err) or err > max(tol, 1e-8) * 10 * (1 + np.max(np.abs(b_))):
                        if nonlinear_inverse:
                            c.inconc("two-variants:nonlinear-model-alternative-solution")
                            return
                        c.violation(f"two-variants:variant-differs-from-its-own-single-variant-planned-simulation:{method}",
                                    f"{n_}, data variant {v_}: max discrepancy {err:.3e} between the planned simulate(num_variants=2) and the planned simulation of that variant alone")
                        return


def replay(c, case):
    install()
    run_case(c, case)


def shard(c):
    install()
    rng = c.rng
    n = c.scale(440, 3000)
    for i in range(n):
        if c.out_of_time():
            break
        try:
            case = make_case(rng)
        except Exception as exc:
            c.inconc(f"generator:error:{type(exc).__name__}")
            continue
        if case is None:
            continue
        try:
            run_case(c, case)
        except Exception as exc:
            c.inconc(f"harness:case-error:{type(exc).__name__}")
            c.extra["last_case_error"] = repr(exc)[:300]
        if i < 1:
            c.sample({k: case[k] for k in ("family", "method", "source", "T", "cells", "background", "deviation")})
