"""
C11 -- period conversions round-trip; refrequent preserves containment

Deciding monitors (postconditions on the REAL irispie.dates functions, oracle = oracles/c09_calendar.py):

  print      to_sdmx_string / __repr__ of every period class, to_iso_string, to_python_date, to_ymd, to_year_segment:
             the output, read by an INDEPENDENT parser of the documented format (docstring table of to_sdmx_string,
             yyyy-mm-dd, constructor expressions), denotes the same period / a day of the period
             (start = first day, end = last day, middle inside)
  parse      Period.from_sdmx_string (frequency given or None), <Class>.from_sdmx_string, Frequency.from_sdmx_string,
             periods_from_sdmx_strings, from_iso_string, from_ymd, from_python_date, from_year_segment: the result is the
             period the oracle reads from the argument (from_ymd: the period CONTAINING that day)
  refrequent Period.refrequent / irispie.dates.refrequent / to_daily: result overlaps the source period; position
             start -> contains the first day, end -> contains the last day; coarser target -> the one containing period
  law        compositions evaluated by the driver: parse(print(p)) is p for sdmx (auto-detected and given frequency),
             iso/ymd/python date at start/middle/end, repr (eval in the irispie namespace), (year, segment);
             from_ymd of EVERY day of p is p; refrequent == from_ymd(to_ymd(position)); monotone; coarse->fine->coarse = id;
             CSV export/import of series of every frequency gives the dates back.

Periods are compared through the abstraction function (frequency letter, ordinal) of C09, not through irispie's ==.

Not decided / outside the wording:
  * strings outside the documented SDMX formats (weekly, blanks inside, month 13), invalid dates (regular from_ymd ignores
    the day, so from_ymd(2021, 2, 30) is accepted), segments out of range, positional `position` for daily periods.
  * ISO strings / ymd / year-segment / refrequent of INTEGER periods and conversion to WEEKLY (no such period class).
  * the exact day chosen for position="middle" (documented as the 15th of the middle month; yearly uses June 30):
    only "inside the period" is asserted, as the property says.
  * to_compact_string (no parser exists), legacy Dater.* aliases.
"""

from __future__ import annotations

import datetime as _dt
import os
import tempfile

import numpy as np

from .. import runtime as rt
from ..oracles import c09_calendar as cal
from ..workloads import c09_domain as dom
from . import c09 as _c9

ID = "C11"
TIERS = {
    "quick": {"shards": 8, "budget_s": 20},
    "thorough": {"shards": 16, "budget_s": 200},
}
MIN_EVENTS = {"quick": 200000, "thorough": 5000000}
EXHAUSTIVE = {"quick": True, "thorough": True}
RULE = (
    "EXHAUSTIVE (never cut by the time budget) over the same bounded domain as C09: quick = every Y/H/Q/M period of the years "
    "1900..2100 and of 1,2,4,100,400,1582,1583,1600,1700,9998,9999, every day of 1999..2001, 2023..2025 and of "
    "1,4,100,400,1583,1900,2100,9999, ii(-400..400) and 9 large integers; thorough = every Y/H/Q/M period of the years 1..9999, "
    "every day of 1583..2400 and of the boundary years, ii(-5000..5000). For each period: every representation x every "
    "position (start, middle, end), from_ymd of EVERY calendar day of the period, refrequent to each of the 5 calendar "
    "frequencies x 3 positions (all 25 ordered pairs incl. identity), also for the next period (monotonicity), and back. "
    "PLUS random periods anywhere in years 1..9999 and CSV export/import round trips. distinct key = (frequency, "
    "representation/target frequency, position, position of the period in its year, leap/common/century year); "
    "non-trivial = everything except identity conversions."
)
ASSUMPTIONS = [
    "oracle: datetime.date / calendar.monthrange; documented formats read by the oracle's own regular expressions",
    "abstraction function reads Period.serial with a per-class base calibrated at install time (shared with C09)",
    "repr is evaluated with eval() in the irispie namespace",
]
ANCHORS = [
    "irispie.dates:Frequency.from_sdmx_string",
    "irispie.dates:Period.from_sdmx_string",
    "irispie.dates:Period.from_iso_string",
    "irispie.dates:Period.from_python_date",
    "irispie.dates:Period.from_ymd",
    "irispie.dates:Period.from_year_segment",
    "irispie.dates:Period.to_iso_string",
    "irispie.dates:Period.to_python_date",
    "irispie.dates:Period.refrequent",
    "irispie.dates:refrequent",
    "irispie.dates:periods_from_sdmx_strings",
    "irispie.dates:periods_from_iso_strings",
    "irispie.dates:periods_from_python_dates",
    "irispie.dates:IntegerPeriod.from_sdmx_string",
    "irispie.dates:IntegerPeriod.to_sdmx_string",
    "irispie.dates:DailyPeriod.from_ymd",
    "irispie.dates:DailyPeriod.from_sdmx_string",
    "irispie.dates:DailyPeriod.to_sdmx_string",
    "irispie.dates:DailyPeriod.to_ymd",
    "irispie.dates:DailyPeriod.to_year_segment",
    "irispie.dates:DailyPeriod.to_daily",
    "irispie.dates:RegularPeriodMixin.from_ymd",
    "irispie.dates:RegularPeriodMixin.from_year_segment",
    "irispie.dates:RegularPeriodMixin.from_iso_string",
    "irispie.dates:RegularPeriodMixin.to_ymd",
    "irispie.dates:RegularPeriodMixin.to_daily",
    "irispie.dates:YearlyPeriod.from_sdmx_string",
    "irispie.dates:YearlyPeriod.to_sdmx_string",
    "irispie.dates:HalfyearlyPeriod.from_sdmx_string",
    "irispie.dates:HalfyearlyPeriod.month_to_segment",
    "irispie.dates:QuarterlyPeriod.from_sdmx_string",
    "irispie.dates:QuarterlyPeriod.month_to_segment",
    "irispie.dates:MonthlyPeriod.from_sdmx_string",
    "irispie.dates:MonthlyPeriod.to_sdmx_string",
    "irispie.databoxes._imports:_read_csv",
    "irispie.databoxes._exports:Inlay.to_csv",
]

_abs = _c9._abs
_pkey = _c9._pkey
_raised = _c9._raised
_seen = _c9._seen
_S = _c9._S
_I = {"installed": False}


def _freq_letter(fr):
    """letter of a Frequency argument (None if it is not one of the six period frequencies)"""
    try:
        return cal.LETTER_FROM_VALUE.get(int(fr))
    except Exception:
        return None


def _guard(c, op, fn, *a):
    try:
        fn(c, *a)
    except Exception as exc:
        c.inconc(f"{op}:monitor-error:{type(exc).__name__}")


def _same(result, want, cls=None):
    a = _abs(result)
    return a is not None and a == want and (cls is None or type(result) is cls or issubclass(type(result), cls))


# ------------------------------------------------------------------------------
# print monitors
# ------------------------------------------------------------------------------


def _make_print(op, reader):
    """to_sdmx_string / __repr__: an independent reader of the documented format must get the same period back"""
    def make(orig):
        def wrapper(self, *args, **kwargs):
            c = rt.ctx()
            if c is None:
                return orig(self, *args, **kwargs)
            a = _abs(self)
            inside = a is not None and cal.in_calendar(*a)
            try:
                result = orig(self, *args, **kwargs)
            except Exception as exc:
                _raised(c, op, exc, a[0] if a else "?", inside, f"{a}")
                raise
            if inside:
                try:
                    c.event("print", op, key=f"{a[0]}|{op}|{_pkey(*a)}")
                    if reader(result) != a:
                        c.violation(f"{op}:does-not-denote-the-period:{a[0]}", f"{a} printed as {result!r}, which reads as {reader(result)}")
                except Exception as exc:
                    c.inconc(f"{op}:monitor-error:{type(exc).__name__}")
            return result
        return wrapper
    return make


def _position_of(args, kwargs):
    return kwargs.get("position", args[0] if args else "start")


def _check_day(c, op, a, position, day):
    f, k = a
    c.event("print", f"{op}:{position}", key=f"{f}|{op}|{position}|{_pkey(f, k)}")
    if day is None:
        c.violation(f"{op}:not-a-date:{f}", f"({f},{k}) {op}({position}) is not a calendar date")
        return
    first, last = cal.first_day(f, k), cal.last_day(f, k)
    if position == "start" and day != first:
        c.violation(f"{op}:start-is-not-first-day:{f}", f"({f},{k}): {day} instead of {first}")
    elif position == "end" and day != last:
        c.violation(f"{op}:end-is-not-last-day:{f}", f"({f},{k}): {day} instead of {last}")
    elif not (first <= day <= last):
        c.violation(f"{op}:{position}-outside-period:{f}", f"({f},{k}): {day} not in {first}..{last}")


def _make_to_day(op, to_date):
    """to_ymd / to_iso_string / to_python_date"""
    def make(orig):
        def wrapper(self, *args, **kwargs):
            c = rt.ctx()
            if c is None:
                return orig(self, *args, **kwargs)
            a = _abs(self)
            position = _position_of(args, kwargs)
            inside = (a is not None and a[0] != "I" and cal.in_calendar(*a) and position in cal.POSITIONS
                      and (a[0] != "D" or not args or op == "to_python_date"))
            try:
                result = orig(self, *args, **kwargs)
            except Exception as exc:
                _raised(c, op, exc, a[0] if a else "?", inside, f"{a} {position!r}")
                raise
            if inside:
                try:
                    try:
                        day = to_date(result)
                    except Exception:
                        day = None
                    _check_day(c, op, a, position, day)
                except Exception as exc:
                    c.inconc(f"{op}:monitor-error:{type(exc).__name__}")
            return result
        return wrapper
    return make


def _make_to_year_segment(orig):
    def to_year_segment(self):
        c = rt.ctx()
        if c is None:
            return orig(self)
        a = _abs(self)
        inside = a is not None and cal.in_calendar(*a)
        try:
            result = orig(self)
        except Exception as exc:
            _raised(c, "to_year_segment", exc, a[0] if a else "?", inside, f"{a}")
            raise
        if inside:
            try:
                c.event("print", "to_year_segment", key=f"{a[0]}|ys|{_pkey(*a)}")
                if tuple(result) != cal.decode(*a):
                    c.violation(f"to_year_segment:wrong:{a[0]}", f"{a}: {result!r} instead of {cal.decode(*a)}")
            except Exception as exc:
                c.inconc(f"to_year_segment:monitor-error:{type(exc).__name__}")
        return result
    return to_year_segment


# ------------------------------------------------------------------------------
# parse monitors
# ------------------------------------------------------------------------------


def _parse_call(op, call, expect, args, kwargs):
    """expect(args, kwargs) -> ("ok", (f, k), key) | ("outside", reason); the result of call() must be that period"""
    c = rt.ctx()
    if c is None:
        return call()
    try:
        verdict = expect(args, kwargs)
    except Exception as exc:
        verdict = ("outside", f"monitor-error:{type(exc).__name__}")
    inside = verdict[0] == "ok"
    try:
        result = call()
    except Exception as exc:
        _raised(c, op, exc, verdict[1][0] if inside else "?", inside, f"{args[-3:]!r} {kwargs!r}")
        raise
    if inside:
        try:
            want, key = verdict[1], verdict[2]
            c.event("parse", op, key=f"{want[0]}|{op}|{key}")
            if not _same(result, want):
                c.violation(f"{op}:wrong-period:{want[0]}", f"{op}{args[-3:]!r} {kwargs!r} -> {_abs(result)} instead of {want}")
        except Exception as exc:
            c.inconc(f"{op}:monitor-error:{type(exc).__name__}")
    else:
        c.inconc(f"{op}:{verdict[1]}")
    return result


def _parse_wrapper(op, orig, expect):
    def wrapper(*args, **kwargs):
        return _parse_call(op, lambda: orig(*args, **kwargs), expect, args, kwargs)
    return wrapper


def _klass_letter(klass):
    return _S["letter"].get(klass) or _freq_letter(getattr(klass, "frequency", None))


def _expect_sdmx(s, f_given, auto):
    want = cal.sdmx_parse(s)
    if want is None or not cal.in_calendar(*want):
        return ("outside", "string-outside-documented-sdmx-formats")
    if f_given is not None and f_given != want[0]:
        return ("outside", "string-of-another-frequency")
    return ("ok", want, f"{'auto' if auto else 'given'}|{_pkey(*want)}")


def _expect_day(f, y, m, d, how):
    if f is None or f == "I":
        return ("outside", "frequency-without-calendar")
    try:
        day = _dt.date(int(y), int(m), int(d))
    except Exception:
        return ("outside", "not-a-calendar-date")
    pos = "first" if day.day == 1 else ("last" if day == _dt.date.max or (day + cal.ONE_DAY).day == 1 else ("29feb" if (day.month, day.day) == (2, 29) else "inner"))
    k = cal.index_of_day(f, day)
    return ("ok", (f, k), f"{how}|{pos}|{cal.position_class(f, k)}")


def _expect_iso(f, s):
    day = cal.iso_parse(s)
    if day is None:
        return ("outside", "not-an-iso-date")
    return _expect_day(f, day.year, day.month, day.day, "iso")


def _expect_ys(f, year, seg):
    if f is None:
        return ("outside", "unknown-frequency")
    if f in cal.REGULAR and seg == "end":
        seg = cal.PER_YEAR[f]
    if not (isinstance(year, (int, np.integer)) or f == "I") or not isinstance(seg, (int, np.integer)) or not cal.valid_year_segment(f, year, seg):
        return ("outside", "year-segment-outside-calendar")
    k = cal.index(f, year, seg)
    return ("ok", (f, k), f"ys|{_pkey(f, k)}")


def _make_frequency_from_sdmx(orig):
    def from_sdmx_string(klass, sdmx_string, *args):
        c = rt.ctx()
        if c is None:
            return orig(klass, sdmx_string, *args)
        want = cal.sdmx_parse(sdmx_string)
        inside = want is not None and cal.in_calendar(*want)
        try:
            result = orig(klass, sdmx_string, *args)
        except Exception as exc:
            _raised(c, "Frequency.from_sdmx_string", exc, want[0] if inside else "?", inside, repr(sdmx_string))
            raise
        if inside:
            try:
                c.event("parse", "Frequency.from_sdmx_string", key=f"{want[0]}|detect|{_pkey(*want)}")
                if _freq_letter(result) != want[0] or int(result) != cal.FREQ_VALUE[want[0]]:
                    c.violation(f"Frequency.from_sdmx_string:wrong-frequency:{want[0]}", f"{sdmx_string!r} detected as {result!r}")
            except Exception as exc:
                c.inconc(f"Frequency.from_sdmx_string:monitor-error:{type(exc).__name__}")
        else:
            c.inconc("Frequency.from_sdmx_string:string-outside-documented-sdmx-formats")
        return result
    return from_sdmx_string


def _make_periods_from_strings(op, expect_one):
    def make(orig):
        def wrapper(strings, *args, **kwargs):
            c = rt.ctx()
            if c is None:
                return orig(strings, *args, **kwargs)
            # a one-shot iterable (generator, map, iterator) is read once for the oracle and handed on as a one-shot iterator again
            one_shot = not isinstance(strings, (list, tuple))
            strings = tuple(strings)
            fr = kwargs.get("frequency", args[0] if args else None)
            try:
                f_given = _freq_letter(fr) if fr is not None else None
                wants = [expect_one(s, f_given, fr is None) for s in strings]
                inside = bool(wants) and all(w[0] == "ok" for w in wants) and len({w[1][0] for w in wants}) == 1
            except Exception:
                inside, wants = False, []
            try:
                result = orig(iter(strings) if one_shot else strings, *args, **kwargs)
            except Exception as exc:
                _raised(c, op, exc, wants[0][1][0] if inside else "?", inside, f"{strings[:3]!r} frequency={fr!r}")
                raise
            if inside:
                try:
                    f = wants[0][1][0]
                    c.event("parse", op, key=f"{f}|{op}|{'auto' if fr is None else 'given'}|{min(len(strings), 3)}|{'iterator' if one_shot else 'sequence'}", n=1)
                    got = [_abs(p) for p in result]
                    if got != [w[1] for w in wants]:
                        c.violation(f"{op}:wrong-periods:{f}", f"{strings[:4]!r} -> {got[:4]}")
                except Exception as exc:
                    c.inconc(f"{op}:monitor-error:{type(exc).__name__}")
            elif strings:
                c.inconc(f"{op}:outside-quantifier")
            return result
        return wrapper
    return make


# ------------------------------------------------------------------------------
# refrequent monitors
# ------------------------------------------------------------------------------


def _check_refrequent(c, op, a, g, position, result):
    f, k = a
    lo, hi = cal.refrequent_allowed(f, k, g)
    rel = "same" if g == f else ("finer" if cal.finer(g, f) else "coarser")
    c.event("refrequent", f"{op}:{f}->{g}", key=f"{f}|{g}|{position}|{_pkey(f, k)}", nontrivial=g != f)
    r = _abs(result)
    if r is None or r[0] != g:
        c.violation(f"{op}:wrong-frequency:{f}->{g}", f"({f},{k}) -> {result!r}")
    elif not (lo <= r[1] <= hi):
        c.violation(f"{op}:result-does-not-overlap-source:{rel}", f"({f},{k}) -> ({g},{r[1]}) position={position}, allowed {lo}..{hi}")
    elif position == "start" and r[1] != lo:
        c.violation(f"{op}:start-does-not-contain-first-day:{rel}", f"({f},{k}) -> ({g},{r[1]}) instead of {lo}")
    elif position == "end" and r[1] != hi:
        c.violation(f"{op}:end-does-not-contain-last-day:{rel}", f"({f},{k}) -> ({g},{r[1]}) instead of {hi}")


def _make_refrequent(op, period_index):
    def make(orig):
        def wrapper(*args, **kwargs):
            c = rt.ctx()
            if c is None:
                return orig(*args, **kwargs)
            try:
                self = args[period_index]
                a = _abs(self)
                if op == "to_daily":
                    g, rest = "D", args[period_index + 1:]
                else:
                    g, rest = _freq_letter(kwargs.get("new_freq", args[period_index + 1] if len(args) > period_index + 1 else None)), args[period_index + 2:]
                position = _position_of(rest, kwargs)
                inside = (a is not None and a[0] in cal.CALENDAR and g in cal.CALENDAR and cal.in_calendar(*a)
                          and position in cal.POSITIONS and (a[0] != "D" or not rest))
            except Exception:
                inside, a, g, position = False, None, None, None
            try:
                result = orig(*args, **kwargs)
            except Exception as exc:
                _raised(c, op, exc, f"{a[0]}->{g}" if inside else "?", inside, f"{a} -> {g} {position!r}")
                raise
            if inside:
                _guard(c, op, _check_refrequent, op, a, g, position, result)
            else:
                c.inconc(f"{op}:outside-quantifier")
            return result
        return wrapper
    return make


# ------------------------------------------------------------------------------
# install
# ------------------------------------------------------------------------------


def _wrap_class_parser(owner, name, op, expect):
    """classmethod (klass, ...) parsers defined on a period class or on the regular mixin"""
    raw = owner.__dict__.get(name)
    if raw is None:
        c = rt.ctx()
        if c is not None:
            c.note(f"anchor_missing:{owner.__name__}.{name}")
        return
    def make(orig):
        def wrapper(klass, *args, **kwargs):
            return _parse_call(op, lambda: orig(klass, *args, **kwargs), lambda a, k: expect(_klass_letter(klass), a, k), args, kwargs)
        return wrapper
    rt.wrap_attr(owner, name, make)


def install():
    if _I["installed"]:
        return
    _I["installed"] = True
    import irispie
    from irispie import dates as D
    _c9.calibrate()
    P = D.Period
    classes = _S["classes"]

    # ---- print
    for f, cls in classes.items():
        if "to_sdmx_string" in cls.__dict__:
            rt.wrap_attr(cls, "to_sdmx_string", _make_print("to_sdmx_string", cal.sdmx_parse))
        if "__repr__" in cls.__dict__:
            rt.wrap_attr(cls, "__repr__", _make_print("repr", cal.repr_parse))
    for owner in (D.RegularPeriodMixin, D.DailyPeriod):
        rt.wrap_attr(owner, "to_ymd", _make_to_day("to_ymd", lambda r: _dt.date(*r)))
        rt.wrap_attr(owner, "to_year_segment", _make_to_year_segment)
        rt.wrap_attr(owner, "to_daily", _make_refrequent("to_daily", 0))
    rt.wrap_attr(P, "to_iso_string", _make_to_day("to_iso_string", cal.iso_parse))
    rt.wrap_attr(P, "to_python_date", _make_to_day("to_python_date", lambda r: r if type(r) is _dt.date else None))

    # ---- parse: generic entry points on Period (static methods)
    def gen(op, expect):
        return lambda orig: _parse_wrapper(op, orig, expect)
    rt.wrap_attr(P, "from_sdmx_string", gen("Period.from_sdmx_string", lambda a, k: _expect_sdmx(
        a[0], _freq_letter(k.get("frequency", a[1] if len(a) > 1 else None)) if k.get("frequency", a[1] if len(a) > 1 else None) is not None else None,
        k.get("frequency", a[1] if len(a) > 1 else None) is None)))
    rt.wrap_attr(P, "from_iso_string", gen("Period.from_iso_string", lambda a, k: _expect_iso(
        _freq_letter(k.get("frequency", a[1] if len(a) > 1 else D.Frequency.DAILY)), a[0])))
    rt.wrap_attr(P, "from_python_date", gen("Period.from_python_date", lambda a, k: _expect_day(
        _freq_letter(k.get("frequency", a[1] if len(a) > 1 else D.Frequency.DAILY)), a[0].year, a[0].month, a[0].day, "pydate")))
    rt.wrap_attr(P, "from_ymd", gen("Period.from_ymd", lambda a, k: _expect_day(
        _freq_letter(a[0]), a[1], a[2] if len(a) > 2 else 1, a[3] if len(a) > 3 else 1, "ymd")))
    rt.wrap_attr(P, "from_year_segment", gen("Period.from_year_segment", lambda a, k: _expect_ys(
        _freq_letter(a[0]), a[1], a[2] if len(a) > 2 else (0 if _freq_letter(a[0]) == "I" else 1))))

    # ---- parse: per-class class methods
    for f, cls in classes.items():
        _wrap_class_parser(cls, "from_sdmx_string", "Class.from_sdmx_string", lambda f_, a, k: _expect_sdmx(a[0], f_, False))
    for owner in (D.RegularPeriodMixin, D.DailyPeriod):
        _wrap_class_parser(owner, "from_ymd", "Class.from_ymd", lambda f_, a, k: _expect_day(
            f_, k.get("year", a[0] if a else None), k.get("month", a[1] if len(a) > 1 else 1), k.get("day", a[2] if len(a) > 2 else 1), "ymd"))
        _wrap_class_parser(owner, "from_iso_string", "Class.from_iso_string", lambda f_, a, k: _expect_iso(f_, a[0]))
        _wrap_class_parser(owner, "from_year_segment", "Class.from_year_segment", lambda f_, a, k: _expect_ys(
            f_, k.get("year", a[0] if a else None), a[1] if len(a) > 1 else k.get("per", k.get("segment", 1))))
    rt.wrap_attr(D.Frequency, "from_sdmx_string", _make_frequency_from_sdmx)
    rt.wrap_attr(D, "periods_from_sdmx_strings", _make_periods_from_strings("periods_from_sdmx_strings", _expect_sdmx))
    if getattr(irispie, "periods_from_sdmx_strings", None) is not None:
        irispie.periods_from_sdmx_strings = D.periods_from_sdmx_strings

    # ---- refrequent
    rt.wrap_attr(P, "refrequent", _make_refrequent("refrequent", 0))
    rt.wrap_attr(D, "refrequent", _make_refrequent("refrequent-function", 0))
    if getattr(irispie, "refrequent", None) is not None:
        irispie.refrequent = D.refrequent


# ------------------------------------------------------------------------------
# Driver
# ------------------------------------------------------------------------------


def _law(c, name, ok, key, msg, f="", nontrivial=True):
    c.event("law", name, key=f"law|{name}|{key}", nontrivial=nontrivial)
    if not ok:
        c.violation(f"law:{name}:{f}" if f else f"law:{name}", msg() if callable(msg) else msg)


def _try(c, op, fn, f, inside=True):
    try:
        return True, fn()
    except Exception as exc:
        if not getattr(exc, "_iv_seen", False):
            _raised(c, f"unmonitored:{op}", exc, f, inside, op)
        return False, None


def _run_period(c, case):
    import irispie
    from irispie import dates as D
    f, y, s = case["f"], case["y"], case["s"]
    every_day = case.get("every_day", True)
    with c.running(case):
        ok, p = _try(c, "construct", lambda: dom.make_period(f, y, s), f)
        if not ok:
            return
        k = cal.index(f, y, s)
        a = (f, k)
        if _abs(p) != a:
            c.inconc("constructor-disagrees-with-oracle(decided-by-C09)")
            return
        pk = _pkey(f, k)
        cls = _S["classes"][f]
        F = dom.frequency_of(f)
        P = D.Period
        is_ = lambda r: _same(r, a)

        # ---- SDMX: print, parse with given / auto-detected frequency
        ok, sd = _try(c, "to_sdmx_string", lambda: p.to_sdmx_string(), f)
        ok2, st = _try(c, "str", lambda: str(p), f)
        if ok and ok2:
            _law(c, "str==sdmx", st == sd, f"{f}", lambda: f"{a}: str {st!r} vs sdmx {sd!r}", f)
        if ok:
            for name, fn in (
                ("sdmx:Period.from_sdmx_string(auto)", lambda: P.from_sdmx_string(sd)),
                ("sdmx:Period.from_sdmx_string(frequency)", lambda: P.from_sdmx_string(sd, frequency=F)),
                ("sdmx:Class.from_sdmx_string", lambda: cls.from_sdmx_string(sd)),
            ):
                okr, r = _try(c, name, fn, f)
                if okr:
                    _law(c, name, is_(r), f"{f}|{pk}", lambda: f"{a} printed {sd!r} parsed back as {_abs(r)}", f)
            okr, fr = _try(c, "Frequency.from_sdmx_string", lambda: D.Frequency.from_sdmx_string(sd), f)
            if okr:
                _law(c, "sdmx:frequency-detected", fr == F, f"{f}|{pk}", lambda: f"{sd!r} detected as {fr!r}", f)
            ok3, sd2 = _try(c, "to_sdmx_string", lambda: (p + 1).to_sdmx_string(), f, cal.in_calendar(f, k + 1))
            if ok3 and cal.in_calendar(f, k + 1):
                for name, fn in (("sdmx:periods_from_sdmx_strings(auto)", lambda: D.periods_from_sdmx_strings([sd, sd2])),
                                 ("sdmx:periods_from_sdmx_strings(frequency)", lambda: D.periods_from_sdmx_strings((sd, sd2), frequency=F)),
                                 ("sdmx:periods_from_sdmx_strings(auto,generator)", lambda: D.periods_from_sdmx_strings(s_ for s_ in (sd, sd2))),
                                 ("sdmx:periods_from_sdmx_strings(frequency,map)", lambda: D.periods_from_sdmx_strings(map(str, [sd, sd2]), frequency=F))):
                    okr, r = _try(c, name, fn, f)
                    if okr:
                        _law(c, name, [_abs(x) for x in r] == [a, (f, k + 1)], f"{f}|{pk}", lambda: f"{[sd, sd2]} -> {[_abs(x) for x in r]}", f)
                okr, r = _try(c, "sdmx:periods_from_sdmx_strings(one string,iterator)", lambda: D.periods_from_sdmx_strings(iter([sd])), f)
                if okr:
                    _law(c, "sdmx:periods_from_sdmx_strings(one string,iterator)", [_abs(x) for x in r] == [a], f"{f}|{pk}", lambda: f"{[sd]} -> {[_abs(x) for x in r]}", f)

        # ---- repr evaluated back in the irispie namespace
        ok, rp = _try(c, "repr", lambda: repr(p), f)
        if ok:
            okr, r = _try(c, "eval(repr)", lambda: eval(rp, dict(vars(irispie))), f)
            if okr:
                _law(c, "repr:eval(repr(p))", is_(r), f"{f}|{pk}", lambda: f"{a} repr {rp!r} evaluates to {_abs(r)}", f)
        if f == "I":
            return

        # ---- (year, segment)
        ok, ys = _try(c, "to_year_segment", lambda: p.to_year_segment(), f)
        if ok:
            for name, fn in (("ys:Period.from_year_segment", lambda: P.from_year_segment(F, *ys)), ("ys:Class.from_year_segment", lambda: cls.from_year_segment(*ys))):
                okr, r = _try(c, name, fn, f)
                if okr:
                    _law(c, name, is_(r), f"{f}|{pk}", lambda: f"{a} -> {ys} -> {_abs(r)}", f)

        # ---- ISO string, ymd, python date at the three positions
        for pos in cal.POSITIONS:
            ok, iso = _try(c, "to_iso_string", lambda: p.to_iso_string(position=pos), f)
            if ok:
                for name, fn in (("iso:Period.from_iso_string", lambda: P.from_iso_string(iso, F)), ("iso:Class.from_iso_string", lambda: cls.from_iso_string(iso)),
                                 ("iso:periods_from_iso_strings", lambda: D.periods_from_iso_strings([iso], frequency=F)[0])):
                    okr, r = _try(c, name, fn, f)
                    if okr:
                        _law(c, name, is_(r), f"{f}|{pos}|{pk}", lambda: f"{a} {pos} {iso!r} -> {_abs(r)}", f)
            ok, ymd = _try(c, "to_ymd", lambda: p.to_ymd(position=pos), f)
            if ok:
                for name, fn in (("ymd:Period.from_ymd", lambda: P.from_ymd(F, *ymd)), ("ymd:Class.from_ymd", lambda: cls.from_ymd(*ymd))):
                    okr, r = _try(c, name, fn, f)
                    if okr:
                        _law(c, name, is_(r), f"{f}|{pos}|{pk}", lambda: f"{a} {pos} {ymd} -> {_abs(r)}", f)
            ok, pd = _try(c, "to_python_date", lambda: p.to_python_date(position=pos), f)
            if ok:
                for name, fn in (("pydate:Period.from_python_date", lambda: P.from_python_date(pd, frequency=F)),
                                 ("pydate:periods_from_python_dates", lambda: D.periods_from_python_dates([pd], frequency=F)[0])):
                    okr, r = _try(c, name, fn, f)
                    if okr:
                        _law(c, name, is_(r), f"{f}|{pos}|{pk}", lambda: f"{a} {pos} {pd} -> {_abs(r)}", f)
        _try(c, "to_ymd", lambda: p.to_ymd(), f)
        _try(c, "to_iso_string", lambda: p.to_iso_string(), f)
        _try(c, "to_python_date", lambda: p.to_python_date(), f)

        # ---- from_ymd of EVERY day of the period
        if f != "D" and every_day:
            bad = None
            n = 0
            from_ymd = cls.from_ymd
            for d in cal.days_of(f, k):
                okr, r = _try(c, "Class.from_ymd", lambda: from_ymd(d.year, d.month, d.day), f)
                n += 1
                if okr and not is_(r) and bad is None:
                    bad = (d, _abs(r))
            _law(c, "ymd:every-day-of-p-gives-p", bad is None, f"{f}|{pk}", lambda: f"{a}: from_ymd{bad[0].timetuple()[:3]} = {bad[1]}", f)
            c.extra["from_ymd_days"] = c.extra.get("from_ymd_days", 0) + n

        # ---- refrequent: all calendar targets x positions; containment, monotone, there-and-back
        nxt = p + 1 if cal.in_calendar(f, k + 1) else None
        for g in cal.CALENDAR:
            G = dom.frequency_of(g)
            for pos in cal.POSITIONS:
                ok, r = _try(c, "refrequent", lambda: p.refrequent(G, position=pos), f"{f}->{g}")
                if not ok:
                    continue
                key = f"{f}|{g}|{pos}|{pk}"
                nt = g != f
                ra = _abs(r)
                ok2, r2 = _try(c, "refrequent-function", lambda: D.refrequent(p, G, position=pos), f"{f}->{g}")
                if ok2:
                    _law(c, "refrequent:function==method", _abs(r2) == ra, key, lambda: f"{a}->{g} {pos}: {_abs(r2)} vs {ra}", "", nt)
                if g == "D":
                    ok2, r2 = _try(c, "to_daily", lambda: p.to_daily(position=pos), f"{f}->{g}")
                    if ok2:
                        _law(c, "refrequent:to_daily==refrequent(DAILY)", _abs(r2) == ra, key, lambda: f"{a} {pos}: {_abs(r2)} vs {ra}", "", nt)
                ok2, ymd = _try(c, "to_ymd", lambda: p.to_ymd(position=pos), f)
                if ok2 and ra is not None and ra[0] == g:
                    day = _dt.date(*ymd)
                    _law(c, "refrequent:contains-chosen-position", cal.contains(g, ra[1], day), key, lambda: f"{a}->{g} {pos}: ({g},{ra[1]}) does not contain {day}", "", nt)
                if nxt is not None and ra is not None:
                    ok2, r2 = _try(c, "refrequent", lambda: nxt.refrequent(G, position=pos), f"{f}->{g}")
                    if ok2 and _abs(r2) is not None:
                        _law(c, "refrequent:monotone", _abs(r2)[0] == ra[0] and _abs(r2)[1] >= ra[1], key, lambda: f"{a}->{ra}, next -> {_abs(r2)}", "", nt)
                if (cal.finer(g, f) or g == f) and ra is not None:
                    for back_pos in cal.POSITIONS:
                        ok2, r2 = _try(c, "refrequent", lambda: r.refrequent(F, position=back_pos), f"{g}->{f}")
                        if ok2:
                            _law(c, "refrequent:coarse->fine->coarse==id", is_(r2), f"{key}|{back_pos}", lambda: f"{a} -{pos}-> {ra} -{back_pos}-> {_abs(r2)}", "", nt)
            _try(c, "refrequent", lambda: p.refrequent(G), f"{f}->{g}")


def _run_csv(c, case):
    """series of one frequency -> CSV file -> Databox: the dates come back (frequency mark row; SDMX strings in the date column)"""
    import irispie
    f, k, n = case["f"], case["k"], case["n"]
    with c.running(case):
        start = _c9._period_from_ordinal(f, k)
        F = dom.frequency_of(f)
        db = irispie.Databox()
        db["x"] = irispie.Series(start=start, values=np.arange(1.0, n + 1))
        db["y"] = irispie.Series(start=start + 1, values=np.arange(1.0, n + 2))
        with tempfile.TemporaryDirectory(prefix="irisverif-c11-") as tmp:
            path = os.path.join(tmp, "data.csv")
            with rt.quiet():
                ok, _ = _try(c, "to_csv", lambda: db.to_csv(path, frequency_span={F: ...}), f)
                if not ok:
                    return
                ok, back = _try(c, "from_csv", lambda: irispie.Databox.from_csv(path), f)
            if not ok:
                return
        try:
            got = (_abs(back["x"].start), _abs(back["x"].end), _abs(back["y"].start), _abs(back["y"].end))
        except Exception as exc:
            c.inconc(f"csv:harness:{type(exc).__name__}")
            return
        want = ((f, k), (f, k + n - 1), (f, k + 1), (f, k + n + 1))
        _law(c, "csv:dates-come-back", got == want, f"{f}|{_pkey(f, k)}", lambda: f"{want} -> {got}", f)
        vals = back["x"].get_data().ravel().tolist()
        _law(c, "csv:values-at-the-same-periods", vals[:n] == list(np.arange(1.0, n + 1)), f"{f}", lambda: f"{vals}", f)


DIRECTED = [
    {"kind": "period", "f": "I", "y": 0, "s": 5},          # "(5)" is printed by ii(5) but its frequency is not detected
    {"kind": "period", "f": "I", "y": 0, "s": -5},
    {"kind": "period", "f": "D", "y": 2020, "s": 60},      # daily (year, segment) conversion raises
    {"kind": "period", "f": "M", "y": 2000, "s": 2},
    {"kind": "period", "f": "M", "y": 1900, "s": 2},
    {"kind": "period", "f": "Y", "y": 1, "s": 1},
    {"kind": "period", "f": "Q", "y": 9999, "s": 4},
    {"kind": "csv", "f": "Q", "k": cal.index("Q", 2020, 3), "n": 6},
]


def _dispatch_raw(c, case):
    if case["kind"] == "period":
        _run_period(c, case)
    elif case["kind"] == "csv":
        _run_csv(c, case)
    else:
        raise ValueError(case["kind"])


def _dispatch(c, case):
    """An exception that escapes a case means irispie raised on, or returned an unusable value for, an input inside the
    stated domain (e.g. a non-existent calendar day from to_ymd makes datetime.date raise in the driver): recorded as a
    violation with the case attached (confirmed by the fresh-process replay like any other), never a harness crash."""
    try:
        with c.running(case):
            _dispatch_raw(c, case)
    except Exception as exc:
        import traceback
        tb = traceback.extract_tb(exc.__traceback__)
        where = next((f"{fr.name}:{fr.lineno}" for fr in reversed(tb) if "irispie" in fr.filename and "irisverif" not in fr.filename), tb[-1].name if tb else "?")
        c.violation(f"case-raised:{type(exc).__name__}:{case.get('kind', '?')}",
                    f"{type(exc).__name__}: {str(exc)[:160]} (last irispie frame / driver function: {where})", case=case)


def replay(c, case):
    install()
    _dispatch(c, case)


def shard(c):
    install()
    rng = c.rng
    bad = cal.selfcheck()
    c.extra["oracle_selfcheck_problems"] = len(bad)

    for case in DIRECTED:
        _dispatch(c, case)
    if c.shard == 0:
        c.sample(DIRECTED[0])
        c.sample(DIRECTED[3])

    # ---- EXHAUSTIVE bounded domain (never cut by the time budget)
    n_enum = 0
    for f, y, s in dom.enumerate_domain(c.tier, c.shard, c.nshards):
        _run_period(c, {"kind": "period", "f": f, "y": y, "s": s})
        n_enum += 1
        if n_enum == 40 + 7 * c.shard:
            c.sample({"kind": "period", "f": f, "y": y, "s": s})
    c.extra["exhaustive_periods_enumerated"] = n_enum
    if c.shard == 0:
        c.extra["exhaustive_periods_in_domain"] = dom.domain_size(c.tier)

    # ---- CSV round trips
    for i in range(c.scale(12, 150)):
        f = cal.ALL[(i + c.shard) % 6]
        k = int(rng.integers(-30, 30)) if f == "I" else cal.index(f, int(rng.integers(1950, 2060)), 1) + int(rng.integers(0, 370))
        case = {"kind": "csv", "f": f, "k": k, "n": int(rng.integers(1, 40))}
        try:
            _run_csv(c, case)
        except Exception as exc:
            c.inconc(f"csv:harness:{type(exc).__name__}")
        if i == 0:
            c.sample(case)

    # ---- random periods anywhere in the calendar while the budget lasts
    i = 0
    while i < c.scale(250, 20000) and not c.out_of_time():
        f = str(rng.choice(list(cal.CALENDAR)))
        y = int(rng.integers(1, 10000))
        s = int(rng.integers(1, cal.n_segments(f, y) + 1))
        case = {"kind": "period", "f": f, "y": y, "s": s, "every_day": f in ("M", "Q")}
        _run_period(c, case)
        if i == 1:
            c.sample(case)
        i += 1
    c.extra["random_periods"] = i
