"""
C18 -- reduced-form VAR estimates are the least-squares solution and reproduce the data

Deciding monitors (postconditions on the real public methods, oracle = irisverif/oracles/c18_var.py, numpy only):
  estimate         wrapper on RedVAR.estimate: reads the input databox itself (Series.get_data on presample+span), recomputes the
                   complete-row selection, the lstsq coefficients, the normal equations (with prior dummy observations appended),
                   fitted + stored residual == data, cov_residuals*d == U U', noise-free data -> generating VAR; per variant.
  simulate         wrapper on RedVAR.simulate (deviation=False): output on the span == direct recursion
                   y_t = sum A_i y_{t-i} + B x_t + c + u_t from the initial condition, exogenous data and residuals in the input databox
  roundtrip        (driver) simulate(estimate output, fitted run) == the original data
  get_mean         == (I - sum A_i)^{-1} c
  get_eigenvalues  == eigenvalues of the companion matrix built by the oracle (multiset comparison)
  get_acov         == blocks of the solution of the companion Lyapunov equation (Kronecker solve), stable VARs only

Not decided (never asserted):
  * which k the dof correction subtracts: the code uses k = #exogenous + intercept, textbooks use all regressors per equation;
    both are accepted, the one observed is counted in evidence (extra.cov_denominator:*).
  * the scale of Minnesota dummy observations: estimate computes the data std and passes it on, PriorObs.generate_lhs/rhs drop it,
    so dummies are in unit scale; unit and data-std scaling are both accepted (extra.dummy_scaling:*). Likewise whether dummy
    residuals enter cov_residuals.
  * stored residuals on periods that were not fitted (NaN today) and in the presample (0 today); inf in the data.
  * interpret_span="long" (today identical to "short" because max_lag is not passed on), omit_missing=False on incomplete data.
  * deviation=True simulations, resample(), get_acorr, orientation of autocovariances of
    order >= 1 (Gamma_i or its transpose, consistently, is accepted), get_mean when exogenous variables are present (their
    contribution is ignored by definition here), dof_correction when T_fit - k <= 0.

Genuine defects on the pinned tree (known_findings.d/C18.json; a directed case for each runs first in every shard):
  estimate:raised:AttributeError:intercept-false-c-is-none            _estimators.py:146
  simulate:initial-condition-read-from-leads                          _invariants.py:93 (order >= 2)
  simulate:raised:ValueError:exogenous-impact-not-companion-sized     _simulators.py:_simulate_exogenous_impact (order >= 2, n >= 2)
  simulate:exogenous-impact-added-to-whole-companion-state(n=1)       same mechanism, n == 1: silent broadcast
The two simulate defects are recognised by emulating exactly that mechanism in the oracle (emulate_known_simulate_defects); an
output that differs from the correct recursion in any other way is reported as simulate:output-is-not-the-var-recursion.
"""

from __future__ import annotations

import inspect

import numpy as np

from .. import runtime as rt
from ..oracles import c18_var as orc

ID = "C18"
TIERS = {
    "quick": {"shards": 8, "budget_s": 28},
    "thorough": {"shards": 16, "budget_s": 300},
}
MIN_EVENTS = {"quick": 8000, "thorough": 80000}
DECIDING = {"estimate", "simulate", "roundtrip", "get_mean", "get_eigenvalues", "get_acov"}
EXHAUSTIVE = {"quick": False, "thorough": False}
RULE = (
    "directed cases for every known finding, then random cases: n_endog 1..4, order 1..4, n_exog 0..2, intercept on/off, dof_correction on/off, "
    "prior none/Minnesota/mean/both (scalar and vector rho/mean, kappa 0..2), 1-3 variants (constructor or estimate argument), six "
    "frequencies (Y,H,Q,M,D,integer) with drawn start periods, data = noisy stable VAR / random walk / white noise / noise-free VAR, NaN cells "
    "at random in endogenous and exogenous series, spans starting at the first data period or running past the end; after each estimate: "
    "get_system_matrices, get_mean, get_eigenvalues, get_acov(0..3), simulate on every maximal run of fitted periods and on a sub-span. "
    "distinct key = (n_endog, order, n_exog, intercept, dof, prior kind, has missing rows, n_variants, operation); "
    "non-trivial = not a scalar AR(1) without exogenous variables."
)
ASSUMPTIONS = [
    "numpy.linalg (lstsq, solve, eigvals, cond) and scipy.optimize.linear_sum_assignment are the trusted base",
    "Series.get_data(span), Period arithmetic and Databox item access are used to read inputs and outputs (properties C10/C12/C19)",
    "regressions with cond(Z) > 1e4 or rank deficiency are skipped as inconclusive; tolerance for coefficients max(1e-9, 200 eps cond^2)",
    "the layout A=[A_1..A_p], B, c of get_system_matrices is the documented one; y_t = sum A_i y_{t-i} + B x_t + c + u_t",
]
ANCHORS = [
    "irispie.red_vars._estimators:_estimate_variant",
    "irispie.red_vars._estimators:_get_estimation_data",
    "irispie.red_vars._estimators:get_where_observations",
    "irispie.red_vars._estimators:_write_residual_estimates",
    "irispie.fords.least_squares:ordinary_least_squares",
    "irispie.red_vars.prior_obs:arrays_from_prior_obs",
    "irispie.red_vars.prior_obs:MinnesotaPriorObs.generate_y1",
    "irispie.red_vars.prior_obs:MeanPriorObs.generate_y0",
    "irispie.red_vars._variants:Variant._populate_companion_T",
    "irispie.red_vars._variants:Variant.get_acov",
    "irispie.red_vars._variants:Variant.get_mean",
    "irispie.red_vars._variants:Variant._populate_eigenvalues",
    "irispie.red_vars._simulators:_simulate",
    "irispie.red_vars._simulators:_simulate_exogenous_impact",
    "irispie.red_vars._invariants:Invariant._populate_solution_vectors",
    "irispie.fords.simulators:simulate_flat",
    "irispie.fords.simulators:get_init_xi",
]

_STATE = {"last_simulate": None, "truth": None}


# ------------------------------------------------------------------------------
# Helpers shared by monitors
# ------------------------------------------------------------------------------


def _bind(orig, self, args, kwargs):
    ba = inspect.signature(orig).bind(self, *args, **kwargs)
    ba.apply_defaults()
    return ba.arguments


def _model_facts(model):
    return {
        "endog": tuple(model.get_endogenous_names()),
        "exog": tuple(model.get_exogenous_names()),
        "resid": tuple(model.get_residual_names()),
        "order": int(model.order),
        "intercept": bool(model.has_intercept),
    }


def _read(db, names, first, last, order, nv, missing_ok=False):
    """(nv, len(names), order + len(span)) array of the data in a databox on presample+span; None rows when absent"""
    import irispie
    span = irispie.Span(first - order, last)
    TL = (last - first) + 1 + order
    out = np.full((nv, len(names), TL), np.nan)
    present = []
    for i, name in enumerate(names):
        try:
            s = db[name]
        except Exception:
            if missing_ok:
                present.append(False)
                continue
            raise
        present.append(True)
        d = np.asarray(s.get_data(span), dtype=float)
        d = d.reshape(TL, -1)
        for v in range(nv):
            out[v, i, :] = d[:, min(v, d.shape[1] - 1)]
    return out, present


def _prior_spec(prior_obs):
    """JSON-like reading of the public attributes of the prior objects; None if something unknown is passed"""
    if prior_obs is None:
        return []
    import irispie
    items = list(prior_obs) if not isinstance(prior_obs, (irispie.MinnesotaPriorObs, irispie.MeanPriorObs)) else [prior_obs]
    spec = []
    for p in items:
        if type(p) is irispie.MinnesotaPriorObs:
            spec.append({"type": "minnesota", "rho": np.asarray(p.rho, dtype=float).tolist(), "mu": float(p.mu), "kappa": float(p.kappa)})
        elif type(p) is irispie.MeanPriorObs:
            spec.append({"type": "mean", "mean": np.asarray(p.mean, dtype=float).tolist(), "mu": float(p.mu)})
        else:
            return None
    return spec


def _prior_kind(spec):
    kinds = sorted({p["type"] for p in spec})
    return "+".join(kinds) if kinds else "none"


def _systems(model):
    out = []
    for s in model.get_system_matrices(unpack_singleton=False):
        out.append((None if s.A is None else np.array(s.A, dtype=float),
                    None if s.B is None else np.array(s.B, dtype=float),
                    None if s.c is None else np.array(s.c, dtype=float),
                    None if s.cov_residuals is None else np.array(s.cov_residuals, dtype=float)))
    return out


def _key(f, dof, prior, missing, nv, op):
    return (len(f["endog"]), f["order"], len(f["exog"]), f["intercept"], dof, prior, missing, nv, op)


def _nontrivial(f):
    return not (len(f["endog"]) == 1 and f["order"] == 1 and len(f["exog"]) == 0)


# ------------------------------------------------------------------------------
# Monitors
# ------------------------------------------------------------------------------


def install():
    import irispie
    RedVAR = irispie.RedVAR

    # ---------------- estimate
    def make_estimate(orig):
        def estimate(self, *args, **kwargs):
            c = rt.ctx()
            if c is None:
                return orig(self, *args, **kwargs)
            snap = None
            try:
                snap = _snapshot_estimate(orig, self, args, kwargs)
            except Exception as exc:
                c.inconc(f"estimate:monitor-error:snapshot:{type(exc).__name__}")
            raised = None
            result = None
            try:
                result = orig(self, *args, **kwargs)
            except Exception as exc:
                raised = exc
            if snap is not None:
                try:
                    _check_estimate(c, self, snap, raised, result)
                except Exception as exc:
                    c.inconc(f"estimate:monitor-error:{type(exc).__name__}")
            if raised is not None:
                raise raised
            return result
        return estimate
    rt.wrap_attr(RedVAR, "estimate", make_estimate)

    # ---------------- simulate
    def make_simulate(orig):
        def simulate(self, *args, **kwargs):
            c = rt.ctx()
            if c is None:
                return orig(self, *args, **kwargs)
            snap = None
            _STATE["last_simulate"] = None
            try:
                snap = _snapshot_simulate(orig, self, args, kwargs)
            except Exception as exc:
                c.inconc(f"simulate:monitor-error:snapshot:{type(exc).__name__}")
            raised = None
            result = None
            try:
                result = orig(self, *args, **kwargs)
            except Exception as exc:
                raised = exc
            if snap is not None:
                try:
                    _check_simulate(c, self, snap, raised, result)
                except Exception as exc:
                    c.inconc(f"simulate:monitor-error:{type(exc).__name__}")
            if raised is not None:
                raise raised
            return result
        return simulate
    rt.wrap_attr(RedVAR, "simulate", make_simulate)

    # ---------------- getters
    def make_getter(name, checker):
        def make(orig):
            def getter(self, *args, **kwargs):
                result = orig(self, *args, **kwargs)
                c = rt.ctx()
                if c is not None:
                    try:
                        b = _bind(orig, self, args, kwargs)
                        unpack = bool(b.get("unpack_singleton", True)) and self.num_variants == 1
                        per_variant = [result] if unpack else list(result)
                        checker(c, self, b, per_variant)
                    except Exception as exc:
                        c.inconc(f"{name}:monitor-error:{type(exc).__name__}")
                return result
            getter.__name__ = name
            return getter
        return make
    rt.wrap_attr(RedVAR, "get_mean", make_getter("get_mean", _check_get_mean))
    rt.wrap_attr(RedVAR, "get_eigenvalues", make_getter("get_eigenvalues", _check_get_eigenvalues))
    rt.wrap_attr(RedVAR, "get_acov", make_getter("get_acov", _check_get_acov))


# ---------------- estimate


def _snapshot_estimate(orig, model, args, kwargs):
    b = _bind(orig, model, args, kwargs)
    f = _model_facts(model)
    span = tuple(b["span"])
    first, last = span[0], span[-1]
    nv = b.get("num_variants")
    nv = int(model.num_variants if nv is None else nv)
    snap = {"facts": f, "nv": nv, "first": first, "last": last, "dof": bool(b.get("dof_correction", False)),
            "omit_missing": bool(b.get("omit_missing", True)), "interpret_span": b.get("interpret_span", "short"),
            "priors": _prior_spec(b.get("prior_obs")), "input_db": b["input_data"]}
    if last - first + 1 != len(span):
        snap["skip"] = "span-not-contiguous"
        return snap
    Y, _ = _read(b["input_data"], f["endog"], first, last, f["order"], nv)
    X, _ = _read(b["input_data"], f["exog"], first, last, f["order"], nv)
    snap["Y"], snap["X"] = Y, X
    return snap


def _check_estimate(c, model, snap, raised, result):
    f = snap["facts"]
    n, order, m, intercept = len(f["endog"]), f["order"], len(f["exog"]), f["intercept"]
    nv = snap["nv"]
    if snap.get("skip"):
        c.inconc("estimate:" + snap["skip"])
        return
    if snap["priors"] is None:
        c.inconc("estimate:unknown-prior-object")
        return
    if snap["interpret_span"] != "short":
        c.inconc("estimate:interpret_span-long-not-decided")
        return
    Y, X = snap["Y"], snap["X"]
    stacks = [orc.stack(Y[v], X[v], order, intercept) for v in range(nv)]
    has_missing = any(bool((~w).any()) for _, _, w in stacks)
    if not snap["omit_missing"] and has_missing:
        c.inconc("estimate:omit_missing-false-on-incomplete-data")
        return
    prior_kind = _prior_kind(snap["priors"])
    key = _key(f, snap["dof"], prior_kind, has_missing, nv, "estimate")
    k = n * order + m + int(intercept)

    # --- is the input inside the quantifier (every variant has a well conditioned regression)?
    inside = True
    for Y0, Z, w in stacks:
        Ld, Rd = orc.prior_dummies(snap["priors"], n, order, m, intercept, np.ones(n))
        Za = np.hstack([Z[:, w], Rd])
        if Za.shape[1] < k:
            inside = False
            break
        sv = np.linalg.svd(Za, compute_uv=False)
        if sv[-1] <= 0 or sv[0] / sv[-1] > orc.COND_LIMIT:
            inside = False
            break
    if raised is not None:
        if not inside:
            c.inconc(f"estimate:raised-outside-quantifier:{type(raised).__name__}")
            return
        c.event("estimate", "raised", key=key, nontrivial=_nontrivial(f))
        if isinstance(raised, AttributeError) and not intercept and "reshape" in str(raised):
            vkey = "estimate:raised:AttributeError:intercept-false-c-is-none"
        else:
            vkey = f"estimate:raised:{type(raised).__name__}"
        c.violation(vkey, f"estimate raised {type(raised).__name__}: {raised} (n={n}, order={order}, exog={m}, intercept={intercept}, "
                          f"prior={prior_kind}, variants={nv})")
        return
    if not inside:
        c.inconc("estimate:ill-conditioned-or-too-few-observations")
        return

    systems = _systems(model)
    if len(systems) != nv:
        c.event("estimate", "returned", key=key, nontrivial=_nontrivial(f))
        c.violation("estimate:variant-count", f"{len(systems)} estimated variants for num_variants={nv}")
        return
    U, present = _read(result, f["resid"], snap["first"], snap["last"], order, nv, missing_ok=True)
    if not all(present):
        c.event("estimate", "returned", key=key, nontrivial=_nontrivial(f))
        c.violation("estimate:residual-series-missing", f"output databox lacks {[r for r, p in zip(f['resid'], present) if not p]}")
        return
    truth = _STATE.get("truth")
    for v in range(nv):
        A, B, cc, cov = systems[v]
        tr = None
        if truth is not None and truth.get("variant", 0) == v:
            tr = (np.array(truth["A"]), np.array(truth["B"]).reshape(n, m), np.array(truth["c"]))
        status, problems, info = orc.check_estimate(Y[v], X[v], order, intercept, snap["dof"], snap["priors"],
                                                    A, B, cc, cov, U[v], truth=tr)
        if status != "ok":
            c.inconc("estimate:" + status)
            continue
        c.event("estimate", "noise-free" if tr is not None else ("prior:" + prior_kind if snap["priors"] else "plain"),
                key=key, nontrivial=_nontrivial(f))
        if "cov_denominator" in info:
            c.extra["cov_denominator:" + info["cov_denominator"]] = c.extra.get("cov_denominator:" + info["cov_denominator"], 0) + 1
        if snap["priors"]:
            c.extra["dummy_scaling:" + info.get("dummy_scaling", "?")] = c.extra.get("dummy_scaling:" + info.get("dummy_scaling", "?"), 0) + 1
        for pk, msg in problems:
            c.violation(pk, f"variant {v}: {msg} (n={n}, order={order}, exog={m}, intercept={intercept}, dof={snap['dof']}, prior={prior_kind})")


# ---------------- simulate


def _snapshot_simulate(orig, model, args, kwargs):
    b = _bind(orig, model, args, kwargs)
    f = _model_facts(model)
    span = tuple(b["span"])
    first, last = span[0], span[-1]
    extra = dict(b.get("kwargs", {}))
    nv = extra.get("num_variants")
    nv = int(model.num_variants if nv is None else nv)
    snap = {"facts": f, "nv": nv, "first": first, "last": last, "deviation": bool(b.get("deviation", False)),
            "residuals_from_data": bool(b.get("residuals_from_data", True)), "systems": _systems(model), "len": len(span)}
    if last - first + 1 != len(span):
        snap["skip"] = "span-not-contiguous"
        return snap
    db = b["input_db"]
    snap["Y"], _ = _read(db, f["endog"], first, last, f["order"], nv)
    snap["X"], _ = _read(db, f["exog"], first, last, f["order"], nv)
    U, present = _read(db, f["resid"], first, last, f["order"], nv, missing_ok=True)
    U = np.where(np.isnan(U), 0.0, U)  # residuals missing in the databox default to zero
    if not snap["residuals_from_data"]:
        U = np.zeros_like(U)
    snap["U"] = U
    return snap


def _check_simulate(c, model, snap, raised, result):
    f = snap["facts"]
    n, order, m, intercept = len(f["endog"]), f["order"], len(f["exog"]), f["intercept"]
    nv = snap["nv"]
    verdict = {"status": "skipped"}
    _STATE["last_simulate"] = verdict
    if snap.get("skip"):
        c.inconc("simulate:" + snap["skip"])
        return
    if snap["deviation"]:
        c.inconc("simulate:deviation-not-decided")
        return
    systems = snap["systems"]
    if not systems or any(s[0] is None for s in systems):
        c.inconc("simulate:model-not-estimated")
        return
    key = _key(f, None, None, None, nv, "simulate" if snap["residuals_from_data"] else "simulate-no-residuals")
    expected = []
    for v in range(nv):
        A, B, cc, _ = systems[min(v, len(systems) - 1)]
        expected.append(orc.simulate(A, B, cc, snap["Y"][v], snap["X"][v], snap["U"][v], order))
    expected = np.array(expected)
    if not np.all(np.isfinite(expected[:, :, :order])) or (m and not np.all(np.isfinite(snap["X"][:, :, order:]))):
        c.inconc("simulate:initial-condition-or-exogenous-data-missing")
        verdict["status"] = "inconclusive"
        return
    if not np.all(np.isfinite(expected)) or np.max(np.abs(expected)) > 1e8:
        c.inconc("simulate:explosive-path")
        verdict["status"] = "inconclusive"
        return
    # conditioning certificate: rounding errors are amplified by the powers of the companion matrix along the span
    amp = max(orc.power_norm(s[0], n, order, snap["len"]) for s in systems)
    if not amp <= 1e3:
        c.inconc("simulate:rounding-amplified-by-unstable-dynamics")
        verdict["status"] = "inconclusive"
        return
    c.event("simulate", f"order={order}", key=key, nontrivial=_nontrivial(f))
    if raised is not None:
        msg = f"simulate raised {type(raised).__name__}: {raised} (n={n}, order={order}, exog={m}, span length={snap['len']})"
        if isinstance(raised, ValueError) and m > 0 and order >= 2 and "broadcast" in str(raised):
            vkey = "simulate:raised:ValueError:exogenous-impact-not-companion-sized"
        elif isinstance(raised, IndexError) and order >= 3 and snap["len"] < order - 1:
            vkey = "simulate:initial-condition-read-from-leads"
        else:
            vkey = f"simulate:raised:{type(raised).__name__}"
        verdict["status"] = "violation"
        c.violation(vkey, msg)
        return
    got, present = _read(result, f["endog"], snap["first"], snap["last"], order, nv, missing_ok=True)
    if not all(present):
        verdict["status"] = "violation"
        c.violation("simulate:endogenous-series-missing-in-output", f"{[r for r, p in zip(f['endog'], present) if not p]}")
        return
    scale = 1.0 + float(np.max(np.abs(expected)))
    diff = np.abs(got[:, :, order:] - expected[:, :, order:])
    err = float(np.nanmax(np.where(np.isnan(diff), np.inf, diff))) / scale
    verdict.update(status="ok", err=err)
    if err > 1e-8:
        verdict["status"] = "violation"
        vkey = "simulate:output-is-not-the-var-recursion"
        if order >= 2:
            for label, flag in (("simulate:initial-condition-read-from-leads", False),
                                ("simulate:exogenous-impact-added-to-whole-companion-state(n=1)", True)):
                if flag and not (n == 1 and m > 0):
                    continue
                same = True
                for v in range(nv):
                    A, B, cc, _ = systems[min(v, len(systems) - 1)]
                    emu = orc.emulate_known_simulate_defects(A, B, cc, snap["Y"][v], snap["X"][v], snap["U"][v], order,
                                                             exog_over_whole_state=flag)
                    if emu is None or not np.allclose(got[v][:, order:], emu[:, order:], rtol=1e-7, atol=1e-8 * scale, equal_nan=True):
                        same = False
                if same:
                    vkey = label
                    break
        c.violation(vkey, f"max |simulate - direct recursion| / (1+|y|) = {err:.3e} (n={n}, order={order}, exog={m}, variants={nv}, "
                          f"span length={snap['len']})")


# ---------------- getters


def _getter_key(model, op):
    f = _model_facts(model)
    return f, _key(f, None, None, None, int(model.num_variants), op)


def _check_get_mean(c, model, b, per_variant):
    f, key = _getter_key(model, "get_mean")
    n, order = len(f["endog"]), f["order"]
    for v, (A, B, cc, cov) in enumerate(_systems(model)):
        if A is None:
            c.inconc("get_mean:model-not-estimated")
            continue
        want, cond = orc.mean(A, cc, n, order)
        if want is None or cond > 1e8:
            c.inconc("get_mean:unit-root(ill-conditioned)")
            continue
        got = np.asarray(per_variant[v], dtype=float).reshape(-1)
        c.event("get_mean", "intercept" if cc is not None else "no-intercept", key=key, nontrivial=_nontrivial(f))
        if got.shape != (n,):
            c.violation("get_mean:shape", f"variant {v}: shape {got.shape} for n={n}")
            continue
        err = float(np.max(np.abs(got - want)) / (1.0 + np.max(np.abs(want))))
        if not err <= 1e-10 * max(1.0, cond):
            c.violation("get_mean:not-inverse-of-I-minus-sum-A-times-c",
                        f"variant {v}: max |get_mean - (I-sum A_i)^-1 c| / (1+|.|) = {err:.3e} (n={n}, order={order}, cond={cond:.1f})")


def _check_get_eigenvalues(c, model, b, per_variant):
    f, key = _getter_key(model, "get_eigenvalues")
    n, order = len(f["endog"]), f["order"]
    for v, (A, B, cc, cov) in enumerate(_systems(model)):
        if A is None:
            c.inconc("get_eigenvalues:model-not-estimated")
            continue
        want = orc.eigenvalues(A, n, order)
        got = np.asarray(list(per_variant[v]), dtype=complex)
        c.event("get_eigenvalues", f"N={n * order}", key=key, nontrivial=_nontrivial(f))
        if got.size != n * order:
            c.violation("get_eigenvalues:count", f"variant {v}: {got.size} eigenvalues for n*order={n * order}")
            continue
        dist = orc.multiset_distance(got, want)
        tol = orc.eig_tolerance(want) * (1.0 + float(np.max(np.abs(want))))
        if not dist <= tol:
            c.violation("get_eigenvalues:not-companion-eigenvalues",
                        f"variant {v}: multiset distance {dist:.3e} > {tol:.1e} (n={n}, order={order})")
            continue
        # the reported summary of the eigenvalues: spectral radius of the companion form, and the stability flag derived from it
        # (a dominant root that is negative or complex has a smaller REAL part than some other root)
        try:
            rad = float(np.max(np.abs(want))) if want.size else 0.0
            got_rad = model.get_max_abs_eigenvalue(unpack_singleton=False)[v]
            got_stab = model.get_stability(unpack_singleton=False)[v]
        except Exception as exc:
            c.inconc(f"get_max_abs_eigenvalue:raised:{type(exc).__name__}")
            continue
        dominant = "none"
        if want.size:
            z = want[int(np.argmax(np.abs(want)))]
            dominant = "complex" if abs(z.imag) > 1e-9 else ("negative" if z.real < 0 else "positive")
        c.event("get_eigenvalues", f"max-abs:{dominant}", key=("maxabs", dominant, n, order), nontrivial=dominant != "positive")
        if got_rad is None or not abs(float(got_rad) - rad) <= tol + 1e-9 * (1 + rad):
            c.violation("get_max_abs_eigenvalue:not-the-spectral-radius",
                        f"variant {v}: get_max_abs_eigenvalue() = {got_rad!r}, max |eigenvalue of the companion matrix| = {rad!r} (dominant root {dominant})")
        elif abs(rad - 1) > 1e-6 and bool(got_stab) != (rad < 1):
            c.violation("get_stability:contradicts-the-spectral-radius", f"variant {v}: get_stability() = {got_stab!r} with spectral radius {rad!r}")


def _check_get_acov(c, model, b, per_variant):
    f, key = _getter_key(model, "get_acov")
    n, order = len(f["endog"]), f["order"]
    up_to = int(b.get("up_to_order", 0))
    for v, (A, B, cc, cov) in enumerate(_systems(model)):
        if A is None or cov is None:
            c.inconc("get_acov:model-not-estimated")
            continue
        want, cond, radius = orc.acov(A, cov, n, order, up_to)
        if want is None:
            c.inconc("get_acov:not-stable-or-ill-conditioned")
            continue
        got = [np.asarray(g, dtype=float) for g in per_variant[v]]
        c.event("get_acov", f"up_to_order={up_to}", key=key + (up_to,), nontrivial=_nontrivial(f))
        if len(got) != up_to + 1 or any(g.shape != (n, n) for g in got):
            c.violation("get_acov:shape", f"variant {v}: {len(got)} matrices {[g.shape for g in got]} for up_to_order={up_to}, n={n}")
            continue
        scale = 1.0 + float(np.max(np.abs(want[0])))
        tol = 1e-11 * max(1.0, cond)
        e0 = float(np.max(np.abs(got[0] - want[0])) / scale)
        if not e0 <= tol:
            c.violation("get_acov:order-0-does-not-solve-lyapunov",
                        f"variant {v}: max |acov0 - Lyapunov solution| / (1+|.|) = {e0:.3e} > {tol:.1e} (n={n}, order={order}, radius={radius:.3f})")
            continue
        if up_to:
            e_direct = max(float(np.max(np.abs(g - w))) for g, w in zip(got[1:], want[1:])) / scale
            e_transp = max(float(np.max(np.abs(g - w.T))) for g, w in zip(got[1:], want[1:])) / scale
            if not min(e_direct, e_transp) <= tol:
                c.violation("get_acov:higher-orders-not-T^i-times-acov0",
                            f"variant {v}: error {min(e_direct, e_transp):.3e} > {tol:.1e} (n={n}, order={order}, up_to_order={up_to})")


# ------------------------------------------------------------------------------
# Workload
# ------------------------------------------------------------------------------

_FREQS = ["Y", "H", "Q", "M", "D", "I"]


def _period(freq, start):
    import irispie
    if freq == "Y":
        return irispie.yy(int(start[0]))
    if freq == "H":
        return irispie.hh(int(start[0]), int(start[1]))
    if freq == "Q":
        return irispie.qq(int(start[0]), int(start[1]))
    if freq == "M":
        return irispie.mm(int(start[0]), int(start[1]))
    if freq == "D":
        return irispie.dd(int(start[0]), int(start[1]), int(start[2]))
    return irispie.ii(int(start[0]))


def _draw_start(rng, freq):
    y = int(rng.integers(1950, 2031))
    if freq == "Y":
        return [y]
    if freq == "H":
        return [y, int(rng.integers(1, 3))]
    if freq == "Q":
        return [y, int(rng.integers(1, 5))]
    if freq == "M":
        return [y, int(rng.integers(1, 13))]
    if freq == "D":
        mth = int(rng.integers(1, 13))
        return [y, mth, int(rng.integers(20, 29)) if mth == 2 else int(rng.integers(1, 31))]
    return [int(rng.integers(-20, 200))]


def _make_case(rng, directed=None):
    d = directed or {}
    n = d.get("n", int(rng.integers(1, 5)))
    order = d.get("order", int(rng.integers(1, 5)))
    m = d.get("m", int(rng.choice([0, 0, 1, 2])))
    intercept = d.get("intercept", bool(rng.random() < 0.88))
    dof = d.get("dof", bool(rng.random() < 0.5))
    nv = d.get("nv", int(rng.choice([1, 1, 1, 1, 2, 3])))
    k = n * order + m + int(intercept)
    freq = d.get("freq", _FREQS[int(rng.integers(0, len(_FREQS)))])
    gen = d.get("gen", str(rng.choice(["var", "var", "var", "walk", "white", "noise_free"])))
    has_missing = d.get("missing", bool(rng.random() < 0.4)) and gen != "noise_free"
    pk = d.get("prior", str(rng.choice(["none", "none", "none", "minnesota", "mean", "both"])))
    if gen == "noise_free":
        pk = "none"
        Tb = k + int(rng.integers(3, 12))
    else:
        Tb = k + int(rng.integers(n + 3, 45)) + (12 if has_missing else 0)
    TL = Tb + order
    priors = []
    if pk in ("minnesota", "both"):
        rho = float(rng.choice([0.0, 0.5, 1.0])) if rng.random() < 0.6 else [float(x) for x in rng.uniform(0, 1, n).round(2)]
        priors.append({"type": "minnesota", "rho": rho, "mu": float(rng.choice([0.5, 1.0, 3.0, np.sqrt(Tb)])),
                       "kappa": float(rng.choice([0, 1, 2])), "mu_as": str(rng.choice(["mu", "mu2"]))})
    if pk in ("mean", "both"):
        mean = float(rng.choice([0.0, 1.0])) if rng.random() < 0.4 else [float(x) for x in rng.normal(0, 2, n).round(2)]
        priors.append({"type": "mean", "mean": mean, "mu": float(rng.choice([0.5, 1.0, 3.0, np.sqrt(Tb)])), "mu_as": str(rng.choice(["mu", "mu2"]))})
    Ys, Xs = [], []
    truth = None
    for v in range(nv):
        X = rng.standard_normal((m, TL)) * (rng.choice([0.5, 1.0, 4.0]) if m else 1.0)
        if m and rng.random() < 0.3:
            X[0] = (np.arange(TL) % 7 == 3).astype(float)  # a dummy-like regressor
        if gen in ("var", "noise_free"):
            radius = float(rng.uniform(0.5, 0.97))
            A, B, cvec = orc.draw_stable_var(rng, n, order, m, radius)
            if not intercept:
                cvec = np.zeros(n)
            Y = orc.generate(rng, A, B, cvec, order, TL, X, 0.0 if gen == "noise_free" else float(rng.choice([0.1, 1.0, 3.0])))
            if gen == "noise_free" and v == 0:
                truth = {"variant": 0, "A": A.tolist(), "B": B.tolist(), "c": cvec.tolist()}
        elif gen == "walk":
            Y = np.cumsum(rng.standard_normal((n, TL)), axis=1) + rng.normal(0, 5, (n, 1))
        else:
            Y = rng.standard_normal((n, TL)) * rng.choice([0.01, 1.0, 100.0]) + rng.normal(0, 1, (n, 1))
        if has_missing:
            n_holes = int(rng.integers(1, 4))
            for _ in range(n_holes):
                t = int(rng.integers(0, TL))
                if m and rng.random() < 0.35:
                    X[int(rng.integers(0, m)), t] = np.nan
                elif rng.random() < 0.3:
                    Y[:, t] = np.nan
                else:
                    Y[int(rng.integers(0, n)), t] = np.nan
        Ys.append(Y.tolist())
        Xs.append(X.tolist())
    span_mode = d.get("span", str(rng.choice(["inner", "inner", "inner", "from_data_start", "past_data_end"])))
    if gen == "noise_free":
        span_mode = "inner"
    case = {
        "kind": "var", "freq": freq, "start": _draw_start(rng, freq), "n": n, "order": order, "m": m, "intercept": intercept,
        "dof": dof, "nv": nv, "nv_via": str(rng.choice(["estimate", "constructor"])) if nv > 1 else "none",
        "priors": priors, "gen": gen, "Y": Ys, "X": Xs, "span_mode": span_mode, "truth": truth,
        "acov_order": int(rng.integers(0, 4)), "omit_missing": bool(has_missing or span_mode != "inner" or rng.random() < 0.7),
        "names": str(rng.choice(["plain", "long"])),
    }
    if directed:
        case["directed"] = d.get("label", "directed")
    return case


def _build(case):
    import irispie
    n, m, order, nv = case["n"], case["m"], case["order"], case["nv"]
    Y = np.array(case["Y"], dtype=float)   # nv x n x TL
    X = np.array(case["X"], dtype=float).reshape(nv, m, -1) if m else np.zeros((nv, 0, Y.shape[2]))
    TL = Y.shape[2]
    start = _period(case["freq"], case["start"])
    if case.get("names") == "long":
        en = [f"endogenous_variable_{i}" for i in range(n)]
        xn = [f"exo_{i}_x" for i in range(m)]
    else:
        en = [f"y{i}" for i in range(n)]
        xn = [f"x{i}" for i in range(m)]
    db = irispie.Databox()
    for i, name in enumerate(en):
        db[name] = irispie.Series(start=start, values=np.ascontiguousarray(Y[:, i, :].T))
    for i, name in enumerate(xn):
        db[name] = irispie.Series(start=start, values=np.ascontiguousarray(X[:, i, :].T))
    mode = case.get("span_mode", "inner")
    if mode == "from_data_start":
        first, last = start, start + (TL - 1)
    elif mode == "past_data_end":
        first, last = start + order, start + (TL + 1)
    else:
        first, last = start + order, start + (TL - 1)
    priors = []
    for p in case["priors"]:
        mu_kw = {"mu": p["mu"]} if p.get("mu_as", "mu") == "mu" else {"mu2": p["mu"] ** 2}
        if p["type"] == "minnesota":
            rho = p["rho"] if not isinstance(p["rho"], list) else np.array(p["rho"], dtype=float)
            priors.append(irispie.MinnesotaPriorObs(rho=rho, kappa=p["kappa"], **mu_kw))
        else:
            mean = p["mean"] if not isinstance(p["mean"], list) else np.array(p["mean"], dtype=float)
            priors.append(irispie.MeanPriorObs(mean=mean, **mu_kw))
    prior_arg = None if not priors else (priors[0] if len(priors) == 1 else tuple(priors))
    return db, en, xn, start, first, last, prior_arg


def _fitted_runs(case, first_index, last_index):
    """maximal runs (in data column indexes) of periods that are complete in EVERY variant"""
    n, m, order, nv = case["n"], case["m"], case["order"], case["nv"]
    Y = np.array(case["Y"], dtype=float)
    TL = Y.shape[2]
    X = np.array(case["X"], dtype=float).reshape(nv, m, TL) if m else np.zeros((nv, 0, TL))
    ok = np.zeros(TL, dtype=bool)
    for t in range(max(order, first_index), min(TL - 1, last_index) + 1):
        ok[t] = all(np.all(np.isfinite(Y[v][:, t - order:t + 1])) and np.all(np.isfinite(X[v][:, t])) for v in range(nv))
    runs = []
    t = 0
    while t < TL:
        if ok[t]:
            s = t
            while t + 1 < TL and ok[t + 1]:
                t += 1
            runs.append((s, t))
        t += 1
    return runs


def _run_case(c, case):
    import irispie
    with c.running(case):
        with rt.quiet():
            try:
                db, en, xn, start, first, last, prior_arg = _build(case)
            except Exception as exc:
                c.inconc(f"harness:build:{type(exc).__name__}")
                return
            order, nv = case["order"], case["nv"]
            ctor = {"order": order, "intercept": case["intercept"]}
            if xn:
                ctor["exogenous_names"] = xn
            if case.get("nv_via") == "constructor":
                ctor["num_variants"] = nv
            model = irispie.RedVAR(en, **ctor)
            est_kw = {"dof_correction": case["dof"], "omit_missing": case.get("omit_missing", True)}
            if prior_arg is not None:
                est_kw["prior_obs"] = prior_arg
            if nv > 1 and case.get("nv_via") != "constructor":
                est_kw["num_variants"] = nv
            _STATE["truth"] = case.get("truth")
            try:
                est_db = model.estimate(db, first >> last, **est_kw)
            except Exception:
                return   # judged by the monitor
            finally:
                _STATE["truth"] = None
            try:
                model.get_mean()
                model.get_eigenvalues()
                model.get_acov(up_to_order=case.get("acov_order", 0))
                if nv == 1:
                    model.get_mean(unpack_singleton=False)
                    model.get_acov()
            except Exception as exc:
                # inside the quantifier only for a finite, clearly stable estimated system
                try:
                    ok = all(np.all(np.isfinite(A)) and (cc is None or np.all(np.isfinite(cc))) and np.all(np.isfinite(cov))
                             and float(np.max(np.abs(orc.eigenvalues(A, case["n"], order)))) < 0.99
                             for A, B, cc, cov in _systems(model))
                except Exception:
                    ok = False
                if ok:
                    c.violation(f"getters:raised:{type(exc).__name__}", f"{type(exc).__name__}: {exc} on a finite stable estimated VAR")
                else:
                    c.inconc(f"getters:raised-on-nonfinite-or-unstable-system:{type(exc).__name__}")
            # --- re-simulation over every maximal run of fitted periods (and a tail of the first run)
            fi, li = first - start, last - start
            runs = _fitted_runs(case, fi, li)
            todo = list(runs[:3])
            if runs and runs[0][1] - runs[0][0] >= 4:
                s, e = runs[0]
                todo.append((s + (e - s) // 2, e))
            Y = np.array(case["Y"], dtype=float)
            for s, e in todo:
                try:
                    sim_db = model.simulate(est_db, (start + s) >> (start + e))
                except Exception:
                    continue   # judged by the monitor
                verdict = _STATE.get("last_simulate") or {}
                try:
                    got, _ = _read(sim_db, tuple(en), start + s, start + e, 0, nv)
                    want = Y[:, :, s:e + 1]
                    err = float(np.max(np.abs(got - want)) / (1.0 + np.max(np.abs(want))))
                    f = {"endog": tuple(en), "exog": tuple(xn), "order": order, "intercept": case["intercept"]}
                    c.event("roundtrip", "fitted-run", key=_key(f, case["dof"], _prior_kind(case["priors"]), len(runs) > 1, nv, "roundtrip"),
                            nontrivial=_nontrivial(f))
                    if not err <= 1e-7 and verdict.get("status") == "ok":
                        c.violation("roundtrip:estimation-data-not-reproduced",
                                    f"simulate(estimate output) differs from the data by {err:.3e} although each step passed its own check")
                except Exception as exc:
                    c.inconc(f"roundtrip:monitor-error:{type(exc).__name__}")


_DIRECTED = [
    {"label": "KF:intercept-false", "n": 2, "order": 1, "m": 0, "intercept": False, "nv": 1, "gen": "var", "missing": False, "prior": "none", "span": "inner"},
    {"label": "KF:order2-initial-condition", "n": 2, "order": 2, "m": 0, "intercept": True, "nv": 1, "gen": "var", "missing": False, "prior": "none", "span": "inner"},
    {"label": "KF:order2-exogenous", "n": 2, "order": 2, "m": 1, "intercept": True, "nv": 1, "gen": "var", "missing": False, "prior": "none", "span": "inner"},
    {"label": "order1-exogenous", "n": 3, "order": 1, "m": 2, "intercept": True, "nv": 2, "gen": "var", "missing": True, "prior": "both", "span": "inner"},
]


def _run_repo_test(c, case):
    """the repository's own tests/vars/red_var_test.py (real FRED data, order 2, 100 resampled variants) under the monitors"""
    import importlib.util
    import os
    path = os.path.join("/repo" if not os.path.isdir(os.path.join(rt.REPO, "tests")) else rt.REPO, "tests", "vars", "red_var_test.py")
    if not os.path.exists(path):
        c.inconc("repo_test:file-missing")
        return
    with c.running(case):
        with rt.quiet():
            try:
                spec = importlib.util.spec_from_file_location("c18_repo_red_var_test", path)
                mod = importlib.util.module_from_spec(spec)
                spec.loader.exec_module(mod)
            except Exception as exc:
                c.inconc(f"repo_test:import:{type(exc).__name__}")
                return
            for name in ("test_plain", "test_minnesota", "test_mean", "test_combined"):
                fn = getattr(mod, name, None)
                if fn is None:
                    continue
                try:
                    fn()
                except Exception as exc:
                    c.note(f"repo_test:{name}:raised:{type(exc).__name__}")


def replay(c, case):
    install()
    if case.get("kind") == "repo_test":
        _run_repo_test(c, case)
    else:
        _run_case(c, case)


def _sample_view(case):
    view = {k: v for k, v in case.items() if k not in ("Y", "X")}
    view["Y"] = "%d variant(s) x %d series x %d periods" % (len(case["Y"]), len(case["Y"][0]), len(case["Y"][0][0]))
    view["Y_variant0_series0_head"] = case["Y"][0][0][:5]
    if case["m"]:
        view["X_variant0_series0_head"] = case["X"][0][0][:5]
    return view


def shard(c):
    install()
    rng = c.rng
    for d in _DIRECTED:
        case = _make_case(rng, d)
        _run_case(c, case)
    if c.shard == 0:
        _run_repo_test(c, {"kind": "repo_test"})
    n_cases = c.scale(1500, 18000)
    for i in range(n_cases):
        if c.out_of_time():
            break
        case = _make_case(rng)
        try:
            _run_case(c, case)
        except Exception as exc:
            c.inconc(f"harness:{type(exc).__name__}")
        if i in (0, 5, 11):
            c.sample(_sample_view(case))
