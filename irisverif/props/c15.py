"""
C15 -- model-implied autocovariances solve the solved model's Lyapunov equation

Deciding monitors: wrappers on Simultaneous.get_acov and get_acorr (any model, any caller). For every variant the
oracle takes the SQUARE solution (T, P, Z, H from get_solution()) and the stds (get_stds()), diagonalises T with
numpy.linalg.eig, treats modes with | |lambda| - 1 | <= 1e-8 as unit roots, and computes in closed form
    cov(z_i, z_j) = [V^-1 P S P' V^-H]_ij / (1 - lambda_i conj(lambda_j))     (stable modes)
    cov(x_t, x_{t-j}) = W Lambda^j Cz W^H  (+ H Sw H' on the measurement block at j = 0),   W = [I; Z] V
A variable is non-stationary iff its row of W loads on a unit-root mode above 1e-8: there NaN is required, elsewhere the
finite value. get_acorr = acov / (sigma_i sigma_j) with the order-0 standard deviations. Workload-level metamorphic check:
rescale_stds(s) scales every autocovariance by s^2. A Kronecker-product Lyapunov solve on purely stationary models
cross-checks the spectral formula inside the oracle.

Not decided: defective (non-diagonalisable) T or cond(V) > 1e8 (inconclusive); moduli within (1e-8, 1e-3) of 1.
"""

from __future__ import annotations

import numpy as np

from .. import runtime as rt
from ..workloads import families as F
from ..workloads import models as M

ID = "C15"
TIERS = {
    "quick": {"shards": 8, "budget_s": 40},
    "thorough": {"shards": 16, "budget_s": 420},
}
MIN_EVENTS = {"quick": 2500, "thorough": 2000}
DECIDING = {"get_acov", "get_acorr", "rescale"}
RULE = (
    "families L (stationary and with an exact unit root, measurement blocks), N (nonlinear, log-variables) and G (balanced "
    "growth: unit roots in logs) solved by the real code; random stds (incl. zero stds), up_to_order 0..4, 1-2 variants, "
    "rescale factors. distinct key = (family, #xi, #measurement, #unit roots, #non-stationary variables, order, #variants, "
    "zero std present); non-trivial = at least 2 variables and (order >= 1 or a unit root or a measurement block)."
)
ASSUMPTIONS = [
    "the square first-order solution (T,P,Z,H) is taken as given (it is the object of C01)",
    "numpy.linalg.eig; models whose eigenvector matrix has cond > 1e8 are inconclusive",
]
ANCHORS = [
    "irispie.fords.covariances:get_cov_alpha_00",
    "irispie.fords.covariances:get_autocov_square",
    "irispie.fords.covariances:acorr_from_acov",
    "irispie.simultaneous._covariances:_get_system_vector",
    "irispie.simultaneous._covariances:Inlay.getv_autocov",
    "irispie.fords.solutions:_classify_solution_vector_stability",
]


def oracle_acov(T, P, Z, H, std_u, std_w, up_to_order):
    """Independent computation of cov([xi; y]_t, [xi; y]_{t-j}), j = 0..up_to_order, with NaN on non-stationary rows/cols.
    Stationary models: Kronecker-product Lyapunov solve on T itself. Unit roots: an own ordered real Schur decomposition
    T = U S U' (unit-root block first) isolates the stable block S22; xi = U1 a1 + U2 a2 with a2 stationary; a variable is
    stationary iff its row of U1 vanishes. Returns (list of matrices, info) or (None, reason)."""
    import scipy.linalg as sla
    n = T.shape[0]
    ny = Z.shape[0]
    lam = np.linalg.eigvals(T)
    mod = np.abs(lam)
    unit = np.abs(mod - 1.0) <= 1e-8
    if np.any((np.abs(mod - 1.0) < 1e-3) & ~unit) or np.any(mod > 1 + 1e-8):
        return None, "modulus-too-close-to-one-or-unstable"
    if n > 40:
        return None, "too-large-for-kronecker-solve"
    Su = np.diag(np.asarray(std_u, dtype=float) ** 2)
    Sw = np.diag(np.asarray(std_w, dtype=float) ** 2)
    k = int(unit.sum())
    if k == 0:
        U2, S22, U1 = np.eye(n), T, np.zeros((n, 0))
    else:
        S, U, sdim = sla.schur(T, output="real", sort=lambda re, im: abs(abs(complex(re, im)) - 1.0) <= 1e-6)
        if sdim != k:
            return None, "schur-ordering-inconsistent"
        U1, U2, S22 = U[:, :k], U[:, k:], S[k:, k:]
    m = S22.shape[0]
    Q = U2.T @ P @ Su @ P.T @ U2
    M = np.eye(m * m) - np.kron(S22, S22)
    if m and np.linalg.cond(M) > 1e12:
        return None, "lyapunov-system-ill-conditioned"
    Om22 = np.linalg.solve(M, Q.reshape(-1)).reshape(m, m) if m else np.zeros((0, 0))
    Om22 = (Om22 + Om22.T) / 2
    W = np.vstack([U2, Z @ U2]) if ny else U2          # loadings of [xi; y] on the stationary block
    L1 = np.vstack([U1, Z @ U1]) if ny else U1          # loadings on the unit-root block
    nonstat = (np.abs(L1) > 1e-8).any(axis=1) if k else np.zeros(n + ny, dtype=bool)
    out = []
    Sj = np.eye(m)
    for j in range(up_to_order + 1):
        C = W @ Sj @ Om22 @ W.T
        if j == 0 and ny and H.size:
            C[n:, n:] += H @ Sw @ H.T
        C = C.copy()
        C[nonstat, :] = np.nan
        C[:, nonstat] = np.nan
        out.append(C)
        Sj = Sj @ S22
    info = {"n_unit": k, "n_nonstat": int(nonstat.sum()), "condV": 1.0}
    return out, info


def _collect(model):
    vec = model._get_dynamic_solution_vectors()
    q2n = model.create_qid_to_name()
    xi_tokens = list(vec.transition_variables)
    y_tokens = list(vec.measurement_variables)
    u_names = [q2n[t.qid] for t in vec.transition_shocks]
    w_names = [q2n[t.qid] for t in vec.measurement_shocks]
    sel = [i for i, t in enumerate(xi_tokens) if t.shift == 0] + [len(xi_tokens) + i for i in range(len(y_tokens))]
    return xi_tokens, y_tokens, u_names, w_names, sel


def install():
    import irispie

    def check(model, result, up_to_order, kind, unpack_singleton=True):
        c = rt.ctx()
        if c is None:
            return
        try:
            nvar = model.num_variants
            res = result if (nvar > 1 or not unpack_singleton) else [result]
            sols = model.get_solution(unpack_singleton=False)
            stds = model.get_stds(unpack_singleton=False)
            xi_tokens, y_tokens, u_names, w_names, sel = _collect(model)
            for v in range(nvar):
                sol = sols[v]
                T, P, Z, H = (np.asarray(getattr(sol, k), dtype=float) for k in ("T", "P", "Z", "H"))
                su = np.array([stds["std_" + n][v] for n in u_names], dtype=float)
                sw = np.array([stds["std_" + n][v] for n in w_names], dtype=float)
                # certificate: the square solution must carry the stable/unit roots the model reports (otherwise the
                # Blanchard-Kahn rank condition fails and there is no unique stable solution: outside the quantifier)
                try:
                    ev_model = np.array(model.get_eigenvalues(unpack_singleton=False)[v], dtype=complex)
                    ev_keep = np.sort(np.abs(ev_model[np.abs(ev_model) <= 1 + 1e-8]))
                    ev_T = np.sort(np.abs(np.linalg.eigvals(T)))
                    k_ = min(len(ev_keep), len(ev_T))
                    if k_ and np.max(np.abs(ev_keep[-k_:] - ev_T[-k_:])) > 1e-6:
                        c.inconc(f"{kind}:square-solution-degenerate(rank condition fails)")
                        continue
                except Exception:
                    pass
                ref, info = oracle_acov(T, P, Z, H, su, sw, up_to_order)
                if ref is None:
                    c.inconc(f"{kind}:oracle-not-applicable:{info}")
                    continue
                got = res[v]
                if len(got) != up_to_order + 1:
                    c.violation(f"{kind}:wrong-number-of-orders", f"{len(got)} matrices returned for up_to_order={up_to_order}")
                    return
                ref_sel = [R[np.ix_(sel, sel)] for R in ref]
                undefined = np.zeros(len(sel), dtype=bool)
                weight = None
                if kind == "get_acorr":
                    var = np.diag(ref_sel[0]).copy()
                    sd = np.sqrt(np.where(var > 0, var, np.nan))
                    # zero-variance variable: correlation undefined. "Zero" is relative to the largest variance: with a root at 0.997 the
                    # Lyapunov solve amplifies rounding by 1/(1-0.997^2), and a variable driven only by a shock with std 0 comes back
                    # with a variance of 1e-13 instead of 0
                    # ... and relative to the shock variances: when EVERY stationary variable has zero variance (its shocks have std 0)
                    # while a unit-root block is driven by stds of 1e6, the largest stationary "variance" is itself rounding noise
                    shock_var = float(np.max(np.concatenate([su, sw, [0.0]]) ** 2))
                    undefined = ~np.isnan(var) & ~(var > 1e-9 * max(float(np.nanmax(np.abs(var), initial=0.0)), shock_var)) if np.isfinite(var).any() else ~np.isnan(var)
                    with np.errstate(all="ignore"):
                        ref_sel = [R / np.outer(sd, sd) for R in ref_sel]
                    weight = np.outer(np.nan_to_num(sd), np.nan_to_num(sd))   # correlations are compared in covariance units:
                    # a variable with a tiny (but non-zero) variance amplifies rounding in cov/(sd_i sd_j) by max var / var
                key = (c.case.get("family") if isinstance(c.case, dict) else "?", len(xi_tokens), len(y_tokens), info["n_unit"], info["n_nonstat"],
                       up_to_order, nvar, bool((su == 0).any()))
                c.event(kind, f"order<={up_to_order}", key=key,
                        nontrivial=(len(sel) >= 2 and (up_to_order >= 1 or info["n_unit"] > 0 or len(y_tokens) > 0)))
                with np.errstate(all="ignore"):
                    R0_ = np.asarray(ref_sel[0], dtype=float) * (weight if weight is not None else 1.0)
                    scale0 = 1 + (np.nanmax(np.abs(R0_)) if np.isfinite(R0_).any() else 0.0)
                    # the non-stationary block (reported as NaN) is computed in the same arithmetic: its magnitude, like that of
                    # every other entry, is of the order of the shock variances
                    if weight is None:
                        scale0 = max(scale0, 1 + float(np.max(np.concatenate([su, sw, [0.0]]) ** 2)))
                for j, (G, R) in enumerate(zip(got, ref_sel)):
                    G = np.asarray(G, dtype=float)
                    if G.shape != R.shape:
                        c.violation(f"{kind}:shape", f"order {j}: shape {G.shape} vs {R.shape}")
                        return
                    if undefined.any():
                        G = G.copy(); R = R.copy()
                        G[undefined, :] = 0.0; G[:, undefined] = 0.0
                        R[undefined, :] = 0.0; R[:, undefined] = 0.0
                    nan_ref, nan_got = np.isnan(R), np.isnan(G)
                    if (nan_ref != nan_got).any():
                        i, k = map(int, np.argwhere(nan_ref != nan_got)[0])
                        what = "finite-value-for-nonstationary-variable" if nan_ref[i, k] else "nan-for-stationary-variable"
                        # a zero-variance stationary variable has an undefined correlation: NaN is legitimate there
                        if kind == "get_acorr" and not nan_ref[i, k]:
                            pass
                        c.violation(f"{kind}:{what}", f"order {j}, entry ({i},{k}): returned {G[i, k]!r}, reference {R[i, k]!r} (unit roots: {info['n_unit']})",
                                    detail={"order": j, "entry": [i, k]})
                        return
                    ok = ~nan_ref
                    if weight is not None:
                        G = np.where(ok, G * weight, G)
                        R = np.where(ok, R * weight, R)
                    scale = 1 + np.nanmax(np.abs(R[ok])) if ok.any() else 1.0
                    # (rounding is relative to the VARIANCES: cov(x_t, x_{t-1}) of x = rho*x[-2] + e is exactly zero and comes back as
                    # 1e-16 times the variance, which is 1e-4 when the stds are of the order 1e6)
                    scale = max(scale, scale0)
                    err = np.abs(G[ok] - R[ok]).max() if ok.any() else 0.0
                    tol = 1e-8 * scale * max(1.0, info["condV"] / 1e3)
                    if err > tol:
                        transposed = ok.all() and np.abs(G.T - R).max() <= tol
                        c.violation(f"{kind}:value-differs" + (":transposed" if transposed else "") + (f":order>=1" if j >= 1 else ":order0"),
                                    f"order {j}: max |returned - reference| = {err:.3e} (scale {scale:.3e})", detail={"order": j})
                        return
        except Exception as exc:
            c.inconc(f"{kind}:monitor-error:{type(exc).__name__}")
            c.extra["last_monitor_error"] = repr(exc)[:300]

    def make_acov(orig):
        def get_acov(self, *args, **kwargs):
            result = orig(self, *args, **kwargs)
            k = kwargs.get("up_to_order", args[0] if args else 0)
            check(self, result, int(k), "get_acov", kwargs.get("unpack_singleton", True))
            return result
        return get_acov

    def make_acorr(orig):
        def get_acorr(self, *args, **kwargs):
            result = orig(self, *args, **kwargs)
            if kwargs.get("acov") is None and not args:
                check(self, result, int(kwargs.get("up_to_order", 0)), "get_acorr", kwargs.get("unpack_singleton", True))
            return result
        return get_acorr
    rt.wrap_attr(irispie.Simultaneous, "get_acov", make_acov)
    rt.wrap_attr(irispie.Simultaneous, "get_acorr", make_acorr)


# ------------------------------------------------------------------------------
# workload
# ------------------------------------------------------------------------------


def make_case(rng):
    r = rng.random()
    if r < 0.55:
        family = "L"
        ur = bool(rng.random() < 0.35)
        spec, meta = F.family_L(rng, unit_root=ur, measurement=bool(rng.random() < 0.7), persistent=(not ur and rng.random() < 0.3))
        steady = None
    elif r < 0.85:
        family = "N"
        spec, steady, meta = F.family_N(rng)
        if spec is None:
            return None
    else:
        family = "G"
        spec, steady, meta = F.family_G(rng)
    if len(spec["tvars"]) >= 2 and len(spec["tvars"]) % 2 == 0:
        # the FIRST variable gets a name that contains the second one's name (y_gap before y): look-ups by name must be exact
        first, second = spec["tvars"][0]["name"], spec["tvars"][1]["name"]
        new = second + "_q"
        taken = {q["name"] for g in ("tvars", "mvars", "tshocks", "mshocks", "params", "exog") for q in spec.get(g, [])}
        if new not in taken:
            spec, steady, meta = F._apply_names((spec, steady, meta), {first: new})
    stds = {}
    for q in spec["tshocks"] + spec["mshocks"]:
        stds["std_" + q["name"]] = 0.0 if rng.random() < 0.1 else float(np.round(rng.uniform(0.1, 2.0), 3))
    rr = M.render_source(spec, None, 0)
    return {"kind": "acov", "family": family, "spec": spec, "steady": steady, "meta": meta, "source": rr["source"], "stds": stds,
            "order": int(rng.integers(0, 5)), "nvar": 1 if rng.random() < 0.75 else 2, "factor": float(np.round(rng.uniform(0.3, 3.0), 2)) if rng.random() < 0.7 else float(rng.choice([1e-7, 1e-4, 1e3, 1e6]))}


def run_case(c, case):
    import irispie as ir
    spec, family = case["spec"], case["family"]
    with c.running(case):
        try:
            with rt.quiet():
                m = ir.Simultaneous.from_string(case["source"], **spec["flags"])
        except Exception as exc:
            c.inconc(f"parse-failed:{type(exc).__name__}")
            return
        params = {p["name"]: p["value"] for p in spec["params"]}
        nvar = case["nvar"] if family == "L" else 1
        if nvar > 1:
            m.alter_num_variants(nvar)
            m.assign(**{k: [v, float(np.round(v * 0.9, 4))] if (k.startswith("rho") or k.startswith("a")) else v for k, v in params.items()})
            m.assign(**{k: [v, v * 1.5] for k, v in case["stds"].items()})
        else:
            m.assign(**params)
            m.assign(**case["stds"])
        try:
            with rt.quiet():
                if family in ("N", "G"):
                    guess = {}
                    for n, (lvl, chg) in case["steady"].items():
                        fix = case["meta"].get("fix", {})
                        guess[n] = (fix.get(n, lvl if lvl is not None else 1.0), chg)
                    m.assign(**guess)
                    if family == "G":
                        plan = ir.SteadyPlan(m)
                        plan.fix_level(tuple(case["meta"]["fix"].keys()))
                        m.solve_steady(plan=plan)
                    else:
                        m.solve_steady()
                m.solve()
        except Exception as exc:
            c.inconc(f"steady-or-solve-failed:{type(exc).__name__}")
            return
        sols = m.get_solution(unpack_singleton=False)
        if any("STABLE" not in str(s.system_stability) or "MULTIPLE" in str(s.system_stability) or "NO_" in str(s.system_stability) for s in sols):
            c.inconc("model-not-determinate")
            return
        k = case["order"]
        try:
            with rt.quiet():
                a0 = m.get_acov(up_to_order=k, unpack_singleton=False)
                r0 = m.get_acorr(up_to_order=k, unpack_singleton=False)
                names = m.get_acov_dimension_names()
        except Exception as exc:
            c.violation(f"get_acov:raised:{type(exc).__name__}", f"{type(exc).__name__}: {str(exc)[:200]}")
            return
        # dimension names must list the zero-shift transition variables and the measurement variables
        want = [q["name"] for q in spec["tvars"]] + [q["name"] for q in spec["mvars"]]
        got = [n.replace("log(", "").replace(")", "") for n in names.rows]
        if sorted(got) != sorted(want):
            c.violation("get_acov_dimension_names:differ", f"{got} vs declared {want}")
        # the accessor that reads entries BY NAME must deliver the entries of exactly those rows and columns (names that are
        # substrings of other names included)
        try:
            A = np.asarray(a0[0][0], dtype=float)
            rows = list(names.rows)
            for i_, ni in enumerate(rows):
                j_ = (i_ * 7 + 3) % len(rows)
                nj = rows[j_]
                got_ = np.asarray(names.select(A, ((ni,), (nj,))), dtype=float).ravel()
                c.event("select", "by-name", key=("select", len(rows), any(ni in o and ni != o for o in rows)), nontrivial=len(rows) >= 2)
                want_ = A[i_, j_]
                if got_.size != 1 or not ((np.isnan(got_[0]) and np.isnan(want_)) or got_[0] == want_):
                    c.violation("get_acov_dimension_names:select-returns-another-entry", f"select(({ni!r},), ({nj!r},)) gives {got_.tolist()}, the matrix holds {want_!r} at row {i_}, column {j_} (rows {rows})")
                    break
        except Exception as exc:
            c.violation(f"get_acov_dimension_names:select-raised:{type(exc).__name__}", f"{type(exc).__name__}: {str(exc)[:200]}")
        # metamorphic: scaling all stds by s scales autocovariances by s^2
        s = case["factor"]
        try:
            with rt.quiet():
                m.rescale_stds(s)
                a1 = m.get_acov(up_to_order=k, unpack_singleton=False)
                r1 = m.get_acorr(up_to_order=k, unpack_singleton=False)
        except Exception as exc:
            c.violation(f"rescale_stds:raised:{type(exc).__name__}", f"{type(exc).__name__}: {str(exc)[:200]}")
            return
        for v in range(len(a0)):
            for j in range(k + 1):
                A0, A1 = np.asarray(a0[v][j], dtype=float), np.asarray(a1[v][j], dtype=float)
                c.event("rescale", "s^2", key=None)
                if (np.isnan(A0) != np.isnan(A1)).any():
                    c.violation("rescale:nan-pattern-changes", f"variant {v} order {j}")
                    return
                ok = ~np.isnan(A0)
                # matrix-level scale: with highly persistent roots the Lyapunov solve amplifies rounding by ~1/(1-|lambda|^2)
                if ok.any() and np.abs(A1[ok] / (s * s) - A0[ok]).max() > 1e-7 * (1 + np.abs(A0[ok]).max()):
                    c.violation("rescale:not-quadratic", f"variant {v} order {j}: acov after rescale_stds({s}) differs from {s}^2 * acov")
                    return
                # ... and leaves every autocorrelation unchanged (also for very small and very large s: a variance of 1e-14 is a
                # variance like any other). Entries of variables whose variance is at rounding level relative to the largest
                # one are not compared
                R0, R1 = np.asarray(r0[v][j], dtype=float), np.asarray(r1[v][j], dtype=float)
                var0 = np.diag(np.asarray(a0[v][0], dtype=float))
                std_scale = max([abs(float(x_)) for x_ in case["stds"].values()] + [0.0]) ** 2     # (variances of the shocks before rescaling)
                solid = np.isfinite(var0) & (var0 > 1e-10 * max(std_scale, np.nanmax(np.where(np.isfinite(var0), var0, 0.0), initial=0.0))) & (var0 > 0)
                cmp_ = np.outer(solid, solid) & np.isfinite(R0)
                c.event("rescale", "acorr-invariant", key=None)
                if cmp_.any() and (~np.isfinite(R1[cmp_])).any():
                    c.violation("rescale:acorr-becomes-missing", f"variant {v} order {j}: an autocorrelation that was finite is not after rescale_stds({s})")
                    return
                if cmp_.any() and np.abs(R1[cmp_] - R0[cmp_]).max() > 1e-6:
                    c.violation("rescale:acorr-not-invariant", f"variant {v} order {j}: autocorrelations change by {np.abs(R1[cmp_] - R0[cmp_]).max():.3e} after rescale_stds({s})")
                    return


def replay(c, case):
    install()
    run_case(c, case)


def shard(c):
    install()
    rng = c.rng
    n = c.scale(640, 4000)
    for i in range(n):
        if c.out_of_time():
            break
        try:
            case = make_case(rng)
        except Exception as exc:
            c.inconc(f"generator:error:{type(exc).__name__}")
            continue
        if case is None:
            continue
        try:
            run_case(c, case)
        except Exception as exc:
            c.inconc(f"harness:case-error:{type(exc).__name__}")
            c.extra["last_case_error"] = repr(exc)[:300]
        if i < 1:
            c.sample({k: case[k] for k in ("family", "source", "stds", "order", "nvar", "factor")})
