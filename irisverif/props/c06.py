"""
C06 -- nonlinear simulations satisfy the equations; they match first order when the model is linear

Deciding monitor: wrapper on Simultaneous.simulate(method in {stacked_time, period_by_period}) for generated models, with
return_info=True (forced by the workload). For every frame that reports success the oracle takes the frame's own databox
(its pruned shocks), the input databox for the initial condition and the terminal condition in force
  terminal="first_order": the continuation produced by the REAL first-order simulator from the frame's last periods,
  terminal="data":        the input data after the span,
and evaluates every dynamic transition equation EXACTLY (AST evaluator on levels, shocks read as shock + ant_shock) in
every period of the frame: |rhs - lhs| <= 1e-7*(1+scale). Further: the output is the splice of the frames, measurement
variables equal their inputs on the span, periods before the span are untouched. Linear models: the result equals the
first-order simulation of the same inputs (several unanticipated dates => several frames; anticipated shocks), and with
terminal="data" when the first-order path is supplied as terminal data.
A frame whose exit status is not success, or a raise, is a reported failure: inconclusive.
"""

from __future__ import annotations

import warnings
import numpy as np

from .. import runtime as rt
from ..oracles import expr as E
from ..workloads import families as F
from ..workloads import models as M

ID = "C06"
TIERS = {
    "quick": {"shards": 8, "budget_s": 50},
    "thorough": {"shards": 16, "budget_s": 540},
}
MIN_EVENTS = {"quick": 800, "thorough": 1000}
DECIDING = {"frame", "variants", "failure-reporting", "linear-equals-first-order"}
RULE = (
    "families N (nonlinear, steady state known by construction, log-variables), L (linear, for the first-order comparison), "
    "G (balanced growth) and S (backward-looking, for period_by_period); shocks sized 0.1-3 std at 0-3 unanticipated and 0-3 "
    "anticipated dates, spans 1..24, terminal in {first_order, data}, initial_guess in {first_order, data}, default and relaxed "
    "step tolerance. distinct key = (family, method, n, max lag, max lead, #frames, terminal, initial_guess, log pattern, shock "
    "kinds); non-trivial = at least 2 periods and one non-zero shock and (a lead or a second frame)."
)
ASSUMPTIONS = [
    "equations evaluated exactly by the AST evaluator on levels",
    "the first-order terminal values are produced by the real first-order simulator (object of C01)",
]
ANCHORS = [
    "irispie.stacked_time.simulators:simulate_frame",
    "irispie.stacked_time.simulators:_get_wrt_spots",
    "irispie.stacked_time.simulators:_simulate_initial_guess_first_order",
    "irispie.stacked_time._evaluators:create_evaluator",
    "irispie.fords.terminators:Terminator.terminate_simulation",
    "irispie.fords.terminators:Terminator.terminate_jacobian",
    "irispie.frames:split_into_frames_by_breakpoints",
    "irispie.frames:SplitFrame.prune_frame_data",
    "irispie.frames:SplitFrame.write_frame_data_to_main_dataslate",
    "irispie.period_by_period.simulators:simulate_frame",
]

_REG = {}


def install():
    import irispie

    def make(orig):
        def simulate(self, in_db, span, *args, **kwargs):
            result = orig(self, in_db, span, *args, **kwargs)
            c = rt.ctx()
            info = _REG.get(id(self._invariant))
            method = kwargs.get("method", "first_order")
            if c is None or info is None or info.get("busy") or method not in ("stacked_time", "stacked", "period_by_period", "period"):
                return result
            if not kwargs.get("return_info") or kwargs.get("plan") is not None:
                return result
            info["busy"] = True
            try:
                _check(c, orig, self, in_db, span, kwargs, result, info)
            except Exception as exc:
                c.inconc(f"frame:monitor-error:{type(exc).__name__}")
                c.extra["last_monitor_error"] = repr(exc)[:400]
            finally:
                info["busy"] = False
            return result
        return simulate
    rt.wrap_attr(irispie.Simultaneous, "simulate", make)


def _vals(db, name, periods, default=np.nan):
    if name not in db:
        return np.full(len(periods), default)
    return np.asarray(db[name].get_data(periods), dtype=float)[:, 0]


def _check(c, orig, model, in_db, span, kwargs, result, info):
    import irispie as ir
    out, sinfo = result
    case, spec = info["case"], info["spec"]
    vio = lambda k, msg, detail=None: c.violation(k, msg, detail=detail, case=case)
    span = tuple(span)
    start, end = span[0], span[-1]
    method = "period_by_period" if kwargs.get("method") in ("period_by_period", "period") else "stacked_time"
    terminal = "data" if method == "period_by_period" else kwargs.get("terminal", "first_order")
    lo, hi = M.shift_range(spec)
    hi_model = int(model.max_lead)
    tnames = [q["name"] for q in spec["tvars"]]
    mnames = [q["name"] for q in spec["mvars"]]
    unames = [q["name"] for q in spec["tshocks"]]
    params = {p["name"]: p["value"] for p in spec["params"]}
    ufs = M.user_funcs_of(spec)
    full = tuple(ir.Span(start + min(lo, -1) - 1, end + max(hi, 1) + 1))
    c0 = -(min(lo, -1) - 1)            # column of `start`
    T = len(span)
    frames = sinfo["frames"]
    statuses = sinfo["exit_status"]
    fdbs = sinfo["frame_databoxes"]
    inp = {n: _vals(in_db, n, full) for n in tnames + mnames + [q["name"] for q in spec["exog"]]}
    outv = {n: _vals(out, n, full) for n in tnames + mnames}
    # ---- measurement variables and pre-span periods
    for n in mnames:
        a, b = outv[n][c0:c0 + T], inp[n][c0:c0 + T]
        with np.errstate(invalid="ignore"):
            # (a log measurement variable goes through log and exp: one unit in the last place is not a change)
            same = (np.isnan(a) & np.isnan(b)) | (np.abs(a - b) <= 4e-16 * (1 + np.abs(b)) * 4)
        if not same.all():
            vio("output:measurement-variable-changed", f"{n}: differs from its input on the span (nonlinear methods do not solve measurement equations)")
            return
    for n in tnames:
        a, b = outv[n][:c0], inp[n][:c0]
        ok = np.isnan(b) | (a == b)
        if not ok.all():
            vio("output:pre-span-period-changed", f"{n}: a period before the simulation span was modified")
            return
    n_ok = 0
    for j, (frame, status, fdb) in enumerate(zip(frames, statuses, fdbs)):
        if not getattr(status, "is_success", False):
            c.inconc(f"frame:reported-failure:{method}")
            continue
        fs = frame.start - start
        fe = frame.simulation_end - start
        nxt = (frames[j + 1].start - start) if j + 1 < len(frames) else T
        # ---- data of the frame: frame databox on the base span, input before, terminal after
        data = {}
        for n in tnames:
            arr = inp[n].copy()
            fv = _vals(fdb, n, span)
            arr[c0:c0 + T] = fv
            data[n] = arr
        for n in [q["name"] for q in spec["exog"]]:
            data[n] = inp[n]
        for u in unames:
            uu = np.zeros(len(full))
            uu[c0:c0 + T] = np.nan_to_num(_vals(fdb, u, span, 0.0))
            aa = np.zeros(len(full))
            aa[c0:c0 + T] = np.nan_to_num(_vals(fdb, "ant_" + u, span, 0.0))
            data[u] = uu
            data["ant_" + u] = aa
        for q in spec["mshocks"]:
            data[q["name"]] = np.zeros(len(full))
        # ---- terminal condition in force
        n_term = max(hi, 0)
        if n_term and method == "stacked_time" and fe == T - 1:
            if terminal == "first_order":
                try:
                    cont_db = fdb.copy()
                    for nm in tnames:   # initial condition of the continuation: the frame path (and input before the span)
                        ser = in_db[nm].copy()
                        ser[ir.Span(start, end)] = _vals(fdb, nm, span).reshape(-1, 1)
                        cont_db[nm] = ser
                    ext = ir.Span(end + 1, end + n_term)
                    for u in unames:
                        for nm in (u, "ant_" + u):
                            ser = cont_db[nm].copy() if nm in cont_db else ir.Series()
                            ser[ext] = np.zeros((n_term, 1))
                            cont_db[nm] = ser
                    with rt.quiet():
                        cont = orig(model, cont_db, ext, method="first_order")
                    for n in tnames:
                        data[n][c0 + T:c0 + T + n_term] = _vals(cont, n, tuple(ext))
                except Exception as exc:
                    c.inconc(f"frame:terminal-continuation-failed:{type(exc).__name__}")
                    continue
            # terminal="data": data[n] beyond the span already hold the input values
        twins = {u: "ant_" + u for u in unames}
        worst = 0.0
        bad = None
        for t in range(fs, fe + 1):
            col = c0 + t
            for ei, eq in enumerate(spec["teqs"]):
                with np.errstate(all="ignore"):
                    l_ = float(E.evaluate(eq["lhs"], data, params, col, ufs, twins))
                    r_ = float(E.evaluate(eq["rhs"], data, params, col, ufs, twins))
                res = r_ - l_
                scale = max(abs(l_), abs(r_))
                if not np.isfinite(res):
                    bad = (ei, t, res, scale)
                    break
                worst = max(worst, abs(res) / (1 + scale))
                if abs(res) > 1e-7 * (1 + scale):
                    bad = (ei, t, res, scale)
                    break
            if bad:
                break
        shock_kinds = ("u" if any(np.any(data[u][c0:c0 + T]) for u in unames) else "") + ("a" if any(np.any(data["ant_" + u]) for u in unames) else "")
        key = (info["family"], method, len(tnames), lo, hi, min(len(frames), 4), terminal, kwargs.get("initial_guess", "default"),
               "".join("L" if q.get("log") else "-" for q in spec["tvars"])[:5], shock_kinds)
        c.event("frame", f"{method}:{terminal}", key=key, nontrivial=(T >= 2 and shock_kinds != "" and (hi > 0 or len(frames) > 1)))
        if bad:
            ei, t, res, scale = bad
            where = "last-periods" if t >= T - max(hi, 1) else "interior"
            vio(f"frame:equation-residual:{method}:{terminal}:{where}",
                f"frame {j} [{fs}..{fe}]: transition equation #{ei} has residual {res:.3e} (scale {scale:.3e}) in period index {t} of {T}",
                detail={"frame": j, "equation": ei, "period_index": t})
            return
        # ---- the output is the splice of the frames
        for n in tnames:
            a = outv[n][c0 + fs:c0 + nxt]
            b = data[n][c0 + fs:c0 + nxt]
            if np.max(np.abs(a - b)) > 1e-12 * (1 + np.max(np.abs(b))):
                vio("output:not-the-splice-of-the-frames", f"{n}: output on periods {fs}..{nxt - 1} differs from frame {j}")
                return
        n_ok += 1
        c.extra["worst_relative_residual_x1e12"] = max(c.extra.get("worst_relative_residual_x1e12", 0), int(worst * 1e12))
    # ---- linear models: equal to first order
    if info["family"] == "L" and n_ok == len(frames) and terminal == "first_order":
        try:
            with rt.quiet():
                fo = orig(model, in_db, ir.Span(start, end), method="first_order")
            for n in tnames:
                a, b = outv[n][c0:c0 + T], _vals(fo, n, span)
                c.event("linear-equals-first-order", method, key=None)
                if np.max(np.abs(a - b)) > 1e-7 * (1 + np.max(np.abs(b))):
                    vio(f"linear:{method}-differs-from-first-order", f"{n}: max discrepancy {np.max(np.abs(a - b)):.3e} on a linear model")
                    return
        except Exception as exc:
            c.inconc(f"linear:first-order-comparison-failed:{type(exc).__name__}")


# ------------------------------------------------------------------------------
# workload
# ------------------------------------------------------------------------------


def family_S(rng):
    """backward-looking nonlinear models (no leads) for period_by_period"""
    spec, steady, meta = F.family_N(rng, max_lead=0, forward_share=0.0, measurement=False)
    if spec is None:
        return None, None, None
    meta["family"] = "S"
    return spec, steady, meta


def make_case(rng):
    r = rng.random()
    if r < 0.45:
        family = "N"
        spec, steady, meta = F.family_N(rng, measurement=bool(rng.random() < 0.3), exog=bool(rng.random() < 0.4))
    elif r < 0.7:
        family = "L"
        spec, meta = F.family_L(rng, unit_root=False, measurement=bool(rng.random() < 0.3))
        steady = None
    elif r < 0.85:
        family = "S"
        spec, steady, meta = family_S(rng)
    else:
        family = "G"
        spec, steady, meta = F.family_G(rng)
    if spec is None:
        return None
    method = "period_by_period" if family == "S" else "stacked_time"
    T = int(rng.integers(1, 25))
    shocks = [q["name"] for q in spec["tshocks"]]
    scale = 1.0 if family == "L" else 0.03
    unant, ant = [], []
    for _ in range(int(rng.integers(0, 4))):
        unant.append([shocks[int(rng.integers(0, len(shocks)))], int(rng.integers(0, T)), float(np.round(rng.normal(0, scale) * rng.uniform(0.1, 3), 5))])
    if method == "stacked_time":
        for _ in range(int(rng.integers(0, 4))):
            ant.append([shocks[int(rng.integers(0, len(shocks)))], int(rng.integers(0, T)), float(np.round(rng.normal(0, scale) * rng.uniform(0.1, 3), 5))])
    opts = {}
    if method == "stacked_time":
        opts["terminal"] = "first_order" if rng.random() < 0.7 else "data"
        opts["initial_guess"] = "first_order" if rng.random() < 0.6 else "data"
    opts["solver_settings"] = {"step_tolerance": "inf"} if rng.random() < 0.8 else {}
    init = {q["name"]: [float(np.round(rng.normal(0, scale), 5)) for _ in range(4)] for q in spec["tvars"]}
    rr = M.render_source(spec, None, 0)
    return {"kind": "nonlinear-sim", "family": family, "method": method, "spec": spec, "steady": steady, "meta": meta, "source": rr["source"],
            "T": T, "unant": unant, "ant": ant, "opts": opts, "init": init, "terminal_data_from_first_order": bool(rng.random() < 0.5),
            "hist": int(rng.integers(0, 2 ** 31)) if rng.random() < 0.3 else None,
            # the input databox carries parameter entries of ANOTHER calibration (a databox made before the model was
            # re-calibrated); with the default parameters_from_data=False they must be ignored
            "stale_params": (T + len(unant) + len(ant)) % 3 == 0,
            # a path for every exogenous variable (pre-sample period, span and the periods after it)
            "exog_paths": {q["name"]: [float(np.round(rng.normal(0, 0.05), 5)) for _ in range(T + 4)] for q in spec["exog"]},
            "unant2": ([[shocks[int(rng.integers(0, len(shocks)))], int(rng.integers(0, T)), float(np.round(rng.normal(0, scale) * rng.uniform(0.1, 3), 5))]
                        for _ in range(int(rng.integers(1, 4)))] if (method == "stacked_time" and rng.random() < 0.3) else None)}


def run_case(c, case):
    import irispie as ir
    spec, family = case["spec"], case["family"]
    with c.running(case):
        try:
            with rt.quiet():
                m = ir.Simultaneous.from_string(case["source"], **spec["flags"])
        except Exception as exc:
            c.inconc(f"parse-failed:{type(exc).__name__}")
            return
        m.assign(**{p["name"]: p["value"] for p in spec["params"]})
        try:
            with rt.quiet():
                if family in ("N", "S", "G"):
                    guess = {}
                    for n, (lvl, chg) in case["steady"].items():
                        fix = case["meta"].get("fix", {})
                        guess[n] = (fix.get(n, lvl if lvl is not None else 1.0), chg)
                    for q in spec["exog"]:
                        guess[q["name"]] = (0.0, 0.0)
                    m.assign(**guess)
                    if family == "G":
                        plan = ir.SteadyPlan(m)
                        plan.fix_level(tuple(case["meta"]["fix"].keys()))
                        m.solve_steady(plan=plan)
                    else:
                        m.solve_steady()
                else:
                    m.solve_steady()
                m.solve()
        except Exception as exc:
            c.inconc(f"steady-or-solve-failed:{type(exc).__name__}")
            return
        s = str(m.get_solution().system_stability)
        if "MULTIPLE" in s or "NO_" in s:
            c.inconc("model-not-determinate")
            return
        from ..oracles import linre as _linre
        if not _linre.square_solution_consistent(m.get_solution().T, m.get_eigenvalues()):
            c.inconc("model-determinate-by-count-only(rank condition fails)")
            return
        if case.get("hist") is not None:
            # history of the model object: query operations before the monitored simulation on the same solved model
            from ..workloads import history as Hist
            for op in Hist.perturb(m, case["hist"], spec, freq="qq"):
                c.note("history:" + op)
        T = case["T"]
        start = ir.qq(2020, 1)
        end = start + (T - 1)
        span = ir.Span(start, end)
        db = ir.Databox.steady(m, span)
        logly = m.get_log_status()
        lo = int(m.max_lag)
        for n, devs in case["init"].items():
            for k in range(1, -lo + 1):
                p = start - k
                cur = float(db[n].get_data(p)[0, 0])
                d = devs[(k - 1) % len(devs)]
                db[n][p] = cur * np.exp(d) if logly.get(n) else cur + d
        for name, t, val in case["unant"]:
            db[name][start + t] = val
        for name, t, val in case["ant"]:
            db["ant_" + name][start + t] = val
        for name, vals in (case.get("exog_paths") or {}).items():
            for k_, v_ in enumerate(vals):
                db[name][start - 1 + k_] = v_
        if case.get("stale_params"):
            for q in spec["params"]:
                if isinstance(db.get(q["name"]), (int, float)):
                    db[q["name"]] = float(db[q["name"]]) * 0.6 + 0.07
            c.note("input:stale-parameter-entries-in-databox")
        opts = dict(case["opts"])
        ss = dict(opts.get("solver_settings") or {})
        if ss.get("step_tolerance") == "inf":
            ss["step_tolerance"] = float("inf")
        opts["solver_settings"] = ss
        hi = int(m.max_lead)
        if opts.get("terminal") == "data" and hi:
            if case["terminal_data_from_first_order"] and family == "L":
                # supply the first-order path as terminal data: the result must reproduce the first-order simulation
                with rt.quiet():
                    fo = m.simulate(db, ir.Span(start, end + hi), method="first_order")
                for q in spec["tvars"]:
                    ser = db[q["name"]].copy()
                    ext = ir.Span(end + 1, end + hi)
                    ser[ext] = np.asarray(fo[q["name"]].get_data(tuple(ext)), dtype=float)
                    db[q["name"]] = ser
        _REG[id(m._invariant)] = {"spec": spec, "case": case, "family": family}
        res0 = None
        try:
            with rt.quiet(), np.errstate(all="ignore"):
                res0 = m.simulate(db, span, method=case["method"], return_info=True, remove_terminal=False, when_fails="silent", **opts)
        except Exception as exc:
            c.inconc(f"simulate:raised:{type(exc).__name__}")
            c.note(f"simulate:raised:{type(exc).__name__}:{str(exc)[:60]}")
        finally:
            _REG.pop(id(m._invariant), None)
        # ---- error path: a frame that failed must be REPORTED when the caller asks for it (when_fails="error"); the property
        # speaks about simulations that report success, so a failure that goes unreported turns a failed run into a "success"
        if res0 is not None:
            try:
                failed = [i_ for i_, st in enumerate(res0[1].get("exit_status", ())) if not getattr(st, "is_success", True)]
            except Exception:
                failed = []
            if failed:
                raised = None
                try:
                    with rt.quiet(), np.errstate(all="ignore"), warnings.catch_warnings():
                        warnings.simplefilter("ignore")
                        m.simulate(db, span, method=case["method"], when_fails="error", **opts)
                except Exception as exc:
                    raised = exc
                last_only = failed == [len(res0[1].get("exit_status", ())) - 1]
                c.event("failure-reporting", "failed-frame:" + ("last" if last_only else "not-last"), key=("fail", case["method"], last_only), nontrivial=not last_only)
                if raised is None:
                    c.violation("simulate:failed-frame-not-reported",
                                f"frame(s) {failed} of {len(res0[1].get('exit_status', ()))} reported failure in the run with when_fails='silent', "
                                f"but the same call with when_fails='error' returned normally", case=case)
        # ---- several data variants in one call: every variant is the simulation of its own data
        if case.get("unant2") is not None and res0 is not None and case["method"] == "stacked_time":
            _two_variant_law(c, m, case, db, span, opts, res0)


def _two_variant_law(c, m, case, db0, span, opts, res0):
    """simulate(num_variants=2) on a databox whose second data variant carries unanticipated shocks on OTHER dates: each
    variant's paths must equal the single-variant simulation of that variant's data (both single runs go through the
    monitored, equation-checked route). Added after a seeded change reused the frames of variant 0 for every variant."""
    import irispie as ir
    spec = case["spec"]
    start = tuple(span)[0]
    db1 = db0.copy()
    for q in spec["tshocks"]:
        ser = db1[q["name"]].copy()
        ser[span] = 0.0
        db1[q["name"]] = ser
    for name, t, val in case["unant2"]:
        db1[name][start + t] = val
    _REG[id(m._invariant)] = {"spec": spec, "case": dict(case, unant=case["unant2"], unant2=None), "family": case["family"]}
    try:
        with rt.quiet(), np.errstate(all="ignore"):
            res1 = m.simulate(db1, span, method="stacked_time", return_info=True, remove_terminal=False, when_fails="silent", **opts)
    except Exception as exc:
        c.inconc(f"two-variants:single-run-raised:{type(exc).__name__}")
        return
    finally:
        _REG.pop(id(m._invariant), None)
    ok = lambda r: all(getattr(st, "is_success", True) for st in r[1].get("exit_status", ()))
    if not ok(res0) or not ok(res1):
        c.inconc("two-variants:a-single-run-reported-failure")
        return
    both = ir.Databox()
    try:
        for k in db0.keys():
            a, b = db0[k], db1[k]
            if isinstance(a, ir.Series):
                if a.start != b.start or a.data.shape[0] != b.data.shape[0]:
                    c.inconc("two-variants:inputs-not-aligned")
                    return
                both[k] = ir.Series(start=a.start, values=np.column_stack([np.asarray(a.data, dtype=float)[:, 0], np.asarray(b.data, dtype=float)[:, 0]]))
            else:
                both[k] = a
        with rt.quiet(), np.errstate(all="ignore"):
            res2 = m.simulate(both, span, method="stacked_time", num_variants=2, return_info=True, remove_terminal=False, when_fails="silent", **opts)
    except Exception as exc:
        c.inconc(f"two-variants:joint-run-raised:{type(exc).__name__}")
        c.note(f"two-variants:joint-run-raised:{type(exc).__name__}:{str(exc)[:80]}")
        return
    out2, info2 = res2
    infos = info2 if isinstance(info2, (list, tuple)) else [info2]
    if not all(getattr(st, "is_success", True) for i_ in infos for st in (i_ or {}).get("exit_status", ())):
        c.inconc("two-variants:joint-run-reported-failure")
        return
    sp = tuple(span)
    same_dates = sorted(t for _, t, _ in case["unant"]) == sorted(t for _, t, _ in case["unant2"])
    for v, single in enumerate((res0[0], res1[0])):
        for q in spec["tvars"]:
            a = np.asarray(out2[q["name"]].get_data(sp), dtype=float)
            if a.ndim != 2 or a.shape[1] < 2:
                c.violation("two-variants:output-has-one-variant", f"{q['name']}: simulate(num_variants=2) returned data of shape {a.shape}", case=case)
                return
            b = np.asarray(single[q["name"]].get_data(sp), dtype=float)[:, 0]
            c.event("variants", "joint-run==single-runs", key=("variants", case["family"], v, same_dates, len(case["unant2"])), nontrivial=not same_dates)
            if not np.all(np.isfinite(b)):
                c.inconc("two-variants:single-run-not-finite")
                return
            err = np.max(np.abs(a[:, v] - b))
            if not np.isfinite(err) or err > 1e-6 * (1 + np.max(np.abs(b))):
                c.violation("two-variants:variant-differs-from-its-own-single-variant-simulation",
                            f"{q['name']}, data variant {v}: max discrepancy {err:.3e} between simulate(num_variants=2) and the simulation of that variant alone", case=case)
                return


def replay(c, case):
    install()
    run_case(c, case)


def shard(c):
    install()
    rng = c.rng
    n = c.scale(360, 2500)
    for i in range(n):
        if c.out_of_time():
            break
        try:
            case = make_case(rng)
        except Exception as exc:
            c.inconc(f"generator:error:{type(exc).__name__}")
            continue
        if case is None:
            continue
        try:
            run_case(c, case)
        except Exception as exc:
            c.inconc(f"harness:case-error:{type(exc).__name__}")
            c.extra["last_case_error"] = repr(exc)[:300]
        if i < 1:
            c.sample({k: case[k] for k in ("family", "method", "source", "T", "unant", "ant", "opts")})
