"""
C03 -- Kalman filter, smoother and likelihood equal exact Gaussian conditioning

Deciding monitor: wrapper on Simultaneous.kalman_filter (every call, any caller). From the SQUARE solution
(T,P,K,Z,H,D of get_solution(); the filter itself runs on the triangular one), the stds (parameters or the series in
the input databox when stds_from_data=True), shock means (shocks_from_data=True) and the observations read from the
input databox, oracles.gauss builds the joint Gaussian distribution of all states, shocks and observables over the
span and conditions by dense linear algebra:
   predict_* = moments given y_1..t-1, update_* given y_1..t, smooth_* given y_1..N, for variables AND shocks,
   predict_err, predict_mse_obs, neg_log_likelihood = -log N(y_obs; m, S), var_scale / concentrated likelihood when
   rescale_variance=True (stds scaled by sqrt(var_scale)), contributions sum to the total, zero where nothing is observed.
Unit-root models under diffuse_method="fixed_unknown": the unit-root block of the initial state is a fixed unknown;
the oracle concentrates it out by GLS (profile likelihood, moments at the GLS estimate and with its uncertainty).

Not decided: approx_diffuse (an approximation by design); singular prediction MSE (cond > 1e10 inconclusive);
measurement variables at unobserved cells (irispie reports NaN there by design); anticipated shock means.
"""

from __future__ import annotations

import numpy as np

from .. import runtime as rt
from ..oracles import gauss
from ..workloads import families as F
from ..workloads import models as M

ID = "C03"
TIERS = {
    "quick": {"shards": 8, "budget_s": 45},
    "thorough": {"shards": 16, "budget_s": 540},
}
MIN_EVENTS = {"quick": 400, "thorough": 1500}
DECIDING = {"kalman_filter", "variant-law"}
RULE = (
    "families L (linear, stationary, 1-3 observables with lags, 0-3 measurement shocks) and N (nonlinear, linearised, log "
    "observables); spans 1..16; masks none / random 30% / whole periods / leading block / everything / one observable never "
    "observed; constant and time-varying stds (stds_from_data), shock means (shocks_from_data), deviation in {T,F}, "
    "rescale_variance in {T,F}, more observables than shocks (singular F) in a small share. distinct key = (family, #xi, #y, "
    "#u, #w, mask class, span class, deviation, rescale, stds_from_data, shocks_from_data, log observables); non-trivial = at "
    "least 2 periods and one missing cell or time-varying std or 2 observables."
)
ASSUMPTIONS = [
    "the square first-order solution (T,P,K,Z,H,D) is taken as given (object of C01)",
    "dense numpy conditioning; tolerance 1e-7*(1+scale)*max(1, cond(S_obs)/1e6); cond(S_obs) > 1e10 inconclusive",
]
ANCHORS = [
    "irispie.fords.kalmans:predict",
    "irispie.fords.kalmans:update",
    "irispie.fords.kalmans:smooth",
    "irispie.fords.kalmans:one_step_back",
    "irispie.fords.kalmans:Cache.calculate_likelihood",
    "irispie.fords.kalmans:Cache.calculate_likelihood_contributions",
    "irispie.fords.kalmans:Cache._calculate_variance_scale",
    "irispie.fords.kalmans:estimate_unknown_init",
    "irispie.fords.kalmans:correct_for_unknown_init",
    "irispie.fords.kalmans:_OutputStore.store_smooth",
    "irispie.fords.initializers:_initialize_mse",
    "irispie.fords.covariances:get_cov_alpha_00",
    "irispie.simultaneous._kalmans:_generate_period_system",
    "irispie.simultaneous._kalmans:_generate_period_data",
]

_CASE = {}


def install():
    import irispie

    def make(orig):
        def kalman_filter(self, input_db, span, *args, **kwargs):
            result = orig(self, input_db, span, *args, **kwargs)
            c = rt.ctx()
            if c is None:
                return result
            try:
                _check(c, self, input_db, span, kwargs, result)
            except Exception as exc:
                c.inconc(f"kalman_filter:monitor-error:{type(exc).__name__}")
                c.extra["last_monitor_error"] = repr(exc)[:400]
            return result
        return kalman_filter
    rt.wrap_attr(irispie.Simultaneous, "kalman_filter", make)


def _series_values(db, name, span, default=np.nan):
    if name not in db:
        return np.full(len(span), default)
    try:
        a = np.asarray(db[name].get_data(span), dtype=float)
        return a[:, 0]
    except Exception:
        return np.full(len(span), default)


def build_joint(model, input_db, span, kwargs):
    """collects everything the oracle needs from the public surface of the model and the input databox"""
    span = tuple(span)
    N = len(span)
    deviation = bool(kwargs.get("deviation", False))
    sol = model.get_solution()
    T, P, K, Z, H, D = (np.asarray(getattr(sol, k), dtype=float) for k in ("T", "P", "K", "Z", "H", "D"))
    if deviation:
        K = np.zeros_like(K)
        D = np.zeros_like(D)
    vec = model._get_dynamic_solution_vectors()
    q2n = model.create_qid_to_name()
    logly = model.get_log_status()
    xi = [(q2n[t.qid], t.shift) for t in vec.transition_variables]
    ynames = [q2n[t.qid] for t in vec.measurement_variables]
    unames = [q2n[t.qid] for t in vec.transition_shocks]
    wnames = [q2n[t.qid] for t in vec.measurement_shocks]
    stds_par = model.get_stds()
    su = np.array([[float(stds_par["std_" + n])] * N for n in unames]).reshape(len(unames), N)
    sw = np.array([[float(stds_par["std_" + n])] * N for n in wnames]).reshape(len(wnames), N)
    su_init = su[:, 0].copy() if N else np.zeros(len(unames))
    tv_std = False
    if kwargs.get("stds_from_data"):
        for i, n in enumerate(unames):
            v = _series_values(input_db, "std_" + n, span)
            su[i, np.isfinite(v)] = v[np.isfinite(v)]
        for i, n in enumerate(wnames):
            v = _series_values(input_db, "std_" + n, span)
            sw[i, np.isfinite(v)] = v[np.isfinite(v)]
        tv_std = True
    ubar = np.zeros((len(unames), N))
    wbar = np.zeros((len(wnames), N))
    ant_present = False
    if kwargs.get("shocks_from_data"):
        for i, n in enumerate(unames):
            v = _series_values(input_db, n, span)
            ubar[i, np.isfinite(v)] = v[np.isfinite(v)]
            a = _series_values(input_db, "ant_" + n, span)
            ant_present = ant_present or bool(np.any(np.nan_to_num(a) != 0))
        for i, n in enumerate(wnames):
            v = _series_values(input_db, n, span)
            wbar[i, np.isfinite(v)] = v[np.isfinite(v)]
    Y = np.full((len(ynames), N), np.nan)
    for i, n in enumerate(ynames):
        v = _series_values(input_db, n, span)
        Y[i, :] = np.log(v) if logly.get(n) else v
    return {"T": T, "P": P, "K": K, "Z": Z, "H": H, "D": D, "xi": xi, "ynames": ynames, "unames": unames, "wnames": wnames,
            "su": su, "sw": sw, "su_init": su_init, "ubar": ubar, "wbar": wbar, "Y": Y, "N": N, "span": span, "logly": logly,
            "deviation": deviation, "tv_std": tv_std, "ant_present": ant_present, "sol": sol}


def _out_array(box, name, span, is_log):
    key = f"log({name})" if is_log and f"log({name})" in box else name
    if key not in box:
        return None, key
    a = np.asarray(box[key].get_data(span), dtype=float)[:, 0]
    if is_log and key == name:
        a = np.log(a)
    return a, key


def prepare(c, model, input_db, span, kwargs, tag="kalman_filter", allow_ant=False):
    """certificates + joint distribution; returns dict or None (inconclusive recorded under `tag`)"""
    if model.num_variants != 1:
        c.inconc(f"{tag}:multi-variant-call-not-decided")
        return None
    method = kwargs.get("diffuse_method", "fixed_unknown")
    if kwargs.get("prepend_initial") or kwargs.get("append_terminal") or kwargs.get("initials_from_data"):
        c.inconc(f"{tag}:option-not-decided")
        return None
    J = build_joint(model, input_db, span, kwargs)
    if J["ant_present"] and not allow_ant:
        c.inconc(f"{tag}:anticipated-shock-means-not-decided")
        return None
    T, P, K, Z, H, D = J["T"], J["P"], J["K"], J["Z"], J["H"], J["D"]
    n = T.shape[0]
    N = J["N"]
    mod = np.abs(np.linalg.eigvals(T))
    n_unit = int(np.sum(np.abs(mod - 1) <= 1e-8))
    if np.any((np.abs(mod - 1) < 1e-3) & ~(np.abs(mod - 1) <= 1e-8)) or np.any(mod > 1 + 1e-8):
        c.inconc(f"{tag}:modulus-too-close-to-one")
        return None
    if n_unit and method not in ("fixed_unknown", "fixed_zero"):
        c.inconc(f"{tag}:unit-root-model-with-approx_diffuse(not decided)")
        return None
    # degenerate square solution (rank condition) -> outside the quantifier
    try:
        ev = np.array(model.get_eigenvalues(), dtype=complex)
        keep = np.sort(np.abs(ev[np.abs(ev) <= 1 + 1e-8]))
        evT = np.sort(mod)
        k_ = min(len(keep), len(evT))
        if k_ and np.max(np.abs(keep[-k_:] - evT[-k_:])) > 1e-6:
            c.inconc(f"{tag}:square-solution-degenerate(rank condition fails)")
            return None
    except Exception:
        pass
    # ... and so is a model whose change of basis between the triangular and the square state is numerically singular (an unstable
    # root at 1.07 next to the rank condition almost failing: cond(Ua) = 9e14, entries of T of the order 1e15): the filter runs on
    # the triangular form, the oracle on the square one, and neither means anything
    try:
        if np.linalg.cond(np.asarray(J["sol"].Ua, dtype=float)) > 1e8 or np.max(np.abs(T), initial=0) > 1e8:
            c.inconc(f"{tag}:square-solution-numerically-degenerate")
            return None
    except Exception:
        pass
    if not n_unit:
        mu0, S0 = gauss.stationary_init(T, K, P, J["su_init"])
        jt = gauss.Joint(T, K, P, Z, D, H, mu0, S0, J["su"], J["sw"], J["ubar"], J["wbar"], None, N)
        jt.set_observations(J["Y"])
        condS = jt.cond_number()
        if not np.isfinite(condS) or condS > 1e10:
            c.inconc(f"{tag}:observation-covariance-singular-or-ill-conditioned")
            return None
    else:
        # unit roots: work on the block-triangular state alpha (xi = Ua alpha) whose first k elements are the unit-root block;
        # alpha_0 = [delta; alpha_s0], delta a fixed unknown (fixed_unknown: GLS estimate from the whole sample) or zero (fixed_zero)
        sol = J["sol"]
        # only the change of basis Ua is taken from irispie; the triangular system itself is re-derived from the square
        # solution (T Ua = Ua Ta, P = Ua Pa, K = Ua Ka, Za = Z Ua), so that a damaged stored Ta/Pa/Ka/Za (e.g. zeroed in place by
        # an earlier query on the same model object) cannot leak into the oracle
        Ua = np.asarray(sol.Ua, dtype=float)
        if Ua.shape != (n, n) or np.linalg.cond(Ua) > 1e8:
            c.inconc(f"{tag}:triangular-basis-not-usable")
            return None
        Ta = np.linalg.solve(Ua, T @ Ua)
        Pa = np.linalg.solve(Ua, P)
        Ka = np.linalg.solve(Ua, np.asarray(K, dtype=float).reshape(n, -1)).reshape(np.shape(K))
        Za = Z @ Ua
        for nm_, own in (("Ta", Ta), ("Pa", Pa), ("Ka", Ka), ("Za", Za)):
            if nm_ == "Ka" and J["deviation"]:
                continue
            theirs = np.asarray(getattr(sol, nm_), dtype=float).reshape(own.shape)
            if np.max(np.abs(theirs - own), initial=0) > 1e-8 * (1 + np.max(np.abs(own), initial=0)):
                c.note(f"{tag}:stored-{nm_}-differs-from-square-solution")
        if J["deviation"]:
            Ka = np.zeros_like(Ka)
        ku = int(sol.num_unit_roots)
        if ku != n_unit or np.max(np.abs(Ta[ku:, :ku]), initial=0) > 1e-10:
            c.inconc(f"{tag}:triangular-solution-not-in-expected-form")
            return None
        Ts = Ta[ku:, ku:]
        mu_s = np.linalg.solve(np.eye(Ts.shape[0]) - Ts, Ka[ku:])
        Qs = Pa[ku:] @ np.diag(J["su_init"] ** 2) @ Pa[ku:].T
        ms_ = Ts.shape[0]
        S_s = np.linalg.solve(np.eye(ms_ * ms_) - np.kron(Ts, Ts), Qs.reshape(-1)).reshape(ms_, ms_) if ms_ else np.zeros((0, 0))
        mu0 = np.concatenate([np.zeros(ku), mu_s])
        S0 = np.zeros((n, n))
        S0[ku:, ku:] = (S_s + S_s.T) / 2
        jt = gauss.Joint(Ta, Ka, Pa, Za, D, H, mu0, S0, J["su"], J["sw"], J["ubar"], J["wbar"], None, N)
        jt.set_observations(J["Y"])
        condS = jt.cond_number()
        if not np.isfinite(condS) or condS > 1e10:
            c.inconc(f"{tag}:observation-covariance-singular-or-ill-conditioned")
            return None
        if method == "fixed_unknown" and len(jt.y_obs):
            X = jt.A_obs[:, :ku]
            SiX = np.linalg.solve(jt.S_obs, X)
            XtSiX = X.T @ SiX
            sv = np.linalg.svd(XtSiX, compute_uv=False)
            if sv[-1] <= 1e-8 * max(1.0, sv[0]):
                c.inconc(f"{tag}:unknown-initial-condition-not-identified")
                return None
            delta = np.linalg.solve(XtSiX, SiX.T @ (jt.y_obs - jt.m_obs))
            jt.m_s[:ku] = delta
            jt.m_obs = jt.A_obs @ jt.m_s + jt.c_obs
            condS = max(condS, float(sv[0] / sv[-1]))
        # map alpha -> xi
        jt.A_xi = [Ua @ A for A in jt.A_xi]
        jt.c_xi = [Ua @ cc_ for cc_ in jt.c_xi]
    return {"jt": jt, "J": J, "n_unit": n_unit, "condS": condS, "method": method, "T": T, "n": n, "N": N}


def _check(c, model, input_db, span, kwargs, result):
    out, info = result if (isinstance(result, tuple) and kwargs.get("return_info")) else (result, None)
    pr = prepare(c, model, input_db, span, kwargs)
    if pr is None:
        return
    jt, J, n_unit, condS, method, T, n, N = (pr[k] for k in ("jt", "J", "n_unit", "condS", "method", "T", "n", "N"))
    case = c.case
    tolmul = max(1.0, condS / 1e6)
    rescale = bool(kwargs.get("rescale_variance", False))
    nll, quad, k = jt.neg_log_density()
    var_scale = 1.0
    if rescale and k > 0 and quad / k < 1e-10:
        c.inconc("kalman_filter:rescale_variance-with-(numerically)-perfect-fit")
        return
    if rescale and k > 0:
        var_scale = quad / k
        nll = 0.5 * (k * np.log(2 * np.pi) + np.linalg.slogdet(jt.S_obs)[1] + k * np.log(var_scale) + k)
    sd_scale = np.sqrt(var_scale)
    span = J["span"]
    Y = J["Y"]
    nmiss = int(np.sum(~np.isfinite(Y)))
    mask_class = "none" if nmiss == 0 else ("all" if nmiss == Y.size else ("whole-periods" if np.any(np.all(~np.isfinite(Y), axis=0)) else "cells"))
    key = (case.get("family") if isinstance(case, dict) else "?", n, len(J["ynames"]), len(J["unames"]), len(J["wnames"]), mask_class,
           "N1" if N == 1 else ("N<=4" if N <= 4 else "N>4"), J["deviation"], rescale, J["tv_std"], bool(kwargs.get("shocks_from_data")),
           any(J["logly"].get(nm) for nm in J["ynames"]))
    c.event("kalman_filter", "stationary" if not n_unit else f"unit-root:{method}", key=key + (n_unit, method if n_unit else ""), nontrivial=(N >= 2 and (nmiss > 0 or J["tv_std"] or len(J["ynames"]) >= 2)))
    vio = lambda kk, msg, detail=None: c.violation(kk, msg, detail=detail, case=case)

    def close(a, b, scale=None):
        scale = (1 + abs(b)) if scale is None else scale
        return abs(a - b) <= 1e-7 * scale * tolmul

    # ---- likelihood
    if info is not None:
        got = info.get("neg_log_likelihood")
        if got is not None and not close(got, nll, 1 + abs(nll) + k):
            vio("likelihood:total-differs" + (":rescale_variance" if rescale else ""), f"neg_log_likelihood {got!r} vs -log density {nll!r} ({k} observations)")
            return
        if rescale and info.get("var_scale") is not None and not close(info["var_scale"], var_scale):
            vio("likelihood:var_scale-differs", f"var_scale {info['var_scale']!r} vs {var_scale!r}")
            return
        contr = info.get("neg_log_likelihood_contributions")
        if contr is not None and got is not None:
            cv = np.asarray(contr.get_data(span), dtype=float)[:, 0]
            ref_c, Fs, pes = jt.contributions()
            if rescale and k > 0:
                kt = np.array([0 if f is None else f.shape[0] for f in Fs])
                ref_c = np.array([0.0 if f is None else 0.5 * (f.shape[0] * np.log(2 * np.pi) + np.linalg.slogdet(f)[1] + f.shape[0] * np.log(var_scale)
                                  + float(pe @ np.linalg.solve(f, pe)) / var_scale) for f, pe in zip(Fs, pes)])
            if not close(np.nansum(cv), got, 1 + abs(got) + k):
                vio("likelihood:contributions-do-not-sum-to-total" + (":rescale_variance" if rescale else ""),
                    f"sum of contributions {np.nansum(cv)!r} vs total {got!r}")
                return
            for t in range(N):
                if Fs[t] is None and not (cv[t] == 0 or np.isnan(cv[t])):
                    vio("likelihood:period-without-observations-contributes", f"period {t}: contribution {cv[t]!r}")
                    return
                if Fs[t] is not None and not close(cv[t], ref_c[t], 1 + abs(ref_c[t]) + Fs[t].shape[0]):
                    vio("likelihood:contribution-differs" + (":rescale_variance" if rescale else ""), f"period {t}: {cv[t]!r} vs {ref_c[t]!r}")
                    return
    if out is None:
        return
    # ---- moments
    zero_shift = [(i, nm) for i, (nm, s) in enumerate(J["xi"]) if s == 0]
    for stage, upto_of in (("predict", lambda t: t), ("update", lambda t: t + 1), ("smooth", lambda t: N)):
        med_box = out.get(f"{stage}_med") if hasattr(out, "get") else None
        std_box = out.get(f"{stage}_std") if hasattr(out, "get") else None
        if med_box is None:
            continue
        got_med, got_std = {}, {}
        for i, nm in zero_shift:
            got_med[("x", i)] = _out_array(med_box, nm, span, J["logly"].get(nm))[0]
            got_std[("x", i)] = _out_array(std_box, nm, span, J["logly"].get(nm))[0] if std_box is not None else None
        for i, nm in enumerate(J["unames"]):
            got_med[("u", i)] = _out_array(med_box, nm, span, False)[0]
            got_std[("u", i)] = _out_array(std_box, nm, span, False)[0] if std_box is not None else None
        for i, nm in enumerate(J["wnames"]):
            got_med[("w", i)] = _out_array(med_box, nm, span, False)[0]
            got_std[("w", i)] = _out_array(std_box, nm, span, False)[0] if std_box is not None else None
        for i, nm in enumerate(J["ynames"]):
            got_med[("y", i)] = _out_array(med_box, nm, span, J["logly"].get(nm))[0]
            got_std[("y", i)] = _out_array(std_box, nm, span, J["logly"].get(nm))[0] if std_box is not None else None
        for t in range(N):
            upto = upto_of(t)
            A = np.vstack([jt.A_xi[t][[i for i, _ in zero_shift]], jt.A_u[t], jt.A_w[t], jt.A_y[t]])
            cc = np.concatenate([jt.c_xi[t][[i for i, _ in zero_shift]], np.zeros(jt.nu), np.zeros(jt.nw), jt.c_y[t]])
            mean, cov = jt.cond(A, cc, upto)
            sd = np.sqrt(np.clip(np.diag(cov), 0, None)) * sd_scale
            labels = [("x", i) for i, _ in zero_shift] + [("u", i) for i in range(jt.nu)] + [("w", i) for i in range(jt.nw)] + [("y", i) for i in range(jt.ny)]
            scale_m = 1 + np.max(np.abs(mean)) if mean.size else 1.0
            scale_s = 1 + np.max(sd) if sd.size else 1.0
            for r, lab in enumerate(labels):
                gm = got_med.get(lab)
                if gm is not None and np.isfinite(gm[t]):
                    if not close(gm[t], mean[r], scale_m):
                        vio(f"{stage}_med:{_kind(lab)}-differs", f"{stage}_med of {_name(J, lab, zero_shift)} in period {t}: {gm[t]!r} vs conditional mean {mean[r]!r}",
                            detail={"stage": stage, "period": t, "quantity": _name(J, lab, zero_shift)})
                        return
                elif gm is not None and lab[0] != "y":
                    vio(f"{stage}_med:{_kind(lab)}-missing", f"{stage}_med of {_name(J, lab, zero_shift)} is not finite in period {t}")
                    return
                gs = got_std.get(lab)
                if gs is not None and np.isfinite(gs[t]):
                    # compared on the variance scale: a (numerically) zero conditional variance must not be amplified by the square root
                    if abs(gs[t] ** 2 - sd[r] ** 2) > 1e-7 * scale_s ** 2 * tolmul:
                        vio(f"{stage}_std:{_kind(lab)}-differs" + (":rescale_variance" if rescale else ""),
                            f"{stage}_std of {_name(J, lab, zero_shift)} in period {t}: {gs[t]!r} vs conditional std {sd[r]!r}",
                            detail={"stage": stage, "period": t, "quantity": _name(J, lab, zero_shift)})
                        return
    # ---- prediction errors and their MSE
    pe_box = out.get("predict_err") if hasattr(out, "get") else None
    ref_c, Fs, pes = jt.contributions()
    if pe_box is not None:
        for t in range(N):
            obs = [i for (tt, i) in jt.tags if tt == t]
            for j, i in enumerate(obs):
                nm = J["ynames"][i]
                g = _out_array(pe_box, nm, span, J["logly"].get(nm))
                keyname = f"log({nm})" if J["logly"].get(nm) and f"log({nm})" in pe_box else nm
                if keyname not in pe_box:
                    continue
                val = np.asarray(pe_box[keyname].get_data(span), dtype=float)[t, 0]
                if keyname == nm and J["logly"].get(nm):
                    continue  # the delogarithmised error is a ratio: compared through its log twin only
                if not close(val, pes[t][j], 1 + abs(pes[t][j]) + abs(J["Y"][i, t])):
                    vio("predict_err:differs", f"prediction error of {nm} in period {t}: {val!r} vs {pes[t][j]!r}")
                    return
    mse = out.get("predict_mse_obs") if hasattr(out, "get") else None
    if mse is not None:
        try:
            lst = mse[0] if (isinstance(mse, list) and mse and isinstance(mse[0], (list, tuple))) else mse
            for t in range(N):
                if Fs[t] is None:
                    continue
                G = np.asarray(lst[t], dtype=float) / 1.0
                R = Fs[t] * var_scale if False else Fs[t]
                if G.shape == R.shape and np.max(np.abs(G - R)) > 1e-7 * (1 + np.max(np.abs(R))) * tolmul:
                    vio("predict_mse_obs:differs", f"period {t}: max discrepancy {np.max(np.abs(G - R)):.3e}")
                    return
        except Exception:
            c.inconc("kalman_filter:predict_mse_obs-format-not-understood")


def _kind(lab):
    return {"x": "transition-variable", "u": "transition-shock", "w": "measurement-shock", "y": "measurement-variable"}[lab[0]]


def _name(J, lab, zero_shift):
    if lab[0] == "x":
        return dict(zero_shift)[lab[1]]
    return {"u": J["unames"], "w": J["wnames"], "y": J["ynames"]}[lab[0]][lab[1]]


# ------------------------------------------------------------------------------
# workload (shared with C08)
# ------------------------------------------------------------------------------


def make_case(rng, ant=False):
    r = rng.random()
    if r < 0.6:
        family = "L"
        ur = bool(rng.random() < 0.3)
        spec, meta = F.family_L(rng, unit_root=ur, measurement=True, persistent=(not ur and rng.random() < 0.25), forward_share=0.3)
        steady = None
        if "ar-persistent" in meta["types"]:
            i = meta["types"].index("ar-persistent")
            from ..oracles import expr as E
            spec["meqs"][0]["rhs"] = E.bin_("+", spec["meqs"][0]["rhs"], E.bin_("*", E.num(0.5), E.var(spec["tvars"][i]["name"], 0)))
        if "rw" in meta["types"]:
            # make sure the random walk is observed through some measurement equation
            i = meta["types"].index("rw")
            from ..oracles import expr as E
            spec["meqs"][0]["rhs"] = E.bin_("+", spec["meqs"][0]["rhs"], E.bin_("*", E.num(0.8), E.var(spec["tvars"][i]["name"], 0)))
    else:
        family = "N"
        spec, steady, meta = F.family_N(rng, measurement=True)
        if spec is None:
            return None
    ny = len(spec["mvars"])
    N = int(rng.integers(1, 17))
    mask_kind = str(rng.choice(["none", "random", "whole-periods", "leading-block", "all", "one-never"]))
    mask = np.zeros((ny, N), dtype=bool)
    if mask_kind == "random":
        mask = rng.random((ny, N)) < 0.3
    elif mask_kind == "whole-periods":
        mask[:, rng.random(N) < 0.35] = True
    elif mask_kind == "leading-block":
        mask[:, :int(rng.integers(0, N))] = True
    elif mask_kind == "all":
        mask[:] = True
    elif mask_kind == "one-never":
        mask[int(rng.integers(0, ny)), :] = True
        mask |= rng.random((ny, N)) < 0.1
    stds = {}
    for q in spec["tshocks"] + spec["mshocks"]:
        stds["std_" + q["name"]] = float(np.round(rng.uniform(0.2, 1.5) * (0.05 if family == "N" else 1.0), 4))
    opts = {"deviation": bool(rng.random() < 0.3), "rescale_variance": bool(rng.random() < 0.35)}
    if family == "L" and "rw" in meta["types"] and rng.random() < 0.25:
        opts["diffuse_method"] = "fixed_zero"
    tv = None
    if rng.random() < 0.3:
        opts["stds_from_data"] = True
        tv = {k: [float(np.round(v * rng.uniform(0.5, 2.0), 4)) for _ in range(N)] for k, v in stds.items()}
    means = None
    if rng.random() < 0.25:
        opts["shocks_from_data"] = True
        means = {q["name"]: [float(np.round(rng.normal(0, 0.5) * (0.05 if family == "N" else 1.0), 4)) if rng.random() < 0.4 else 0.0 for _ in range(N)]
                 for q in spec["tshocks"] + spec["mshocks"]}
    if ant and spec["tshocks"] and N >= 3 and rng.random() < 0.35:
        # anticipated (announced) shock paths handed to the filter with the data; only C08 decides these cases
        opts["shocks_from_data"] = True
        means = dict(means or {})
        for q in spec["tshocks"]:
            if rng.random() < 0.6:
                vals = [0.0] * N
                for _ in range(int(rng.integers(1, 3))):
                    vals[int(rng.integers(1, N))] = float(np.round(rng.normal(0, 0.5) * (0.05 if family == "N" else 1.0), 4))
                means["ant_" + q["name"]] = vals
    rr = M.render_source(spec, None, 0)
    return {"kind": "kalman", "family": family, "spec": spec, "steady": steady, "meta": meta, "source": rr["source"], "N": N,
            "mask": mask.astype(int).tolist(), "mask_kind": mask_kind, "stds": stds, "opts": opts, "tv_stds": tv, "shock_means": means,
            "data_seed": int(rng.integers(0, 10 ** 6)), "freq": str(rng.choice(["qq", "mm", "yy"])),
            "hist": int(rng.integers(0, 2 ** 31)) if rng.random() < 0.4 else None,
            "mv": _make_mv(rng, spec, stds, family) if rng.random() < 0.2 else None}


def _make_mv(rng, spec, stds, family):
    """values of a second parameter variant: some structural parameters (family L) and some stds differ"""
    par = {}
    if family == "L":
        for p in spec["params"]:
            if (p["name"].startswith("rho") or p["name"].startswith("a")) and rng.random() < 0.6:
                par[p["name"]] = float(np.round(p["value"] * rng.uniform(0.7, 0.95), 4))
    sd = {k: float(np.round(v * rng.uniform(1.3, 2.5), 4)) for k, v in stds.items() if rng.random() < 0.6}
    if not par and not sd and stds:
        k = sorted(stds)[0]
        sd[k] = float(np.round(stds[k] * 1.9, 4))
    return {"params": par, "stds": sd}



def build_model_and_data(c, case):
    """returns (model, databox, span) or None; the data are a simulated sample of the model plus noise"""
    import irispie as ir
    spec, family = case["spec"], case["family"]
    try:
        with rt.quiet():
            m = ir.Simultaneous.from_string(case["source"], **spec["flags"])
    except Exception as exc:
        c.inconc(f"parse-failed:{type(exc).__name__}")
        return None
    m.assign(**{p["name"]: p["value"] for p in spec["params"]})
    m.assign(**case["stds"])
    try:
        with rt.quiet():
            if family == "N":
                m.assign(**{n: (lvl, chg) for n, (lvl, chg) in case["steady"].items()})
            m.solve_steady()
            m.solve()
    except Exception as exc:
        c.inconc(f"steady-or-solve-failed:{type(exc).__name__}")
        return None
    s = str(m.get_solution().system_stability)
    if "MULTIPLE" in s or "NO_" in s:
        c.inconc("model-not-determinate")
        return None
    if case.get("hist") is not None:
        # history of the model object: query operations (autocovariances, simulations, other filter runs, ...) before the
        # monitored filter run on the same solved model
        from ..workloads import history as Hist
        for op in Hist.perturb(m, case["hist"], spec, freq=case["freq"]):
            c.note("history:" + op)
    N = case["N"]
    start = {"qq": ir.qq(2021, 2), "mm": ir.mm(2019, 11), "yy": ir.yy(1990)}[case["freq"]]
    span = ir.Span(start, start + (N - 1))
    g = np.random.default_rng(case["data_seed"])
    # a sample from the model itself (stochastic simulation with drawn shocks)
    db = ir.Databox.steady(m, span)
    for q in spec["tshocks"] + spec["mshocks"]:
        sd = case["stds"]["std_" + q["name"]]
        db[q["name"]] = ir.Series(start=start, values=g.normal(0, sd, size=N))
    try:
        with rt.quiet():
            sim = m.simulate(db, span, method="first_order")
    except Exception as exc:
        c.inconc(f"data-simulation-failed:{type(exc).__name__}")
        return None
    steady_db = ir.Databox.steady(m, span)
    data = ir.Databox()
    mask = np.array(case["mask"], dtype=bool)
    logly = m.get_log_status()
    for i, q in enumerate(spec["mvars"]):
        v = np.asarray(sim[q["name"]].get_data(span), dtype=float)[:, 0].copy()
        if case["opts"].get("deviation"):
            sv = np.asarray(steady_db[q["name"]].get_data(span), dtype=float)[:, 0]
            v = v / sv if logly.get(q["name"]) else v - sv
        v[mask[i, :]] = np.nan
        if not np.all(np.isnan(v)):
            data[q["name"]] = ir.Series(start=start, values=v)
    if case.get("tv_stds"):
        for k, vals in case["tv_stds"].items():
            data[k] = ir.Series(start=start, values=np.array(vals))
    if case.get("shock_means"):
        for k, vals in case["shock_means"].items():
            data[k] = ir.Series(start=start, values=np.array(vals))
    return m, data, span


def variant_law(c, case, m, data, span, res0):
    """A model with two parameter variants (structural parameters and stds differ) filtered in ONE call: variant k of every
    output equals the output of a single-variant model holding variant k's values (both single-variant runs go through the
    monitored, exactly conditioned route). Added after seeded changes read variant 0's solution / shock covariance for
    every variant."""
    import irispie as ir
    spec, family = case["spec"], case["family"]
    mv = case["mv"]
    p0 = {p["name"]: p["value"] for p in spec["params"]}
    p1 = dict(p0, **mv["params"])
    s0 = dict(case["stds"])
    s1 = dict(s0, **mv["stds"])

    def build(par, std, nvar=1):
        with rt.quiet():
            mm = ir.Simultaneous.from_string(case["source"], **spec["flags"])
            if nvar > 1:
                mm.alter_num_variants(nvar)
            mm.assign(**par)
            mm.assign(**std)
            if family == "N":
                mm.assign(**{n: (lvl, chg) for n, (lvl, chg) in case["steady"].items()})
            mm.solve_steady()
            mm.solve()
        return mm
    try:
        m1 = build(p1, s1)
        st = str(m1.get_solution().system_stability)
        if "MULTIPLE" in st or "NO_" in st:
            c.inconc("variant-law:second-variant-not-determinate")
            return
        m2 = build({k: [p0[k], p1[k]] for k in p0}, {k: [s0[k], s1[k]] for k in s0}, nvar=2)
    except Exception as exc:
        c.inconc(f"variant-law:build-failed:{type(exc).__name__}")
        return
    try:
        with rt.quiet(), np.errstate(all="ignore"):
            res1 = m1.kalman_filter(data, span, return_info=True, **case["opts"])      # monitored
            _BUSY["on"] = True
            try:
                res2 = m2.kalman_filter(data, span, return_info=True, **case["opts"])  # two variants in one call
            finally:
                _BUSY["on"] = False
    except Exception as exc:
        c.inconc(f"variant-law:filter-raised:{type(exc).__name__}")
        return
    out2, info2 = res2
    sp = tuple(span)
    for k, (outk, infok) in enumerate((res0, res1)):
        ik = info2[k] if isinstance(info2, (list, tuple)) else info2
        c.event("variant-law", "joint-call==single-variant-models", key=("vlaw", family, k, bool(case["opts"].get("rescale_variance")), bool(mv["params"]), bool(mv["stds"])), nontrivial=k >= 1)
        a, b = float(ik["neg_log_likelihood"]), float(infok["neg_log_likelihood"])
        if not ((np.isnan(a) and np.isnan(b)) or a == b or abs(a - b) <= 1e-7 * (1 + abs(b))):   # (inf == inf)
            c.violation("variant-law:likelihood-differs", f"variant {k}: neg_log_likelihood {a!r} in the two-variant call, {b!r} for the single-variant model with the same values", case=case)
            return
        for part in ("predict_med", "predict_std", "update_med", "update_std", "smooth_med", "smooth_std", "predict_err"):
            if part not in outk or part not in out2:
                continue
            for name in outk[part].keys():
                if name not in out2[part] or name.startswith("std_"):
                    continue
                x = np.asarray(out2[part][name].get_data(sp), dtype=float)
                y = np.asarray(outk[part][name].get_data(sp), dtype=float)[:, 0]
                if x.ndim != 2 or x.shape[1] < 2:
                    c.violation("variant-law:output-has-one-variant", f"{part}[{name}] has shape {x.shape} for a two-variant model", case=case)
                    return
                xk = x[:, k]
                both = np.isfinite(xk) & np.isfinite(y)
                if (np.isfinite(xk) != np.isfinite(y)).any() or (both.any() and np.max(np.abs(xk[both] - y[both])) > 1e-7 * (1 + np.max(np.abs(y[both])))):
                    err = np.max(np.abs(xk[both] - y[both])) if both.any() else float("nan")
                    c.violation(f"variant-law:{part}-differs", f"variant {k}: {part} of {name} differs by {err:.3e} between the two-variant call and the single-variant model with the same values", case=case)
                    return


_BUSY = {"on": False}


def run_case(c, case):
    with c.running(case):
        built = build_model_and_data(c, case)
        if built is None:
            return
        m, data, span = built
        res0 = None
        try:
            with rt.quiet(), np.errstate(all="ignore"):
                res0 = m.kalman_filter(data, span, return_info=True, **case["opts"])
        except Exception as exc:
            c.inconc(f"kalman_filter:raised:{type(exc).__name__}")
            c.note(f"kalman_filter:raised:{type(exc).__name__}:{str(exc)[:80]}")
        if res0 is not None and case.get("mv"):
            variant_law(c, case, m, data, span, res0)


def replay(c, case):
    install()
    run_case(c, case)


def shard(c):
    install()
    rng = c.rng
    n = c.scale(600, 4000)
    for i in range(n):
        if c.out_of_time():
            break
        try:
            case = make_case(rng)
        except Exception as exc:
            c.inconc(f"generator:error:{type(exc).__name__}")
            continue
        if case is None:
            continue
        try:
            run_case(c, case)
        except Exception as exc:
            c.inconc(f"harness:case-error:{type(exc).__name__}")
            c.extra["last_case_error"] = repr(exc)[:300]
        if i < 1:
            c.sample({k: case[k] for k in ("family", "source", "N", "mask", "stds", "opts")})
