"""
C14 -- trend filters hpf / lonf return the optimum of their problem; trend plus gap is the data

Deciding monitors (postconditions on the real public functions; oracle = irisverif.oracles.c14_opt):
  hpf        wrapper on irispie.hpf (every module binding of the function object)
  hpf_trend  wrapper on Series.hpf_trend (the functional irispie.hpf_trend goes through it)
  hpf_gap    wrapper on Series.hpf_gap
  lonf       wrapper on irispie.lonf (every module binding)
Workload-level (metamorphic / directed) checks, also deciding:
  hpf_line        data on a straight line (with holes, output span beyond the data) => trend == the line everywhere
  hpf_span_clips  hpf(x, span=S) == hpf(x) on S & span(x)
Diagnostic: daqp.solve exit flags are recorded; lonf() does not surface them, so a result returned after a failed solve is judged like any other.

What the hpf oracle asserts, per variant, for a call inside the quantifier (finite data, >= enough observations and
constraints for a unique optimum, lambda > 0 finite, positive data/constraints when log=True, contiguous output span,
cond(bordered matrix) <= 1e12):
  * the trend is returned on exactly the requested span (default: the span of the input), without holes;
  * trend == my own minimiser of  sum_Omega (y-x)^2 + lambda sum (D2 x)^2  s.t. level / change rows, computed on the
    encompassing span (hull of data, output span, constraint series) by a null-space least-squares solve;
    tolerance (1e-10 + 1000 eps cond) * scale; with log=True everything is compared in logs;
  * when the output span covers the hull: projected gradient Z'(Hx - b) of the RETURNED trend vanishes (1e-10 relative);
  * level and change constraints hold on the returned trend (1e-9 * scale + backward-error allowance eps*|F|);
  * gap == data - trend (data / trend for log=True) where data exist, missing elsewhere;
  * the inputs (x for hpf, level, change) are not modified.
lonf: trend + gap == data on the window; KKT conditions of  min 1/2|y-x|^2 + lambda |D_k x|_1  (nu recovered from
y - trend = D'nu by least squares; |nu| <= lambda; nu_i = lambda sign((Dx)_i) where (Dx)_i != 0) to 1e-5 relative plus
the solver's absolute tolerance 2e-6; every variant of the input must come back.

Not decided (never asserted):
  * The docstring of hpf writes lambda in front of the FIT term; the implementation, the default table (100/400/1600) and
    the universal convention put it in front of the roughness term. The oracle uses the standard convention; the docstring
    formula is taken to be a typo.
  * Default lambda for MONTHLY: the docstring table says 144,000, the code uses (10*12)^2 = 14,400. Either is accepted.
  * A change constraint dated at the first period of the filter span (its predecessor is outside the span) is ignored by
    irispie; the oracle ignores it as well (nothing else can be imposed).
  * Redundant-but-consistent constraints (e.g. level at t-1 and t plus change at t) make the bordered matrix singular:
    irispie raises LinAlgError / returns garbage. Counted as inconclusive ("redundant-constraints").
  * Multi-variant level/change series (only variant 0 is used), non-contiguous or backward output spans, empty series,
    non-positive data under log=True, fewer observations than needed for uniqueness: inconclusive.
  * lonf with a span reaching beyond the data or with missing values inside the window (NaN goes into the QP): inconclusive.
    For lonf the span selects the WINDOW of data that is filtered (unlike hpf); the KKT conditions are checked on that window.
"""

from __future__ import annotations

import sys

import numpy as np

from .. import runtime as rt
from ..oracles import c14_opt as opt

ID = "C14"
TIERS = {
    "quick": {"shards": 8, "budget_s": 30},
    "thorough": {"shards": 16, "budget_s": 300},
}
MIN_EVENTS = {"quick": 3000, "thorough": 30000}
DECIDING = {"hpf", "hpf_trend", "hpf_gap", "lonf", "hpf_line", "hpf_span_clips"}
EXHAUSTIVE = {"quick": False, "thorough": False}
RULE = (
    "random series: 6 frequencies (Y,H,Q,M,D,integer), lengths 3..80, 1-3 variants, scales 0.01..1000, interior holes and "
    "ragged variant edges (hpf), lambda log-uniform in 1e-3..1e6 or the frequency default, level/change constraint series "
    "read off a feasible trend (inside, at the edges and beyond the data), log=True on positive data, output span "
    "none/equal/inside/beyond/partly/disjoint; hpf, hpf_trend, hpf_gap in functional and method form; lonf orders 1 and 2 with "
    "windows inside the data. distinct key = (filter, freq, length class, lambda decade, constraint kind, log, NaN class, "
    "span class, n_variants); non-trivial = at least 4 periods in the filter span and 3 observations."
)
ASSUMPTIONS = [
    "numpy.linalg (svd, lstsq, cond) is correct; the oracle solves the HP problem as a stacked least-squares problem in the null space of the constraints",
    "standard HP convention: lambda multiplies the sum of squared second differences of the trend",
    "period serials: regular frequencies year*f + segment - 1, daily = proleptic ordinal (only differences of serials are used)",
    "daqp works with an absolute primal tolerance of 1e-6: KKT checks of lonf carry an absolute allowance of 2e-6",
    "Series.start / Series.data are read as the representation of a series (period-indexed map; C10 checks that representation)",
]
ANCHORS = [
    "irispie.series._hp:hpf",
    "irispie.series._hp:_data_hpf",
    "irispie.series._hp:_prepare_constraints",
    "irispie.series._hp:_remove_first_date_change",
    "irispie.series._hp:_get_default_smooth",
    "irispie.series._hp:_ConstrainedHodrickPrescottFilter.filter_data",
    "irispie.series._hp:_ConstrainedHodrickPrescottFilter._add_eye_for_observations",
    "irispie.series._hp:_ConstrainedHodrickPrescottFilter._create_plain_filter_matrix",
    "irispie.series._hp:_ConstrainedHodrickPrescottFilter._add_level_constraints",
    "irispie.series._hp:_ConstrainedHodrickPrescottFilter._add_change_constraints",
    "irispie.series._hp:Inlay.hpf_trend",
    "irispie.series._hp:Inlay.hpf_gap",
    "irispie.series._ell_one:lonf",
    "irispie.series._ell_one:_lonf_for_variant",
    "irispie.series._ell_one:_first_order_matrix_setup",
    "irispie.series._ell_one:_second_order_matrix_setup",
]

EPS = opt.EPS
_DEFAULT_SMOOTH = {1: (100.0,), 2: (400.0,), 4: (1600.0,), 12: (14400.0, 144000.0)}
_FREQ_LETTER = {1: "Y", 2: "H", 4: "Q", 12: "M", 365: "D", 0: "I"}
_INSTALLED = False
_SOLVER_FLAGS = []


# ------------------------------------------------------------------------------
# Reading irispie objects into plain data
# ------------------------------------------------------------------------------


def _snap(s):
    """(start_serial | None, data copy, freq int)"""
    if s is None:
        return None
    start = s.start
    data = np.array(s.data, dtype=float, copy=True)
    if data.ndim == 1:
        data = data.reshape(-1, 1)
    freq = int(s.frequency) if start is not None else None
    return (None if start is None else int(start.serial), data, freq)


def _col_on(snap, variant, lo, hi):
    """values of one variant of a snapshot on serials lo..hi (NaN where absent)"""
    start, data, _ = snap
    out = np.full(hi - lo + 1, np.nan)
    if start is None or data.shape[0] == 0:
        return out
    a = max(lo, start)
    b = min(hi, start + data.shape[0] - 1)
    if a <= b:
        out[a - lo:b - lo + 1] = data[a - start:b - start + 1, variant]
    return out


def _same(a, b):
    return a[0] == b[0] and a[1].shape == b[1].shape and bool(np.all((a[1] == b[1]) | (np.isnan(a[1]) & np.isnan(b[1]))))


def _span_serials(x, span):
    try:
        periods = x.resolve_periods(span)
        return [int(p.serial) for p in periods]
    except Exception:
        return None


def _classes(n, lam, level, change, log, nan_class, span_class, nv, freq):
    lc = "3" if n <= 3 else "4-7" if n <= 7 else "8-20" if n <= 20 else "21-50" if n <= 50 else ">50"
    dec = "default" if lam is None else int(np.floor(np.log10(lam) + 1e-12))
    ck = ("level" if level else "") + ("+" if level and change else "") + ("change" if change else "") or "none"
    return (_FREQ_LETTER.get(freq, str(freq)), lc, dec, ck, bool(log), nan_class, span_class, nv)


def _span_class(ds, de, span):
    if span is None:
        return "none"
    s0, s1 = span
    if (s0, s1) == (ds, de):
        return "equal"
    if s1 < ds or s0 > de:
        return "disjoint"
    if s0 >= ds and s1 <= de:
        return "inside"
    if s0 <= ds and s1 >= de:
        return "beyond"
    return "partly"


# ------------------------------------------------------------------------------
# hpf oracle evaluation
# ------------------------------------------------------------------------------


def _check_hp(c, which, xs, kw, span_serials, trend_snap, gap_snap, level_snap, change_snap, case):
    """which: hpf | hpf_trend | hpf_gap; *_snap = (start, data, freq) or None"""
    xstart, xdata, freq = xs
    if xstart is None or xdata.shape[0] == 0:
        c.inconc("hpf:empty-input")
        return
    extra = set(kw) - {"span", "smooth", "log", "level", "change"}
    if extra:
        c.inconc("hpf:unknown-options")
        return
    smooth = kw.get("smooth")
    log = bool(kw.get("log", False))
    if span_serials is None or len(span_serials) == 0:
        c.inconc("hpf:empty-or-unresolvable-span")
        return
    if any(b - a != 1 for a, b in zip(span_serials, span_serials[1:])):
        c.inconc("hpf:span-not-contiguous-forward")
        return
    s0, s1 = span_serials[0], span_serials[-1]
    ds, de = xstart, xstart + xdata.shape[0] - 1
    lo, hi = min(s0, ds), max(s1, de)
    for cs in (level_snap, change_snap):
        if cs is not None and cs[0] is not None and cs[1].shape[0]:
            if cs[1].shape[1] != 1:
                c.inconc("hpf:multi-variant-constraints")
                return
            if cs[2] != freq:
                c.inconc("hpf:constraint-frequency-differs")
                return
            lo, hi = min(lo, cs[0]), max(hi, cs[0] + cs[1].shape[0] - 1)
    T = hi - lo + 1
    if T < 3:
        c.inconc("hpf:filter-span-shorter-than-3")
        return
    if T > 400:
        c.inconc("hpf:filter-span-too-long-for-dense-oracle")
        return
    if smooth is None:
        lams = _DEFAULT_SMOOTH.get(freq, (1600.0,))
    else:
        try:
            lams = (float(smooth),)
        except Exception:
            c.inconc("hpf:smooth-not-a-number")
            return
    if not all(np.isfinite(l) and l > 0 for l in lams):
        c.inconc("hpf:smooth-not-positive")
        return
    level, change = {}, {}
    if level_snap is not None and level_snap[0] is not None:
        col = _col_on(level_snap, 0, lo, hi)
        level = {int(j): float(col[j]) for j in np.flatnonzero(~np.isnan(col))}
    if change_snap is not None and change_snap[0] is not None:
        col = _col_on(change_snap, 0, lo, hi)
        change = {int(j): float(col[j]) for j in np.flatnonzero(~np.isnan(col)) if j >= 1}
    vals = list(level.values()) + list(change.values())
    if not all(np.isfinite(v) for v in vals):
        c.inconc("hpf:non-finite-constraints")
        return
    if log and not all(v > 0 for v in vals):
        c.inconc("hpf:log-of-non-positive-constraint")
        return
    if log:
        level = {j: float(np.log(v)) for j, v in level.items()}
        change = {j: float(np.log(v)) for j, v in change.items()}
    nv = xdata.shape[1]
    nan_any = bool(np.isnan(xdata).any())
    interior = False
    for v in range(nv):
        col = xdata[:, v]
        ok = np.flatnonzero(~np.isnan(col))
        if ok.size and np.isnan(col[ok[0]:ok[-1] + 1]).any():
            interior = True
    nan_class = "interior" if interior else ("ragged" if nan_any else "none")
    sc = "none" if _is_default_span(kw) else _span_class(ds, de, (s0, s1))
    n_obs_min = int((~np.isnan(xdata)).sum(axis=0).min())
    key = (which,) + _classes(T, None if smooth is None else lams[0], level, change, log, nan_class, sc, nv, freq)
    c.event(which, f"{'log' if log else 'lin'}/{('level' if level else '') + ('change' if change else '') or 'plain'}",
            key=key, nontrivial=(T >= 4 and n_obs_min >= 3))
    ck = key[4]
    tag = f"[{ck}{',log' if log else ''}]"

    # ---- shape of the outputs
    n_out = s1 - s0 + 1
    if trend_snap is not None:
        if trend_snap[1].shape[1] != nv:
            c.violation("hpf:variants-lost", f"{which}: input has {nv} variants, trend has {trend_snap[1].shape[1]}", case=case)
            return
    if gap_snap is not None and gap_snap[1].shape[1] != nv:
        c.violation("hpf:variants-lost", f"{which}: input has {nv} variants, gap has {gap_snap[1].shape[1]}", case=case)
        return

    for v in range(nv):
        y = _col_on(xs, v, lo, hi)
        present = ~np.isnan(y)
        if not np.all(np.isfinite(y[present])):
            c.inconc("hpf:non-finite-data")
            continue
        if log:
            if not np.all(y[present] > 0):
                c.inconc("hpf:log-of-non-positive-data")
                continue
            yw = np.where(present, np.log(np.where(present, y, 1.0)), np.nan)
        else:
            yw = y
        sols = [opt.hp_solve(yw, lam, level, change) for lam in lams]
        if not sols[0].ok:
            c.inconc(f"hpf:oracle:{sols[0].why or 'not-solvable'}")
            continue
        if sols[0].cond > 1e12:
            c.inconc("hpf:ill-conditioned(cond>1e12)")
            continue
        scale = max(float(np.abs(yw[present]).max()) if present.any() else 0.0, float(np.abs(sols[0].trend).max()), 1e-300)
        if log:
            scale = max(scale, 1.0)
        # (the implementation solves one KKT system in which the smoothing parameter multiplies the curvature block: its rounding is
        # of the order eps * lambda even where the constraints alone determine the trend and the reduced problem has cond 1)
        tol = (1e-10 + 1000 * EPS * max(sols[0].cond, float(lams[0]))) * scale
        sl = slice(s0 - lo, s1 - lo + 1)

        t_out = None
        if trend_snap is not None:
            t_raw = _col_on(trend_snap, v, s0, s1)
            extent_ok = trend_snap[0] is not None and trend_snap[0] >= s0 and trend_snap[0] + trend_snap[1].shape[0] - 1 <= s1
            if not extent_ok:
                c.violation("hpf:trend-outside-requested-span",
                            f"{which}: trend on serials {trend_snap[0]}..{(trend_snap[0] or 0) + trend_snap[1].shape[0] - 1}, requested {s0}..{s1}", case=case)
                return
            if np.isnan(t_raw).any():
                c.violation("hpf:trend-missing-on-requested-span" + tag,
                            f"{which}: trend missing at offsets {np.flatnonzero(np.isnan(t_raw))[:5].tolist()} of the requested span (length {n_out})", case=case)
                return
            if log:
                if not np.all(t_raw > 0):
                    c.violation("hpf:log-trend-not-positive", f"{which}: log=True but trend has non-positive values", case=case)
                    return
                t_out = np.log(t_raw)
            else:
                t_out = t_raw
            errs = [float(np.abs(t_out - s.trend[sl]).max()) for s in sols]
            if min(errs) > tol:
                i = int(np.argmax(np.abs(t_out - sols[0].trend[sl])))
                c.violation("hpf:trend-not-optimal" + tag,
                            f"{which}: variant {v}: |trend - optimum| = {min(errs):.3g} > tol {tol:.3g} (scale {scale:.3g}, cond {sols[0].cond:.3g}, "
                            f"lambda {lams[0]:.6g}, T={T}); at span offset {i}: returned {t_out[i]:.10g}, optimum {sols[0].trend[sl][i]:.10g}"
                            + (f"; objective returned {opt.hp_objective(sols[0], t_out, yw, lams[0]):.10g} vs optimum {opt.hp_objective(sols[0], sols[0].trend, yw, lams[0]):.10g}" if (s0, s1) == (lo, hi) else ""),
                            case=case)
                return
            best = sols[int(np.argmin(errs))]
            lam_used = lams[int(np.argmin(errs))]
            # projected gradient of the returned trend (needs the whole filter span)
            if (s0, s1) == (lo, hi):
                pg, ref = opt.hp_projected_gradient(best, t_out)
                if pg > 1e-10 * ref:
                    c.violation("hpf:projected-gradient-nonzero" + tag,
                                f"{which}: variant {v}: |Z'(Hx-b)| = {pg:.3g} vs reference magnitude {ref:.3g}", case=case)
                    return
            # constraints on the returned trend
            ctol = (1e-9 + 100 * EPS * (16 * lam_used + 4)) * scale
            for j, val in level.items():
                if s0 - lo <= j <= s1 - lo and abs(t_out[j - (s0 - lo)] - val) > ctol:
                    c.violation("hpf:level-constraint-not-met" + ("[log]" if log else ""),
                                f"{which}: variant {v}: trend {t_out[j - (s0 - lo)]:.12g} != level {val:.12g} at filter offset {j}", case=case)
                    return
            for j, val in change.items():
                if s0 - lo <= j - 1 and j <= s1 - lo:
                    d = t_out[j - (s0 - lo)] - t_out[j - 1 - (s0 - lo)]
                    if abs(d - val) > 2 * ctol:
                        c.violation("hpf:change-constraint-not-met" + ("[log]" if log else ""),
                                    f"{which}: variant {v}: change of trend {d:.12g} != {val:.12g} at filter offset {j}", case=case)
                        return
        if gap_snap is not None:
            g_in = _col_on(gap_snap, v, s0, s1)
            ys = y[sl]
            have = ~np.isnan(ys)
            if gap_snap[0] is not None and gap_snap[1].shape[0]:
                g0, g1 = gap_snap[0], gap_snap[0] + gap_snap[1].shape[0] - 1
                stray = np.concatenate([_col_on(gap_snap, v, g0, s0 - 1) if g0 < s0 else np.zeros(0),
                                        _col_on(gap_snap, v, s1 + 1, g1) if g1 > s1 else np.zeros(0)])
                if stray.size and not np.all(np.isnan(stray)):
                    c.violation("hpf:gap-outside-requested-span", f"{which}: gap has values outside the requested span", case=case)
                    return
            if np.any(~np.isnan(g_in[~have])):
                c.violation("hpf:gap-where-no-data", f"{which}: variant {v}: gap defined at span offsets {np.flatnonzero(~np.isnan(g_in) & ~have)[:5].tolist()} where the input has no observation", case=case)
                return
            if np.any(np.isnan(g_in[have])):
                c.violation("hpf:gap-missing-where-data" + tag, f"{which}: variant {v}: gap missing at span offsets {np.flatnonzero(np.isnan(g_in) & have)[:5].tolist()} where data exist", case=case)
                return
            if have.any():
                if log and not np.all(g_in[have] > 0):
                    c.violation("hpf:log-gap-not-positive", f"{which}: log=True but gap has non-positive values", case=case)
                    return
                g_w = np.log(g_in[have]) if log else g_in[have]
                y_w = yw[sl][have]
                if t_out is not None:
                    err = float(np.abs(t_out[have] + g_w - y_w).max())
                    if err > 1e-11 * scale:
                        c.violation("hpf:trend-plus-gap-not-data" + ("[log]" if log else ""),
                                    f"{which}: variant {v}: max |trend (+/*) gap - data| = {err:.3g} (scale {scale:.3g})", case=case)
                        return
                else:
                    errs = [float(np.abs(s.trend[sl][have] + g_w - y_w).max()) for s in sols]
                    if min(errs) > tol:
                        c.violation("hpf:gap-not-data-minus-optimal-trend" + tag,
                                    f"{which}: variant {v}: |gap - (data - optimum)| = {min(errs):.3g} > tol {tol:.3g}", case=case)
                        return


def _is_default_span(kw):
    return ("span" not in kw) or kw["span"] is None or kw["span"] is ...


# ------------------------------------------------------------------------------
# Monitors
# ------------------------------------------------------------------------------


def _wrap_everywhere(orig, name, wrapper):
    n = 0
    for modname, mod in list(sys.modules.items()):
        if not modname.startswith("irispie") or mod is None:
            continue
        if mod.__dict__.get(name) is orig:
            rt.wrap_attr(mod, name, lambda raw, w=wrapper: w)
            n += 1
    return n


def _in_quantifier_hp(xs, kw):
    """cheap test used only to classify an exception raised by irispie"""
    try:
        if xs[0] is None or xs[1].shape[0] < 3:
            return False
        if set(kw) - {"span", "smooth", "log", "level", "change"}:
            return False
        sm = kw.get("smooth")
        if sm is not None and not (np.isfinite(float(sm)) and float(sm) > 0):
            return False
        if (~np.isnan(xs[1])).sum(axis=0).min() < 3:
            return False
        if kw.get("log") and not np.all(xs[1][~np.isnan(xs[1])] > 0):
            return False
        return True
    except Exception:
        return False


def install():
    global _INSTALLED
    if _INSTALLED:
        return
    _INSTALLED = True
    import irispie
    from irispie.series import _hp, _ell_one
    Series = irispie.Series

    # ---- hpf (function)
    orig_hpf = _hp.hpf

    def hpf(self, *args, **kwargs):
        c = rt.ctx()
        if c is None:
            return orig_hpf(self, *args, **kwargs)
        pre = None
        try:
            xs = _snap(self)
            ls, cs = _snap(kwargs.get("level")), _snap(kwargs.get("change"))
            span_serials = _span_serials(self, kwargs.get("span", ...))
            pre = (xs, ls, cs, span_serials)
        except Exception as exc:
            c.inconc(f"hpf:monitor-error:{type(exc).__name__}")
        try:
            result = orig_hpf(self, *args, **kwargs)
        except Exception as exc:
            if pre is not None and not args:
                _classify_hp_exception(c, "hpf", pre, kwargs, exc)
            raise
        if pre is None or args:
            return result
        try:
            trend, gap = result
            if not _same(_snap(self), xs):
                c.violation("hpf:input-mutated", "hpf modified its input series")
            for nm, obj, sn in (("level", kwargs.get("level"), ls), ("change", kwargs.get("change"), cs)):
                if obj is not None and not _same(_snap(obj), sn):
                    c.violation("hpf:constraint-series-mutated", f"hpf modified the {nm} series")
            _check_hp(c, "hpf", xs, kwargs, span_serials, _snap(trend), _snap(gap), ls, cs, None)
        except Exception as exc:
            c.inconc(f"hpf:monitor-error:{type(exc).__name__}")
        return result

    n = _wrap_everywhere(orig_hpf, "hpf", hpf)
    if n == 0:
        c = rt.ctx()
        if c is not None:
            c.note("anchor_missing:irispie.hpf")

    # ---- hpf_trend / hpf_gap (methods; functional forms call them on a copy)
    def make_method(which):
        def make(orig):
            def method(self, *args, **kwargs):
                c = rt.ctx()
                if c is None:
                    return orig(self, *args, **kwargs)
                pre = None
                try:
                    xs = _snap(self)
                    ls, cs = _snap(kwargs.get("level")), _snap(kwargs.get("change"))
                    span_serials = _span_serials(self, kwargs.get("span", ...))
                    pre = (xs, ls, cs, span_serials)
                except Exception as exc:
                    c.inconc(f"{which}:monitor-error:{type(exc).__name__}")
                try:
                    result = orig(self, *args, **kwargs)
                except Exception as exc:
                    if pre is not None and not args:
                        _classify_hp_exception(c, which, pre, kwargs, exc)
                    raise
                if pre is None or args:
                    return result
                try:
                    out = _snap(self)
                    for nm, obj, sn in (("level", kwargs.get("level"), ls), ("change", kwargs.get("change"), cs)):
                        if obj is not None and not _same(_snap(obj), sn):
                            c.violation("hpf:constraint-series-mutated", f"{which} modified the {nm} series")
                    if which == "hpf_trend":
                        _check_hp(c, which, xs, kwargs, span_serials, out, None, ls, cs, None)
                    else:
                        _check_hp(c, which, xs, kwargs, span_serials, None, out, ls, cs, None)
                except Exception as exc:
                    c.inconc(f"{which}:monitor-error:{type(exc).__name__}")
                return result
            return method
        return make

    rt.wrap_attr(Series, "hpf_trend", make_method("hpf_trend"))
    rt.wrap_attr(Series, "hpf_gap", make_method("hpf_gap"))

    # ---- daqp exit flags (diagnostic)
    try:
        import daqp

        def make_solve(orig):
            def solve(*args, **kwargs):
                out = orig(*args, **kwargs)
                try:
                    _SOLVER_FLAGS.append(int(out[2]))
                except Exception:
                    _SOLVER_FLAGS.append(None)
                return out
            return solve
        rt.wrap_attr(daqp, "solve", make_solve)
    except Exception:
        pass

    # ---- lonf
    orig_lonf = _ell_one.lonf

    def lonf(input_series, *args, **kwargs):
        c = rt.ctx()
        if c is None:
            return orig_lonf(input_series, *args, **kwargs)
        pre = None
        try:
            names = ("order", "smooth", "span")
            call = dict(zip(names, args))
            call.update(kwargs)
            xs = _snap(input_series)
            span_serials = _span_serials(input_series, call.get("span"))
            pre = (xs, call, span_serials)
        except Exception as exc:
            c.inconc(f"lonf:monitor-error:{type(exc).__name__}")
        del _SOLVER_FLAGS[:]
        try:
            result = orig_lonf(input_series, *args, **kwargs)
        except Exception as exc:
            if pre is not None:
                ok, why = _lonf_quantifier(*pre)
                if ok:
                    c.violation(f"lonf:raised:{type(exc).__name__}", f"lonf raised {type(exc).__name__}: {exc}")
                else:
                    c.inconc(f"lonf:raised-outside-quantifier:{why}")
            raise
        if pre is None:
            return result
        try:
            if not _same(_snap(input_series), xs):
                c.violation("lonf:input-mutated", "lonf modified its input series")
            _check_lonf(c, xs, call, span_serials, _snap(result[0]), _snap(result[1]), list(_SOLVER_FLAGS))
        except Exception as exc:
            c.inconc(f"lonf:monitor-error:{type(exc).__name__}")
        return result

    n = _wrap_everywhere(orig_lonf, "lonf", lonf)
    if n == 0:
        c = rt.ctx()
        if c is not None:
            c.note("anchor_missing:irispie.lonf")


def _classify_hp_exception(c, which, pre, kwargs, exc):
    xs, ls, cs, span_serials = pre
    try:
        if not _in_quantifier_hp(xs, kwargs) or not span_serials:
            c.inconc(f"{which}:raised-outside-quantifier:{type(exc).__name__}")
            return
        # singular problems (redundant constraints, too few observations) are outside the quantifier: ask the oracle
        s0, s1 = span_serials[0], span_serials[-1]
        lo, hi = min(s0, xs[0]), max(s1, xs[0] + xs[1].shape[0] - 1)
        for sn in (ls, cs):
            if sn is not None and sn[0] is not None and sn[1].shape[0]:
                lo, hi = min(lo, sn[0]), max(hi, sn[0] + sn[1].shape[0] - 1)
        level, change = {}, {}
        if ls is not None and ls[0] is not None:
            col = _col_on(ls, 0, lo, hi)
            level = {int(j): float(col[j]) for j in np.flatnonzero(~np.isnan(col))}
        if cs is not None and cs[0] is not None:
            col = _col_on(cs, 0, lo, hi)
            change = {int(j): float(col[j]) for j in np.flatnonzero(~np.isnan(col)) if j >= 1}
        if kwargs.get("log") and not all(v > 0 for v in list(level.values()) + list(change.values())):
            c.inconc(f"{which}:raised-outside-quantifier:log-of-non-positive-constraint")
            return
        lam = float(kwargs["smooth"]) if kwargs.get("smooth") is not None else _DEFAULT_SMOOTH.get(xs[2], (1600.0,))[0]
        for v in range(xs[1].shape[1]):
            res = opt.hp_solve(_col_on(xs, v, lo, hi), lam, level, change)
            if not res.ok or res.cond > 1e12:
                c.inconc(f"{which}:raised-on-ill-posed-problem:{res.why or 'ill-conditioned'}")
                return
        c.violation(f"{which}:raised:{type(exc).__name__}", f"{which} raised {type(exc).__name__}: {exc}")
    except Exception as exc2:
        c.inconc(f"{which}:monitor-error:{type(exc2).__name__}")


def _lonf_quantifier(xs, call, span_serials):
    try:
        order = call.get("order")
        if order not in (1, 2):
            return False, "order"
        lam = float(call.get("smooth"))
        if not (np.isfinite(lam) and lam > 0):
            return False, "smooth"
        if xs[0] is None or not span_serials:
            return False, "empty"
        if any(b - a != 1 for a, b in zip(span_serials, span_serials[1:])):
            return False, "span-not-contiguous-forward"
        s0, s1 = span_serials[0], span_serials[-1]
        if s0 < xs[0] or s1 > xs[0] + xs[1].shape[0] - 1:
            return False, "span-beyond-data"
        if s1 - s0 + 1 - order < 1:
            return False, "window-too-short"
        win = xs[1][s0 - xs[0]:s1 - xs[0] + 1, :]
        if not np.all(np.isfinite(win)):
            return False, "missing-values-in-window"
        return True, ""
    except Exception:
        return False, "unreadable-arguments"


def _check_lonf(c, xs, call, span_serials, trend_snap, gap_snap, flags):
    ok, why = _lonf_quantifier(xs, call, span_serials)
    if not ok:
        c.inconc(f"lonf:outside-quantifier:{why}")
        return
    order, lam = int(call["order"]), float(call["smooth"])
    s0, s1 = span_serials[0], span_serials[-1]
    n = s1 - s0 + 1
    nv = xs[1].shape[1]
    whole = (s0 == xs[0] and s1 == xs[0] + xs[1].shape[0] - 1)
    lc = "3" if n <= 3 else "4-7" if n <= 7 else "8-20" if n <= 20 else "21-50" if n <= 50 else ">50"
    key = ("lonf", _FREQ_LETTER.get(xs[2], str(xs[2])), lc, int(np.floor(np.log10(lam) + 1e-12)), f"order{order}", False, "none",
           "none" if call.get("span") is None else ("equal" if whole else "inside"), nv)
    c.event("lonf", f"order{order}", key=key, nontrivial=(n - order >= 2))
    nvt, nvg = trend_snap[1].shape[1], gap_snap[1].shape[1]
    if nvt != nv or nvg != nv:
        c.violation("lonf:variants-dropped", f"input has {nv} variants, returned trend has {nvt} and gap has {nvg}")
    if any(f is None or f < 1 for f in flags):
        # the QP solver's own exit flag says "not solved", but lonf() returned a result without raising or warning: the caller
        # is given that result as THE trend, so it is judged like any other (a non-optimal trend is then a violation whose key
        # carries the ignored flag). On the unchanged tree the flag never fails on the generated inputs (counted in notes).
        c.note("lonf:daqp-exitflag-below-1-but-lonf-returned-normally")
    for v in range(min(nv, nvt, nvg)):
        y = xs[1][s0 - xs[0]:s1 - xs[0] + 1, v]
        t = _col_on(trend_snap, v, s0, s1)
        g = _col_on(gap_snap, v, s0, s1)
        for sn, nm in ((trend_snap, "trend"), (gap_snap, "gap")):
            if sn[0] is not None and sn[1].shape[0] and (sn[0] < s0 or sn[0] + sn[1].shape[0] - 1 > s1):
                c.violation("lonf:output-outside-window", f"{nm} on serials {sn[0]}..{sn[0] + sn[1].shape[0] - 1}, window {s0}..{s1}")
                return
        problems, info = opt.l1_kkt(y, order, lam, t, g)
        if info.get("n_active"):
            c.note("lonf:variants-with-active-kinks")
        for k, msg in problems:
            c.violation(k + (f"[order{order}]" if ":kkt:" in k else ""), f"variant {v}, n={n}, order={order}, lambda={lam:.6g}: {msg}")
        if problems:
            return


# ------------------------------------------------------------------------------
# Workload
# ------------------------------------------------------------------------------

_FREQS = ["Y", "H", "Q", "M", "D", "I"]


def _period(ir, freq, base, offset=0):
    if freq == "Y":
        p = ir.yy(int(base[0]))
    elif freq == "H":
        p = ir.hh(int(base[0]), int(base[1]))
    elif freq == "Q":
        p = ir.qq(int(base[0]), int(base[1]))
    elif freq == "M":
        p = ir.mm(int(base[0]), int(base[1]))
    elif freq == "D":
        p = ir.dd(int(base[0]), int(base[1]), int(base[2]))
    else:
        p = ir.ii(int(base[0]))
    return p + int(offset) if offset else p


def _rand_base(rng, freq):
    year = int(rng.integers(1960, 2040))
    if freq == "Y":
        return [year]
    if freq == "H":
        return [year, int(rng.integers(1, 3))]
    if freq == "Q":
        return [year, int(rng.integers(1, 5))]
    if freq == "M":
        return [year, int(rng.integers(1, 13))]
    if freq == "D":
        return [year, int(rng.choice([1, 2, 3, 12, 12, 6])), int(rng.integers(1, 29))]
    return [int(rng.integers(-50, 500))]


def _series_from(ir, freq, base, offset, rows):
    arr = np.array(rows, dtype=float)
    if arr.ndim == 1:
        arr = arr.reshape(-1, 1)
    return ir.Series(start=_period(ir, freq, base, offset), values=arr)


def _sparse_series(ir, freq, base, mapping):
    """single-variant series from {offset: value}; None when empty"""
    if not mapping:
        return None
    offs = sorted(int(k) for k in mapping)
    lo, hi = offs[0], offs[-1]
    arr = np.full((hi - lo + 1, 1), np.nan)
    for k, v in mapping.items():
        arr[int(k) - lo, 0] = float(v)
    return ir.Series(start=_period(ir, freq, base, lo), values=arr)


def _gen_hpf_case(rng, tier_big, directed=None):
    freq = _FREQS[int(rng.integers(0, len(_FREQS)))]
    n = int(rng.choice([3, 4, 5, 6, 8, 12, 20, 33, 50, 80])) if rng.random() < 0.5 else int(rng.integers(3, 81))
    nv = int(rng.choice([1, 1, 2, 3]))
    log = bool(rng.random() < 0.3)
    scale = float(rng.choice([0.01, 1.0, 1.0, 100.0, 1000.0]))
    kind = int(rng.integers(0, 4))
    t = np.arange(n, dtype=float)
    cols = []
    for v in range(nv):
        if kind == 0:
            y = np.cumsum(rng.normal(size=n)) + rng.normal() * 5
        elif kind == 1:
            y = rng.normal(size=n) + rng.normal() * 3
        elif kind == 2:
            y = 0.05 * rng.normal() * t + np.sin(t / rng.uniform(1.5, 9)) + 0.2 * rng.normal(size=n)
        else:
            y = np.round(rng.normal(size=n) * 3)
        y = y * scale
        if log:
            y = np.exp(np.clip(y / scale * 0.3, -5, 5)) * scale
        cols.append(y)
    data = np.column_stack(cols)
    nan_mode = int(rng.choice([0, 0, 1, 2, 3]))
    if nan_mode in (1, 3) and n >= 5:
        k = int(rng.integers(1, max(2, n // 3)))
        for v in range(nv):
            idx = rng.choice(np.arange(1, n - 1), size=min(k, n - 2), replace=False)
            data[idx, v] = np.nan
            if rng.random() < 0.5:
                a = int(rng.integers(1, n - 1))
                data[a:min(n - 1, a + int(rng.integers(1, 6))), v] = np.nan
    if nan_mode in (2, 3) and nv > 1 and n >= 6:
        for v in range(1, nv):
            data[:int(rng.integers(0, 3)), v] = np.nan
            e = int(rng.integers(0, 3))
            if e:
                data[-e:, v] = np.nan
    # make sure the first and last rows carry at least one observation (a Series trims them otherwise)
    if np.all(np.isnan(data[0])):
        data[0, 0] = scale
    if np.all(np.isnan(data[-1])):
        data[-1, 0] = scale
    # output span
    sm = int(rng.choice([0, 0, 1, 2, 3, 4, 5]))
    if sm == 0:
        span = None
    elif sm == 1:
        a = int(rng.integers(0, n))
        span = [a, int(rng.integers(a, n))]
    elif sm == 2:
        span = [-int(rng.integers(0, 9)), n - 1 + int(rng.integers(0, 15))]
    elif sm == 3:
        if rng.random() < 0.5:
            span = [-int(rng.integers(1, 9)), int(rng.integers(0, n))]
        else:
            span = [int(rng.integers(0, n)), n - 1 + int(rng.integers(1, 15))]
    elif sm == 4:
        span = [0, n - 1]
    else:
        if rng.random() < 0.5:
            a = n + int(rng.integers(0, 5))
            span = [a, a + int(rng.integers(0, 8))]
        else:
            b = -1 - int(rng.integers(0, 5))
            span = [b - int(rng.integers(0, 8)), b]
    lo = min(0, span[0]) if span else 0
    hi = max(n - 1, span[1]) if span else n - 1
    # constraints read off a feasible (smooth) trend on a slightly wider window
    cm = int(rng.choice([0, 0, 1, 2, 3]))
    wlo, whi = lo - int(rng.integers(0, 4)) * (rng.random() < 0.3), hi + int(rng.integers(0, 6)) * (rng.random() < 0.3)
    wt = np.arange(wlo, whi + 1, dtype=float)
    centre = float(np.nanmean(data))
    feas = centre + scale * (0.1 * rng.normal() * (wt - wt[0]) + 0.3 * np.cumsum(rng.normal(size=wt.size)) * 0.3)
    if log:
        feas = np.exp(np.log(max(abs(centre), 1e-3 * scale)) + 0.02 * rng.normal() * (wt - wt[0]) + 0.05 * np.cumsum(rng.normal(size=wt.size)))
    level, change = {}, {}
    if cm in (1, 3):
        for j in rng.choice(wt.size, size=min(wt.size, int(rng.integers(1, 4))), replace=False):
            level[int(wt[int(j)])] = float(feas[int(j)])
    if cm in (2, 3) and wt.size >= 2:
        for j in rng.choice(np.arange(1, wt.size), size=min(wt.size - 1, int(rng.integers(1, 4))), replace=False):
            j = int(j)
            # avoid redundancy: level at both ends of a change constraint
            if int(wt[j]) in level and int(wt[j - 1]) in level:
                continue
            change[int(wt[j])] = float(feas[j] / feas[j - 1]) if log else float(feas[j] - feas[j - 1])
        if rng.random() < 0.25:
            # change constraint dated at the first period of the filter span (irispie ignores it; see "Not decided")
            first = min([lo] + list(level) + list(change))
            change[first] = float(1.01 if log else 0.1 * scale)
    smooth = None if rng.random() < 0.12 else float(10 ** rng.uniform(-3, 6))
    forms = ["hpf"]
    r = rng.random()
    if r < 0.35:
        forms += ["hpf_trend", "hpf_gap"]
    elif r < 0.5:
        forms += ["m:hpf_trend", "m:hpf_gap"]
    return {"kind": "hpf", "freq": freq, "base": _rand_base(rng, freq), "data": data.tolist(), "smooth": smooth, "log": log,
            "level": {str(k): v for k, v in level.items()}, "change": {str(k): v for k, v in change.items()}, "span": span, "forms": forms}


def _run_hpf_case(c, case):
    import irispie as ir
    freq, base = case["freq"], case["base"]
    with c.running(case):
        x = _series_from(ir, freq, base, case.get("offset", 0), case["data"])
        kw = {}
        if case.get("smooth") is not None:
            kw["smooth"] = float(case["smooth"])
        if case.get("log"):
            kw["log"] = True
        level = _sparse_series(ir, freq, base, case.get("level") or {})
        change = _sparse_series(ir, freq, base, case.get("change") or {})
        if level is not None:
            kw["level"] = level
        if change is not None:
            kw["change"] = change
        if case.get("span") is not None:
            kw["span"] = ir.Span(_period(ir, freq, base, case["span"][0]), _period(ir, freq, base, case["span"][1]))
        results = {}
        for form in case.get("forms", ["hpf"]):
            try:
                with rt.quiet():
                    if form == "hpf":
                        results["hpf"] = ir.hpf(x, **kw)
                    elif form == "hpf_trend":
                        results["trend"] = ir.hpf_trend(x, **kw)
                    elif form == "hpf_gap":
                        results["gap"] = ir.hpf_gap(x, **kw)
                    elif form == "m:hpf_trend":
                        y = x.copy()
                        y.hpf_trend(**kw)
                        results["trend"] = y
                    elif form == "m:hpf_gap":
                        y = x.copy()
                        y.hpf_gap(**kw)
                        results["gap"] = y
            except Exception:
                pass   # classified by the monitor
        # functional hpf_trend / hpf_gap must agree with hpf (same computation)
        if "hpf" in results and "trend" in results:
            a, b = _snap(results["hpf"][0]), _snap(results["trend"])
            c.event("hpf_trend", "agrees-with-hpf")
            if not (a[0] == b[0] and a[1].shape == b[1].shape and np.allclose(a[1], b[1], rtol=1e-12, atol=0, equal_nan=True)):
                c.violation("hpf:hpf_trend-differs-from-hpf", "hpf_trend and the first output of hpf differ")
        if "hpf" in results and "gap" in results:
            a, b = _snap(results["hpf"][1]), _snap(results["gap"])
            c.event("hpf_gap", "agrees-with-hpf")
            if not (a[0] == b[0] and a[1].shape == b[1].shape and np.allclose(a[1], b[1], rtol=1e-12, atol=0, equal_nan=True)):
                c.violation("hpf:hpf_gap-differs-from-hpf", "hpf_gap and the second output of hpf differ")
        # the span only clips
        if case.get("span") is not None and "hpf" in results and _clip_comparable(case):
            try:
                kw2 = {k: v for k, v in kw.items() if k != "span"}
                with rt.quiet():
                    full_t, full_g = ir.hpf(x, **kw2)
                _compare_clip(c, case, x, results["hpf"], (full_t, full_g), kw)
            except Exception:
                pass


def _clip_comparable(case):
    """hpf(x, span=S) and hpf(x) solve the same problem unless a change constraint sits on the first period of one
    filter span but not of the other (irispie ignores a change constraint dated at the first filter period)"""
    n = len(case["data"])
    keys = [int(k) for k in (case.get("level") or {})] + [int(k) for k in (case.get("change") or {})]
    first_without = min([0] + keys)
    first_with = min([first_without, int(case["span"][0])])
    ch = {int(k) for k in (case.get("change") or {})}
    return (first_without in ch) == (first_with in ch) or first_with == first_without


def _compare_clip(c, case, x, part, full, kw):
    xs = _snap(x)
    ds, de = xs[0], xs[0] + xs[1].shape[0] - 1
    pt, ft = _snap(part[0]), _snap(full[0])
    if pt[0] is None or ft[0] is None:
        return
    lo, hi = max(ds, pt[0]), min(de, pt[0] + pt[1].shape[0] - 1)
    if lo > hi:
        return
    log = bool(kw.get("log"))
    lam = kw.get("smooth") or _DEFAULT_SMOOTH.get(xs[2], (1600.0,))[0]
    # well-posedness / conditioning certificate from the oracle, on the filter span of the run WITH the span
    keys = [int(k) for k in (case.get("level") or {})] + [int(k) for k in (case.get("change") or {})]
    h0 = min([0, int(case["span"][0])] + keys)
    h1 = max([xs[1].shape[0] - 1, int(case["span"][1])] + keys)
    level = {int(k) - h0: (np.log(v) if log else v) for k, v in (case.get("level") or {}).items()}
    change = {int(k) - h0: (np.log(v) if log else v) for k, v in (case.get("change") or {}).items() if int(k) - h0 >= 1}
    c.event("hpf_span_clips", "log" if log else "lin", key=("clip", _FREQ_LETTER.get(xs[2]), log, "level" in kw, "change" in kw), nontrivial=True)
    for v in range(xs[1].shape[1]):
        y = _col_on(xs, v, ds + h0, ds + h1)
        if log:
            with np.errstate(all="ignore"):
                y = np.log(y)
        res = opt.hp_solve(y, lam, level, change)
        if not res.ok or res.cond > 1e12:
            c.inconc("hpf_span_clips:ill-posed-or-ill-conditioned")
            continue
        a = _col_on(pt, v, lo, hi)
        b = _col_on(ft, v, lo, hi)
        if log:
            with np.errstate(all="ignore"):
                a, b = np.log(a), np.log(b)
        if np.isnan(a).any() or np.isnan(b).any():
            c.inconc("hpf_span_clips:missing-trend")
            continue
        scale = max(float(np.abs(res.trend).max()), float(np.nanmax(np.abs(y))), 1.0 if log else 1e-300)
        tol = 2 * (1e-10 + 1000 * EPS * res.cond) * scale
        err = float(np.abs(a - b).max())
        if err > tol:
            c.violation("hpf:span-does-not-only-clip", f"variant {v}: hpf(x, span=S) and hpf(x) differ by {err:.3g} on S & span(x) (tol {tol:.3g})")
            return


def _gen_line_case(rng):
    freq = _FREQS[int(rng.integers(0, len(_FREQS)))]
    n = int(rng.integers(3, 60))
    a, b = float(rng.normal() * 10), float(rng.normal())
    holes = sorted(int(i) for i in rng.choice(np.arange(1, n - 1), size=min(n - 2, int(rng.integers(0, max(1, n // 3)))), replace=False)) if n > 3 else []
    before, after = int(rng.integers(0, 6)) * int(rng.random() < 0.5), int(rng.integers(0, 10)) * int(rng.random() < 0.5)
    return {"kind": "line", "freq": freq, "base": _rand_base(rng, freq), "n": n, "a": a, "b": b, "holes": holes,
            "span": [-before, n - 1 + after], "smooth": float(10 ** rng.uniform(-3, 6)), "log": bool(rng.random() < 0.25)}


def _run_line_case(c, case):
    import irispie as ir
    freq, base = case["freq"], case["base"]
    n, a, b = int(case["n"]), float(case["a"]), float(case["b"])
    with c.running(case):
        t = np.arange(n, dtype=float)
        log = bool(case.get("log"))
        line = a + b * t
        if log:
            line = 0.05 * line   # keep exp() moderate
        y = np.exp(line) if log else line.copy()
        for h in case.get("holes", []):
            y[int(h)] = np.nan
        x = _series_from(ir, freq, base, 0, y)
        s0, s1 = case["span"]
        kw = {"smooth": float(case["smooth"]), "span": ir.Span(_period(ir, freq, base, s0), _period(ir, freq, base, s1))}
        if log:
            kw["log"] = True
        try:
            with rt.quiet():
                trend, gap = ir.hpf(x, **kw)
        except Exception:
            return
        ts = _snap(trend)
        tt = np.arange(s0, s1 + 1, dtype=float)
        want = (0.05 if log else 1.0) * (a + b * tt)
        base_serial = int(_period(ir, freq, base, s0).serial)
        got = _col_on(ts, 0, base_serial, base_serial + len(tt) - 1)
        c.event("hpf_line", "log" if log else "lin", key=("line", freq, log, bool(case.get("holes")), s0 < 0, s1 > n - 1), nontrivial=n >= 4)
        if ts[0] != base_serial or ts[1].shape[0] != len(tt):
            c.violation("hpf:line:trend-span", f"trend starts at serial {ts[0]} with {ts[1].shape[0]} rows, requested {base_serial} with {len(tt)}")
            return
        with np.errstate(all="ignore"):
            got = np.log(got) if log else got
        lam = float(case["smooth"])
        T = len(tt)
        cond_bound = 1.0 + 16.0 * lam * max(T, 4) ** 4
        if cond_bound > 1e12:
            c.inconc("hpf_line:ill-conditioned-bound")
            return
        scale = max(float(np.abs(want).max()), 1.0 if log else 1e-300)
        tol = (1e-9 + 1000 * EPS * cond_bound) * scale
        if np.isnan(got).any() or float(np.abs(got - want).max()) > tol:
            c.violation("hpf:straight-line-not-reproduced" + ("[log]" if log else ""),
                        f"max deviation {float(np.nanmax(np.abs(got - want))):.3g} > tol {tol:.3g}; holes {case.get('holes')} span {case['span']} n {n}")


def _gen_lonf_case(rng):
    freq = _FREQS[int(rng.integers(0, len(_FREQS)))]
    n = int(rng.choice([3, 4, 5, 8, 13, 30, 80])) if rng.random() < 0.4 else int(rng.integers(3, 81))
    nv = int(rng.choice([1, 1, 1, 2, 3]))
    order = int(rng.integers(1, 3))
    scale = float(rng.choice([0.01, 1.0, 1.0, 100.0, 1000.0]))
    kind = int(rng.integers(0, 4))
    t = np.arange(n, dtype=float)
    cols = []
    for v in range(nv):
        if kind == 0:
            y = np.cumsum(rng.normal(size=n)) + rng.normal() * 5
        elif kind == 1:
            y = rng.normal(size=n)
        elif kind == 2:
            y = 0.2 * t + (t > n // 2) * 3.0 - 0.4 * np.maximum(t - n // 3, 0) + 0.1 * rng.normal(size=n)
        else:
            y = np.round(rng.normal(size=n) * 2)
        cols.append(y * scale)
    data = np.column_stack(cols)
    span = None
    if rng.random() < 0.3 and n >= 5:
        a = int(rng.integers(0, n - 3))
        span = [a, int(rng.integers(a + 2, n))]
    # lambda relative to the data scale so that kinks are active in a good share of cases
    lam = float(10 ** rng.uniform(-3, 6)) if rng.random() < 0.5 else float(scale * 10 ** rng.uniform(-2, 2))
    lam = min(max(lam, 1e-3), 1e6)
    return {"kind": "lonf", "freq": freq, "base": _rand_base(rng, freq), "data": data.tolist(), "order": order, "smooth": lam, "span": span,
            "positional": bool(rng.random() < 0.5)}


def _run_lonf_case(c, case):
    import irispie as ir
    freq, base = case["freq"], case["base"]
    with c.running(case):
        x = _series_from(ir, freq, base, 0, case["data"])
        kw = {}
        if case.get("span") is not None:
            kw["span"] = ir.Span(_period(ir, freq, base, case["span"][0]), _period(ir, freq, base, case["span"][1]))
        try:
            with rt.quiet():
                if case.get("positional", True):
                    ir.lonf(x, int(case["order"]), float(case["smooth"]), **kw)
                else:
                    ir.lonf(x, order=int(case["order"]), smooth=float(case["smooth"]), **kw)
        except Exception:
            pass   # classified by the monitor


_DIRECTED = [
    # multi-variant lonf (known finding lonf:variants-dropped)
    {"kind": "lonf", "freq": "Q", "base": [2020, 1], "data": [[1.0, 5.0], [2.0, 3.0], [4.0, 4.0], [3.0, 8.0], [5.0, 6.0], [9.0, 7.0], [8.0, 2.0]],
     "order": 2, "smooth": 1.0, "span": None, "positional": True},
    # the repository's own test pattern: level / change constraint at the last period
    {"kind": "hpf", "freq": "Q", "base": [2020, 1], "data": [[0.3], [-1.2], [0.8], [0.1], [1.9], [-0.4], [0.6], [1.1], [-0.7], [0.2], [0.9], [-1.5]],
     "smooth": None, "log": False, "level": {"11": 0.5}, "change": {}, "span": None, "forms": ["hpf", "hpf_trend", "hpf_gap"]},
    {"kind": "hpf", "freq": "Q", "base": [2020, 1], "data": [[0.3], [-1.2], [0.8], [0.1], [1.9], [-0.4], [0.6], [1.1], [-0.7], [0.2], [0.9], [-1.5]],
     "smooth": None, "log": False, "level": {}, "change": {"11": 0.25, "0": 0.7}, "span": None, "forms": ["hpf", "m:hpf_trend", "m:hpf_gap"]},
    # change constraint at the first period of the data while the output span starts later
    {"kind": "hpf", "freq": "M", "base": [2021, 11], "data": [[1.0, 2.0], [1.5, "nan"], [1.2, 2.5], ["nan", 2.2], [1.9, 2.9], [2.4, 3.1], [2.2, 3.0]],
     "smooth": 10.0, "log": True, "level": {"9": 3.0}, "change": {"1": 1.05}, "span": [2, 9], "forms": ["hpf", "hpf_trend", "hpf_gap"]},
    {"kind": "hpf", "freq": "Y", "base": [2000], "data": [[1.0], [2.0], [4.0]], "smooth": 100.0, "log": False, "level": {}, "change": {}, "span": [-2, 4], "forms": ["hpf"]},
    {"kind": "line", "freq": "D", "base": [2024, 2, 27], "n": 9, "a": 3.0, "b": -0.5, "holes": [3, 4], "span": [-3, 12], "smooth": 1600.0, "log": False},
]


def _run_repo_tests(c, rel_files):
    """thorough tier: the repository's own tests that touch these functions, run in-process under the monitors"""
    import contextlib
    import io
    import os
    root = os.path.join(rt.REPO, "tests")
    if not os.path.isdir(root):
        root = "/repo/tests"
    files = [os.path.join(root, f) for f in rel_files if os.path.exists(os.path.join(root, f))]
    if not files:
        c.note("repo-tests:not-found")
        return
    try:
        import pytest
        buf = io.StringIO()
        before = sum(c.events.values())
        with contextlib.redirect_stdout(buf), contextlib.redirect_stderr(buf):
            rc = pytest.main(["-q", "-p", "no:cacheprovider", "-W", "ignore", "--rootdir", os.path.dirname(root), *files])
        c.extra["repo_tests_exit_code"] = int(rc)
        c.extra["repo_tests_monitor_events"] = sum(c.events.values()) - before
    except BaseException as exc:
        c.inconc(f"repo-tests:harness:{type(exc).__name__}")


def replay(c, case):
    install()
    kind = case.get("kind")
    if kind == "hpf":
        _run_hpf_case(c, case)
    elif kind == "line":
        _run_line_case(c, case)
    elif kind == "lonf":
        _run_lonf_case(c, case)


def shard(c):
    install()
    rng = c.rng
    for case in _DIRECTED:
        case = rt.unnan(case)
        try:
            replay(c, case)
        except Exception as exc:
            c.inconc(f"directed:harness:{type(exc).__name__}")
    if c.shard == 0:
        c.sample(_DIRECTED[0])
        c.sample(_DIRECTED[3])
    n_cases = c.scale(1200, 30000)
    if c.tier == "thorough" and c.shard == 0:
        _run_repo_tests(c, ["series/hpf_test.py", "vars/red_var_test.py"])
    for i in range(n_cases):
        if c.out_of_time():
            break
        r = i % 10
        try:
            if r < 6:
                case = _gen_hpf_case(rng, c.tier == "thorough")
                _run_hpf_case(c, case)
            elif r < 7:
                case = _gen_line_case(rng)
                _run_line_case(c, case)
            else:
                case = _gen_lonf_case(rng)
                _run_lonf_case(c, case)
        except Exception as exc:
            c.inconc(f"workload:harness:{type(exc).__name__}")
            continue
        if i in (1, 6, 8) and c.shard == 1:
            c.sample(case)
