"""
C19 -- Databox, Dataslate and CSV conversions are lossless on the selected names and span;
       databox-level operations apply series / dictionary semantics to exactly the selected names

Deciding monitors (postcondition wrappers on the REAL public methods; the oracle is the independent
period-indexed-map model of irisverif/oracles/c19_model.py, evaluated on a snapshot of the actual inputs):

  databox_op          Databox.overlay, underlay, clip, prepend, copy, shallow, rename, keep, remove, merge,
                      by_merging, __or__ : the box after the call (or the returned box) equals the model result
                      on the selected names, every other item is untouched, argument boxes are not modified,
                      copy() shares no data with the original, shallow() holds the very same objects
  history             the history driver's own shadow box (carried through <= 15 operations) against the real box
                      after every operation; copy_independence: scribbling over a copy leaves the original intact;
                      sibling: originals left behind by copy()/| are still unchanged at the end of the history
  to_csv_file         the call does not modify the box; registers (file -> snapshot, options)
  csv_roundtrip       Databox.from_csv_file of a file written by to_csv_file (any caller): names, descriptions,
                      frequencies, spans, variants, missing values identical, values within the declared rounding
  dataslate_from      Dataslate.from_databox: names x periods array of every variant equals the input values on the
                      span, missing elsewhere, fallbacks only in missing cells, overwrites everywhere, clipping to base
  dataslate_roundtrip Dataslate.to_databox of an unmodified dataslate: series equal the input on the span

Not decided (never alarmed; counted as inconclusive or accepted either way):
  * strict_names=True with a name that is missing: an error is documented; whether one is raised, and the state
    left behind, is not judged (observed: keep(strict_names=True) never raises). If no error is raised the result
    must still be the operation applied to the names that exist.
  * renaming onto a name that is already in the box / onto another selected source name (rename and copy work
    sequentially), duplicate names in a selection, source and target lists of different lengths
  * overlay/underlay/prepend: a selected name that is not a series in both boxes; variant counts that cannot be
    broadcast (2 vs 3); a series WITHOUT a start period in self (the databox method skips it, the series method
    would fill it: both accepted); series of different frequencies are expected to be left alone
  * prepend: series whose frequency differs from that of `end_prepending` (observed: underlaid over their whole
    span, not "up to the end date"): untouched and fully underlaid are both accepted
  * laying a series whose stored span has all-missing edge rows (after clip): cells under those edge rows may be
    erased or kept (documentation says "first to last available observation", implementation uses the stored span)
  * the description of a series created by merge(..., "stack") (observed: dropped) and of a series that became empty
  * key order of a databox, column order of a CSV file, the unused to_csv_file options `numeric_format`, `frequency`
  * CSV: multi-line descriptions, names starting with "__" or equal to "*", |values| > 1e296 with rounding
    (numpy.round overflows to inf), nan_str that is itself a number, non-ASCII text (locale dependent),
    series with no observation on the exported span (absent or empty), write/read options that do not
    correspond to each other
  * CSV: series WITHOUT a start period (frequency unknown): with default spans and at least one dated observation in the
    file they come back as empty series under their names (decided since the fourth seeded round); otherwise absent or
    empty after the round trip; exceptions of
    from_csv_file on files that contain such a series are counted as inconclusive (observed: a file with only
    such series has no data rows -> IndexError; start_period_only=True or a custom period_from_string on the
    empty date cell -> TypeError/ValueError). Every series with a start period in the same file is still compared
    whenever the file can be read.
  * Dataslate: an empty selection of names (observed: ValueError from numpy.vstack), non-numeric items or series
    of another frequency among the names (an error is expected), non-consecutive periods, descriptions (only
    carried when passed explicitly), unknown keyword arguments
  * whether the argument box of overlay / underlay / merge may be modified is read as "no" (it is not among the
    selected names of self): such modifications are reported under the separate keys `<op>:argument-mutated[:mechanism]`

Side diagnostic (never a verdict): shard 0 runs one export under `strace -f -e trace=openat,...` and notes whether the
named CSV file was the only path opened for writing by to_csv_file (evidence: notes `strace:*`).
"""

from __future__ import annotations

import copy as _copy
import inspect
import math
import os
import tempfile
import warnings

import numpy as np

from .. import runtime as rt
from ..oracles import c19_model as M
from ..workloads import c19_gen as G

ID = "C19"
TIERS = {
    "quick": {"shards": 8, "budget_s": 30},
    "thorough": {"shards": 16, "budget_s": 300},
}
MIN_EVENTS = {"quick": 15000, "thorough": 300000}
DECIDING = {"databox_op", "history", "copy_independence", "sibling", "to_csv_file", "csv_roundtrip", "dataslate_from", "dataslate_roundtrip"}
EXHAUSTIVE = {"quick": False, "thorough": False}
UNNAN_CASES = False   # cases carry strings such as nan_str="nan"; numeric rows are converted by _num below
RULE = (
    "random operation histories (<= 15 ops drawn from overlay, underlay, clip, prepend, copy, shallow, rename, keep, remove, "
    "merge, by_merging, |) on boxes of 0-12 items mixing six frequencies (Y,H,Q,M,D,integer), series without start, 1-3 variants, "
    "missing values, scalars, lists, strings; selections as lists, tuples, single strings, predicates, renaming functions, "
    "strict_names; second boxes share names/frequencies/overlapping spans with the current box; CSV round trips with "
    "description_row, span / frequency_span / names, round, nan_str, delimiter, start_period_only, name_row_transform, "
    "date_formatter/period_from_string, descriptions with commas and quotes; Dataslate round trips with num_variants, "
    "fallbacks, overwrites, base columns, clip_data_to_base_span, output_names, target_db, trim, span=base/full; plus one "
    "directed case per known finding. distinct key = (operation, selection kind, #frequencies in the box, variants class, "
    "has empty series, has non-series, size class, option set); non-trivial = the box holds at least one series with data "
    "(dictionary operations: at least one item) and the operation selects something."
)
ASSUMPTIONS = [
    "the model reads a real Series through its start period (serial, frequency name), its data array and get_description(); period serials equal the calendar ordinals of the model (checked against the SDMX label for every period the harness constructs)",
    "CPython float repr/float round trip; numpy only for array comparison",
]
ANCHORS = [
    "irispie.databoxes.main:Databox._resolve_source_target_names",
    "irispie.databoxes.main:Databox._lay",
    "irispie.databoxes.main:Databox.clip",
    "irispie.databoxes.main:Databox.prepend",
    "irispie.databoxes.main:Databox.copy",
    "irispie.databoxes.main:Databox.shallow",
    "irispie.databoxes.main:Databox.rename",
    "irispie.databoxes.main:Databox.keep",
    "irispie.databoxes.main:Databox.remove",
    "irispie.databoxes.main:Databox.__or__",
    "irispie.databoxes._merge:_merge",
    "irispie.databoxes._merge:_merge_stack",
    "irispie.databoxes._exports:_ExportBlock.__iter__",
    "irispie.databoxes._exports:_resolve_frequency_span",
    "irispie.databoxes._exports:_get_data_array_for_names",
    "irispie.databoxes._imports:_block_iterator",
    "irispie.databoxes._imports:_ImportBlock.column_iterator",
    "irispie.databoxes._imports:_extract_periods_from_data_rows",
    "irispie.databoxes._imports:_read_array_for_block",
    "irispie.databoxes._imports:_add_series_for_block",
    "irispie.dataslates.main:_slate_value_variant_iterator",
    "irispie.dataslates.main:Dataslate.to_databox",
    "irispie.dataslates._variants:Variant.from_databox_variant",
    "irispie.dataslates._variants:Variant._apply_fallbacks",
    "irispie.dataslates._variants:Variant._apply_overwrites",
    "irispie.dataslates._invariants:Invariant._populate_output_qids",
]

SOFT_HAZARDS = {"strict-names-with-missing-name", "duplicate-keys-reported-as-error", "series-without-start-period-exported"}
INT_TO_LETTER = {1: "Y", 2: "H", 4: "Q", 12: "M", 365: "D", 0: "I"}


# ------------------------------------------------------------------------------
# real objects <-> model
# ------------------------------------------------------------------------------


class SnapError(Exception):
    pass


_PERIOD_CACHE = {}


def period(freq, o):
    """irispie Period for a model ordinal; the mapping is verified on the SDMX label and the serial"""
    key = (freq, o)
    p = _PERIOD_CACHE.get(key)
    if p is not None:
        return p
    import irispie as ir
    y, s, d = M.unordinal(freq, o)
    if freq == "Y":
        p = ir.yy(y)
    elif freq == "H":
        p = ir.hh(y, s)
    elif freq == "Q":
        p = ir.qq(y, s)
    elif freq == "M":
        p = ir.mm(y, s)
    elif freq == "D":
        p = ir.dd(y, s, d)
    else:
        p = ir.ii(o)
    if int(p.serial) != o or str(p) != M.label(freq, o) or M.NAME_TO_LETTER.get(p.frequency.name) != freq:
        raise SnapError(f"period mapping mismatch {freq} {o}: {p} serial {p.serial}")
    if len(_PERIOD_CACHE) < 20000:
        _PERIOD_CACHE[key] = p
    return p


def period_ord(p):
    """(freq letter, ordinal) of a real Period"""
    f = M.NAME_TO_LETTER.get(p.frequency.name)
    if f is None:
        raise SnapError(f"unsupported frequency {p.frequency}")
    return f, int(p.serial)


def snap_series(s):
    data = np.asarray(s.data)
    if data.ndim != 2:
        raise SnapError("series data not 2-dimensional")
    start = s.start
    desc = s.get_description()
    if start is None:
        if data.shape[0]:
            raise SnapError("series with rows but no start")
        return M.SM(None, data.shape[1], desc)
    f, lo = period_ord(start)
    cells = {}
    if data.size:
        rows, cols = np.nonzero(~np.isnan(data))
        for i, v in zip(rows.tolist(), cols.tolist()):
            cells[(lo + i, v)] = float(data[i, v])
    return M.SM(f, data.shape[1], desc, lo, lo + data.shape[0] - 1, cells)


def _is_series(x):
    from irispie.series.main import Series
    return isinstance(x, Series)


def snap_value(x, depth=0):
    if _is_series(x):
        return snap_series(x)
    return M.PV(_snap_py(x, depth))


def _snap_py(x, depth=0):
    if _is_series(x):
        return snap_series(x)
    if x is None or isinstance(x, (bool, int, float, str, bytes)):
        return x
    if depth > 4:
        return ("opaque", id(x))
    if isinstance(x, list):
        return [_snap_py(e, depth + 1) for e in x]
    if isinstance(x, tuple):
        return tuple(_snap_py(e, depth + 1) for e in x)
    if isinstance(x, dict):
        return {k: _snap_py(v, depth + 1) for k, v in dict.items(x)}
    if isinstance(x, np.ndarray):
        return ("ndarray", x.shape, x.tolist())
    if isinstance(x, np.generic):
        return x.item()
    return ("opaque", id(x))


def snap_box(db):
    return {k: snap_value(v) for k, v in dict.items(db)}


def _num(x):
    return float(x)      # also reads the "nan" / "inf" strings of a JSON replay file


def build_item(it):
    from irispie import Series
    if it["t"] == "s":
        rows = np.array([[_num(x) for x in row] for row in it["v"]], dtype=float)
        if rows.ndim != 2:
            rows = rows.reshape(len(it["v"]), -1)
        return Series(start=period(it["f"], it["lo"]), values=rows, description=it["d"])
    if it["t"] == "e":
        return Series(num_variants=it["nv"], description=it["d"])
    return _copy.deepcopy(it["v"])


def model_item(it):
    if it["t"] == "s":
        return M.from_rows(it["f"], it["lo"], [[_num(x) for x in row] for row in it["v"]], it["d"])
    if it["t"] == "e":
        return M.SM(None, it["nv"], it["d"])
    return M.PV(_copy.deepcopy(it["v"]))


def build_box(spec, as_dict=False):
    from irispie import Databox
    db = {} if as_dict else Databox()
    for name, it in spec["items"]:
        db[name] = build_item(it)
    return db


def model_box(spec):
    return {name: model_item(it) for name, it in spec["items"]}


def spec_from_model(box):
    items = []
    for n, x in box.items():
        if isinstance(x, M.SM):
            if x.lo is None or x.freq is None or x.hi < x.lo:
                items.append([n, {"t": "e", "nv": x.nv, "d": x.desc}])
            else:
                items.append([n, {"t": "s", "f": x.freq, "lo": x.lo, "v": x.rows(), "d": x.desc}])
        else:
            items.append([n, {"t": "p", "v": None}])
    return {"items": items}


def box_class(box):
    """structural class of a box model (for the distinct_nontrivial key)"""
    series = [x for x in box.values() if isinstance(x, M.SM)]
    freqs = {x.freq for x in series if x.freq is not None}
    nvs = {x.nv for x in series}
    vclass = "v0" if not nvs else (f"v{min(max(nvs), 3)}" if len(nvs) == 1 else "vmix")
    n = len(box)
    size = "n0" if n == 0 else ("n1-3" if n <= 3 else ("n4-8" if n <= 8 else "n9+"))
    return (f"f{min(len(freqs), 3)}", vclass, any(not x.cells for x in series), any(not isinstance(x, M.SM) for x in box.values()), size)


def has_data(box):
    return any(isinstance(x, M.SM) and x.cells for x in box.values())


def _selkind(x):
    if x is None:
        return "none"
    if isinstance(x, str):
        return "str"
    if callable(x):
        return "callable"
    return type(x).__name__


def _materialize(x):
    """iterators are consumed only once: turn them into tuples before both the model and irispie read them"""
    if x is None or isinstance(x, (str, list, tuple, dict, set, frozenset)) or callable(x):
        return x
    if hasattr(x, "__next__"):
        return tuple(x)
    return x


def _names_arg(x):
    if x is None or isinstance(x, str) or callable(x):
        return x
    return list(x)


# ------------------------------------------------------------------------------
# verdicts
# ------------------------------------------------------------------------------


def _judge(c, monitor, op, key, nontrivial, exp, got, hazard, raised, selected=None, what="box"):
    """common verdict logic of the databox-operation monitors"""
    c.event(monitor, op, key=key, nontrivial=nontrivial)
    if raised is not None:
        if hazard:
            c.inconc(f"{op}:raised-on-undecided-input:{hazard}")
        else:
            c.violation(f"{op}:raised:{type(raised).__name__}", f"{op} raised {type(raised).__name__}: {raised}")
        return False
    if hazard and hazard not in SOFT_HAZARDS:
        c.inconc(f"{op}:undecided:{hazard}")
        return False
    diffs = M.box_diff(exp, got)
    seen = set()
    for name, kind, msg in diffs:
        sel = selected is None or name in selected
        k = f"{op}:{kind}" if sel else f"{op}:unselected-item-changed"
        if k in seen:
            continue
        seen.add(k)
        c.violation(k, f"{op} ({what}) item {name!r}: {msg}")
    return not diffs


def _argument_check(c, op, before, after, self_box_real, other_real, classify):
    """argument boxes must come back unchanged (items that are the very same object in self are skipped)"""
    diffs = M.box_diff(M.exact(before), after)
    for name, kind, msg in diffs:
        try:
            if self_box_real is not None and dict.get(self_box_real, name) is dict.get(other_real, name) and dict.get(other_real, name) is not None:
                continue
        except Exception:
            pass
        mech = classify(name, before.get(name), after.get(name))
        c.violation(f"{op}:argument-mutated" + (f":{mech}" if mech else ""), f"{op} modified its argument box, item {name!r}: {msg}")


def _classify_lay_mutation(name, b, a):
    if isinstance(b, M.SM) and isinstance(a, M.SM) and b.nv == 1 and a.nv > 1:
        if a.cells == {(o, v): x for (o, _), x in b.cells.items() for v in range(a.nv)}:
            return "variant-broadcast"
    return None


def _classify_merge_mutation(name, b, a):
    if isinstance(b, M.PV) and isinstance(a, M.PV) and isinstance(b.v, list) and isinstance(a.v, list):
        if len(a.v) > len(b.v) and M.py_equal(a.v[:len(b.v)], b.v):
            return "list-extended-in-place"
    return None


def _bind(orig, *args, **kwargs):
    try:
        ba = inspect.signature(orig).bind(*args, **kwargs)
        ba.apply_defaults()
        return ba.arguments
    except Exception:
        return None


# ------------------------------------------------------------------------------
# monitors on Databox operations
# ------------------------------------------------------------------------------


def _guarded(op, orig, pre, post):
    """wrapper factory: pre(c, args, kwargs) -> state (or None to skip); post(c, state, result, raised)"""
    def wrapper(*args, **kwargs):
        c = rt.ctx()
        if c is None:
            return orig(*args, **kwargs)
        state = None
        try:
            state = pre(c, args, kwargs)
        except M.Hazard as h:
            c.inconc(f"{op}:undecided:{h}")
        except Exception as exc:
            c.inconc(f"{op}:monitor-error:pre:{type(exc).__name__}")
        if isinstance(state, dict) and "call" in state:
            args, kwargs = state["call"]
        raised = None
        result = None
        try:
            result = orig(*args, **kwargs)
        except Exception as exc:
            raised = exc
        if state is not None:
            try:
                post(c, state, result, raised)
            except M.Hazard as h:
                c.inconc(f"{op}:undecided:{h}")
            except Exception as exc:
                c.inconc(f"{op}:monitor-error:post:{type(exc).__name__}")
        if raised is not None:
            raise raised
        return result
    wrapper.__name__ = getattr(orig, "__name__", op)
    wrapper.__doc__ = getattr(orig, "__doc__", None)
    return wrapper


def _install_databox_monitors():
    from irispie import Databox

    # ---- overlay / underlay
    def make_lay(kind):
        def make(orig):
            def pre(c, args, kwargs):
                a = _bind(lambda self, other, names=None, strict_names=False, **kw: None, *args, **kwargs)
                if a is None:
                    return None
                names = _materialize(a["names"])
                kw = dict(a.get("kw", {}))
                self_, other = a["self"], a["other"]
                box, obox = snap_box(self_), snap_box(other)
                exp, hazard, sel = M.expect_lay(kind, box, obox, None if names is None else names, bool(a["strict_names"]))
                if "method" in kw and kw["method"] != "by_span":
                    hazard = hazard or "unknown-method"
                call_kwargs = dict(kw)
                if names is not None:
                    call_kwargs["names"] = names
                if a["strict_names"]:
                    call_kwargs["strict_names"] = a["strict_names"]
                key = (kind, _selkind(names), bool(a["strict_names"]), "method" in kw, min(len(sel), 3)) + box_class(box)
                return {"call": ((self_, other), call_kwargs), "self": self_, "other": other, "box": box, "obox": obox,
                        "exp": exp, "hazard": hazard, "sel": set(sel), "key": key,
                        "nontrivial": bool(sel) and has_data(box)}
            def post(c, st, result, raised):
                got = snap_box(st["self"])
                _judge(c, "databox_op", kind, st["key"], st["nontrivial"], st["exp"], got, st["hazard"], raised, st["sel"])
                if st["other"] is not st["self"]:
                    _argument_check(c, kind, st["obox"], snap_box(st["other"]), st["self"], st["other"], _classify_lay_mutation)
            return _guarded(kind, orig, pre, post)
        return make
    rt.wrap_attr(Databox, "overlay", make_lay("overlay"))
    rt.wrap_attr(Databox, "underlay", make_lay("underlay"))

    # ---- clip
    def make_clip(orig):
        def pre(c, args, kwargs):
            a = _bind(orig, *args, **kwargs)
            if a is None:
                return None
            s, e = a["new_start_date"], a["new_end_date"]
            box = snap_box(a["self"])
            fs = fe = None
            lo = hi = None
            if s is not None:
                fs, lo = period_ord(s)
            if e is not None:
                fe, hi = period_ord(e)
            hazard = "start-and-end-of-different-frequencies" if (fs and fe and fs != fe) else None
            exp, touched = M.expect_clip(box, fs or fe, lo, hi)
            key = ("clip", s is None, e is None, min(len(touched), 3), bool(lo is not None and hi is not None and lo > hi)) + box_class(box)
            return {"self": a["self"], "exp": exp, "hazard": hazard, "sel": set(touched), "key": key, "nontrivial": bool(touched) and has_data(box)}
        def post(c, st, result, raised):
            _judge(c, "databox_op", "clip", st["key"], st["nontrivial"], st["exp"], snap_box(st["self"]), st["hazard"], raised, st["sel"])
        return _guarded("clip", orig, pre, post)
    rt.wrap_attr(Databox, "clip", make_clip)

    # ---- prepend
    def make_prepend(orig):
        def pre(c, args, kwargs):
            a = _bind(orig, *args, **kwargs)
            if a is None:
                return None
            f, e = period_ord(a["end_prepending"])
            box, obox = snap_box(a["self"]), snap_box(a["other"])
            exp, hazard, sel = M.expect_prepend(box, obox, f, e)
            key = ("prepend", min(len(sel), 3)) + box_class(box)
            return {"self": a["self"], "other": a["other"], "obox": obox, "exp": exp, "hazard": hazard, "sel": set(sel), "key": key,
                    "nontrivial": bool(sel) and has_data(box)}
        def post(c, st, result, raised):
            _judge(c, "databox_op", "prepend", st["key"], st["nontrivial"], st["exp"], snap_box(st["self"]), st["hazard"], raised, st["sel"])
            if st["other"] is not st["self"]:
                _argument_check(c, "prepend", st["obox"], snap_box(st["other"]), st["self"], st["other"], _classify_lay_mutation)
        return _guarded("prepend", orig, pre, post)
    rt.wrap_attr(Databox, "prepend", make_prepend)

    # ---- copy / shallow
    def make_copy(op):
        def make(orig):
            def pre(c, args, kwargs):
                a = _bind(orig, *args, **kwargs)
                if a is None:
                    return None
                src, tgt = _materialize(a["source_names"]), _materialize(a["target_names"])
                box = snap_box(a["self"])
                exp, hazard = M.expect_copy(box, _names_arg(src), _names_arg(tgt), bool(a["strict_names"]), shallow=(op == "shallow"))
                pairs, _, _ = M.resolve(box.keys(), _names_arg(src), _names_arg(tgt), bool(a["strict_names"]))
                key = (op, _selkind(src), _selkind(tgt), bool(a["strict_names"]), min(len(exp), 3)) + box_class(box)
                return {"call": ((a["self"],), {"source_names": src, "target_names": tgt, "strict_names": a["strict_names"]}),
                        "self": a["self"], "box": box, "exp": exp, "hazard": hazard, "key": key, "pairs": pairs, "nontrivial": bool(exp)}
            def post(c, st, result, raised):
                got = snap_box(result) if raised is None else None
                ok = _judge(c, "databox_op", op, st["key"], st["nontrivial"], st["exp"], got, st["hazard"], raised, None, what="returned box")
                if raised is not None:
                    return
                if type(result) is not type(st["self"]):
                    c.violation(f"{op}:returned-type", f"{op} returned {type(result).__name__}")
                diffs = M.box_diff(M.exact(st["box"]), snap_box(st["self"]))
                for name, kind, msg in diffs[:1]:
                    c.violation(f"{op}:original-modified", f"{op} changed the original box, item {name!r}: {msg}")
                if st["hazard"] or not ok:
                    return
                for s, t in st["pairs"]:
                    if not (dict.__contains__(result, t) and dict.__contains__(st["self"], s)):
                        continue
                    x, y = dict.__getitem__(st["self"], s), dict.__getitem__(result, t)
                    if op == "shallow":
                        if x is not y:
                            c.violation("shallow:not-the-same-object", f"shallow: item {t!r} is not the original object of {s!r}")
                    else:
                        mutable = _is_series(x) or isinstance(x, (list, dict, np.ndarray))
                        if mutable and x is y:
                            c.violation("copy:shares-object", f"copy: item {t!r} is the original object of {s!r}")
                        elif _is_series(x) and _is_series(y) and x.data.size and np.shares_memory(x.data, y.data):
                            c.violation("copy:shares-data", f"copy: data of {t!r} share memory with the original {s!r}")
            return _guarded(op, orig, pre, post)
        return make
    rt.wrap_attr(Databox, "copy", make_copy("copy"))
    rt.wrap_attr(Databox, "shallow", make_copy("shallow"))

    # ---- rename
    def make_rename(orig):
        def pre(c, args, kwargs):
            a = _bind(orig, *args, **kwargs)
            if a is None:
                return None
            src, tgt = _materialize(a["source_names"]), _materialize(a["target_names"])
            box = snap_box(a["self"])
            exp, hazard = M.expect_rename(box, _names_arg(src), _names_arg(tgt), bool(a["strict_names"]))
            pairs, _, _ = M.resolve(box.keys(), _names_arg(src), _names_arg(tgt), bool(a["strict_names"]))
            moved = [1 for s, t in pairs if s != t]
            key = ("rename", _selkind(src), _selkind(tgt), bool(a["strict_names"]), min(len(moved), 3)) + box_class(box)
            return {"call": ((a["self"],), {"source_names": src, "target_names": tgt, "strict_names": a["strict_names"]}),
                    "self": a["self"], "exp": exp, "hazard": hazard, "key": key, "nontrivial": bool(moved)}
        def post(c, st, result, raised):
            _judge(c, "databox_op", "rename", st["key"], st["nontrivial"], st["exp"], snap_box(st["self"]), st["hazard"], raised, None)
        return _guarded("rename", orig, pre, post)
    rt.wrap_attr(Databox, "rename", make_rename)

    # ---- keep / remove
    def make_keep_remove(op, argname, expect):
        def make(orig):
            def pre(c, args, kwargs):
                a = _bind(orig, *args, **kwargs)
                if a is None:
                    return None
                names = _materialize(a[argname])
                box = snap_box(a["self"])
                exp, hazard = expect(box, _names_arg(names), bool(a["strict_names"]))
                key = (op, _selkind(names), bool(a["strict_names"]), min(len(box) - len(exp), 3)) + box_class(box)
                return {"call": ((a["self"],), {argname: names, "strict_names": a["strict_names"]}),
                        "self": a["self"], "exp": exp, "hazard": hazard, "key": key, "nontrivial": bool(box) and names is not None}
            def post(c, st, result, raised):
                _judge(c, "databox_op", op, st["key"], st["nontrivial"], st["exp"], snap_box(st["self"]), st["hazard"], raised, None)
            return _guarded(op, orig, pre, post)
        return make
    rt.wrap_attr(Databox, "keep", make_keep_remove("keep", "keep_names", M.expect_keep))
    rt.wrap_attr(Databox, "remove", make_keep_remove("remove", "remove_names", M.expect_remove))

    # ---- merge (by_merging goes through it)
    def make_merge(orig):
        def pre(c, args, kwargs):
            a = _bind(orig, *args, **kwargs)
            if a is None:
                return None
            other = a["other"]
            strategy = a["merge_strategy"] if a.get("action") is None else a["action"]
            if hasattr(other, "items"):
                others = [other]
                call_other = other
            else:
                others = list(other)
                call_other = others
            box = snap_box(a["self"])
            oboxes = [snap_box(o) for o in others]
            known = strategy in ("stack", "hstack", "replace", "discard", "silent", "warning", "error", "critical")
            exp, hazard, dups = M.expect_merge(box, oboxes, strategy)
            if not known:
                hazard = "unknown-merge-strategy"
            stacked_series = any(isinstance(box.get(k), M.SM) for k in dups) and strategy in ("stack", "hstack")
            key = ("merge", strategy, len(others) if len(others) < 3 else 3, min(len(dups), 3), stacked_series) + box_class(box)
            kw = {"merge_strategy": a["merge_strategy"]}
            if a.get("action") is not None:
                kw["action"] = a["action"]
            return {"call": ((a["self"], call_other), kw), "self": a["self"], "others": others, "oboxes": oboxes,
                    "exp": exp, "hazard": hazard, "key": key, "nontrivial": any(len(o) for o in oboxes)}
        def post(c, st, result, raised):
            _judge(c, "databox_op", "merge", st["key"], st["nontrivial"], st["exp"], snap_box(st["self"]), st["hazard"], raised, None)
            for o, ob in zip(st["others"], st["oboxes"]):
                if o is not st["self"]:
                    _argument_check(c, "merge", ob, snap_box(o), None, o, _classify_merge_mutation)
        return _guarded("merge", orig, pre, post)
    rt.wrap_attr(Databox, "merge", make_merge)

    # ---- |
    def make_or(orig):
        def pre(c, args, kwargs):
            self_, other = args[0], args[1]
            if not isinstance(other, dict):
                return None
            box, obox = snap_box(self_), snap_box(other)
            key = ("or", min(len(set(box) & set(obox)), 3)) + box_class(box)
            return {"self": self_, "other": other, "box": box, "obox": obox, "exp": M.expect_or(box, obox), "key": key,
                    "nontrivial": bool(box) and bool(obox)}
        def post(c, st, result, raised):
            got = snap_box(result) if raised is None else None
            _judge(c, "databox_op", "or", st["key"], st["nontrivial"], st["exp"], got, None, raised, None, what="returned box")
            if raised is None:
                for nm, b, real in (("left", st["box"], st["self"]), ("right", st["obox"], st["other"])):
                    for name, kind, msg in M.box_diff(M.exact(b), snap_box(real))[:1]:
                        c.violation("or:operand-modified", f"| changed its {nm} operand, item {name!r}: {msg}")
        return _guarded("or", orig, pre, post)
    rt.wrap_attr(Databox, "__or__", make_or)


# ------------------------------------------------------------------------------
# monitors on the CSV round trip
# ------------------------------------------------------------------------------

_CSV = {}


def _csv_stat(path):
    st = os.stat(path)
    return (st.st_size, st.st_mtime_ns)


def _translate_span(span):
    span = tuple(span)
    if not span:
        raise M.Hazard("empty-span")
    fo = [period_ord(p) for p in span]
    if len({f for f, _ in fo}) != 1:
        raise M.Hazard("span-of-mixed-frequencies")
    return span, (fo[0][0], [o for _, o in fo])


def _translate_frequency_span(fs):
    out_real, out_model = {}, {}
    for k, v in fs.items():
        kv = k if isinstance(k, int) and not hasattr(k, "name") else getattr(k, "value", k)
        f = INT_TO_LETTER.get(int(kv))
        if f is None:
            if v is None:
                out_real[k] = v
                continue
            raise M.Hazard("unsupported-frequency-in-frequency_span")
        if v is None or v is Ellipsis:
            out_real[k] = v
            out_model[f] = v
        else:
            v = tuple(v)
            fo = [period_ord(p) for p in v]
            if any(g != f for g, _ in fo):
                raise M.Hazard("frequency_span-period-of-another-frequency")
            out_real[k] = v
            out_model[f] = [o for _, o in fo]
    return out_real, out_model


def _install_csv_monitors():
    from irispie import Databox

    def make_to_csv(orig):
        def pre(c, args, kwargs):
            a = _bind(orig, *args, **kwargs)
            if a is None:
                return None
            kw = {k: v for k, v in a.items() if k not in ("self", "file_name")}
            st = {"self": a["self"], "file": os.path.abspath(os.fspath(a["file_name"])), "box": snap_box(a["self"]), "unmodelled": None}
            names = _materialize(a["names"])
            kw["names"] = names
            w = {"names": _names_arg(names), "span": None, "frequency_span": None, "description_row": bool(a["description_row"]),
                 "round": a["round"], "delimiter": a["delimiter"], "nan_str": a["nan_str"], "date_formatter": a["date_formatter"]}
            try:
                if a["span"] is not None:
                    kw["span"], w["span"] = _translate_span(a["span"])
                elif a["frequency_span"] is not None:
                    kw["frequency_span"], w["frequency_span"] = _translate_frequency_span(a["frequency_span"])
                if a["csv_writer_settings"]:
                    raise M.Hazard("csv_writer_settings")
                if a["round"] is not None and not isinstance(a["round"], int):
                    raise M.Hazard("round-not-an-integer")
                ns = a["nan_str"]
                if not isinstance(ns, str) or a["delimiter"] in ns or '"' in ns or "\n" in ns or "#" in ns or ns != ns.strip():
                    raise M.Hazard("nan_str-unsuitable")
                try:
                    if not math.isnan(float(ns)):
                        raise M.Hazard("nan_str-is-a-number")
                except ValueError:
                    pass
            except M.Hazard as h:
                st["unmodelled"] = str(h)
            st["w"] = w
            st["call"] = ((a["self"], a["file_name"]), kw)
            cls = box_class(st["box"])
            st["key"] = ("to_csv", _selkind(names), "span" if w["span"] else ("fspan" if w["frequency_span"] else "all"),
                         w["description_row"], w["round"], w["delimiter"], w["nan_str"], w["date_formatter"] is not None) + cls
            return st
        def post(c, st, result, raised):
            c.event("to_csv_file", "call", key=st["key"], nontrivial=has_data(st["box"]))
            _CSV.pop(st["file"], None)
            if raised is not None:
                if st["unmodelled"]:
                    c.inconc(f"to_csv_file:raised-on-undecided-input:{st['unmodelled']}")
                else:
                    c.violation(f"to_csv_file:raised:{type(raised).__name__}", f"to_csv_file raised {type(raised).__name__}: {raised}")
                return
            for name, kind, msg in M.box_diff(M.exact(st["box"]), snap_box(st["self"]))[:1]:
                c.violation("to_csv_file:box-modified", f"to_csv_file changed the box, item {name!r}: {msg}")
            if st["unmodelled"]:
                c.inconc(f"to_csv_file:undecided:{st['unmodelled']}")
                return
            if len(_CSV) > 64:
                _CSV.pop(next(iter(_CSV)))
            _CSV[st["file"]] = {"box": st["box"], "w": st["w"], "stat": _csv_stat(st["file"])}
        return _guarded("to_csv_file", orig, pre, post)
    rt.wrap_attr(Databox, "to_csv_file", make_to_csv)

    def make_from_csv(orig):
        def pre(c, args, kwargs):
            a = _bind(orig, *args, **kwargs)
            if a is None:
                return None
            path = os.path.abspath(os.fspath(a["file_name"]))
            rec = _CSV.get(path)
            if rec is None:
                return None
            if _csv_stat(path) != rec["stat"]:
                c.inconc("csv_roundtrip:file-changed-since-written")
                return None
            w = rec["w"]
            spo = a["start_period_only"] if a["start_period_only"] is not None else a["start_date_only"]
            pfs = a["period_from_string"] if a["period_from_string"] is not None else a["date_creator"]
            st = {"w": w, "box": rec["box"], "delimiter": a["delimiter"], "hazard": None, "soft": None}
            hz = None
            if a["csv_reader_settings"] or a["numpy_reader_settings"] or a["databox_settings"]:
                hz = "reader-settings"
            if a["delimiter"] != w["delimiter"]:
                hz = hz or "delimiter-differs-between-write-and-read"
            if getattr(w["date_formatter"], "c19_pair", None) != getattr(pfs, "c19_pair", None):
                hz = hz or "date_formatter-and-period_from_string-do-not-correspond"
            transform = a["name_row_transform"]
            if transform is not None and not hasattr(transform, "c19_model"):
                hz = hz or "name_row_transform"
            exp = None
            if hz is None:
                try:
                    exp, soft = M.expect_csv(rec["box"], w["names"], w["span"], w["frequency_span"], w["description_row"],
                                             bool(a["description_row"]), w["round"], bool(spo))
                    st["soft"] = soft
                    if transform is not None:
                        new = {}
                        for n, alts in exp.items():
                            t = transform.c19_model(n)
                            if t in new:
                                raise M.Hazard("name_row_transform-collision")
                            new[t] = alts
                        exp = new
                    if w["round"] is not None and any(abs(x) > 1e290 for s in rec["box"].values() if isinstance(s, M.SM) for x in s.cells.values() if not math.isinf(x)):
                        raise M.Hazard("huge-values-with-rounding")
                except M.Hazard as h:
                    hz = str(h)
            st["hazard"] = hz
            st["exp"] = exp
            n_exp = 0 if exp is None else sum(1 for alts in exp.values() if isinstance(alts[0], M.SM) and alts[0].cells)
            span_kind = "span" if w["span"] else ("fspan" if w["frequency_span"] else "all")
            st["key"] = ("csv", _selkind(w["names"]), span_kind, w["description_row"], w["round"], w["delimiter"], w["nan_str"],
                         bool(spo), transform is not None, pfs is not None, min(n_exp, 3)) + box_class(rec["box"])
            st["nontrivial"] = n_exp > 0
            return st
        def post(c, st, result, raised):
            c.event("csv_roundtrip", "from_csv_file", key=st["key"], nontrivial=st["nontrivial"])
            hz = st["hazard"]
            known_delim = st["delimiter"] != "," and hz is None
            if raised is not None:
                if hz or st.get("soft"):
                    c.inconc(f"csv_roundtrip:raised-on-undecided-input:{hz or st.get('soft')}")
                elif known_delim:
                    c.violation("csv_roundtrip:non-comma-delimiter", f"delimiter {st['delimiter']!r}: from_csv_file raised {type(raised).__name__}: {raised}")
                else:
                    c.violation(f"csv_roundtrip:raised:{type(raised).__name__}", f"from_csv_file raised {type(raised).__name__}: {raised}")
                return
            if hz:
                c.inconc(f"csv_roundtrip:undecided:{hz}")
                return
            got = snap_box(result)
            seen = set()
            for name, kind, msg in M.box_diff(st["exp"], got):
                k = "csv_roundtrip:non-comma-delimiter" if known_delim else f"csv_roundtrip:{kind}"
                if k not in seen:
                    seen.add(k)
                    c.violation(k, f"CSV round trip, item {name!r}: {msg}")
        return _guarded("from_csv_file", orig, pre, post)
    rt.wrap_attr(Databox, "from_csv_file", make_from_csv)


# ------------------------------------------------------------------------------
# monitors on the Dataslate round trip
# ------------------------------------------------------------------------------

_SLATES = {}


def _nan_equal(a, b):
    a, b = np.asarray(a, dtype=float), np.asarray(b, dtype=float)
    return a.shape == b.shape and bool(np.all((a == b) | (np.isnan(a) & np.isnan(b))))


def _install_dataslate_monitors():
    from irispie.dataslates.main import Dataslate

    def make_from_databox(orig):
        def pre(c, args, kwargs):
            a = _bind(lambda klass, databox, names, periods, /, num_variants=1, fallbacks=None, overwrites=None,
                      clip_data_to_base_span=False, validators=None, **kw: None, *args, **kwargs)
            if a is None:
                return None
            kw = dict(a.get("kw", {}))
            databox = a["databox"]
            names = a["names"]
            names = tuple(dict.keys(databox)) if names is None else tuple(names)
            periods = a["periods"]
            if isinstance(periods, str):
                return None
            periods = tuple(periods)
            if not periods:
                return None
            fo = [period_ord(p) for p in periods]
            if len({f for f, _ in fo}) != 1:
                raise M.Hazard("periods-of-mixed-frequencies")
            freq, ords = fo[0][0], [o for _, o in fo]
            box = snap_box(databox)
            base = tuple(sorted(kw.get("base_columns") or ()))
            st = {"names": names, "freq": freq, "ords": ords, "nv": int(a["num_variants"]), "base": base, "box": box,
                  "output_names": None if kw.get("output_names") is None else set(kw["output_names"]), "hazard": None,
                  "databox": databox}
            fb = _snap_py(a["fallbacks"]) if a["fallbacks"] else None
            ow = _snap_py(a["overwrites"]) if a["overwrites"] else None
            try:
                if a["validators"]:
                    raise M.Hazard("validators")
                if set(kw) - {"base_columns", "descriptions", "output_names", "qid_to_logly", "min_max_shift", "frequency"}:
                    raise M.Hazard("unknown-keyword")
                st["values"], st["classes"] = M.slate_array(box, list(names), freq, ords, st["nv"], fb, ow,
                                                            bool(a["clip_data_to_base_span"]), base)
            except M.Hazard as h:
                st["hazard"] = str(h)
            new_args = (a["klass"], databox, (None if a["names"] is None else names), periods)
            new_kwargs = dict(num_variants=a["num_variants"], fallbacks=a["fallbacks"], overwrites=a["overwrites"],
                              clip_data_to_base_span=a["clip_data_to_base_span"], validators=a["validators"], **kw)
            st["call"] = (new_args, new_kwargs)
            in_box = [n for n in names if n in box]
            st["key"] = ("slate", freq, min(st["nv"], 3), bool(fb), bool(ow), bool(a["clip_data_to_base_span"]), bool(base),
                         min(len(in_box), 3), len(ords) == 1) + box_class({n: box[n] for n in in_box})
            st["nontrivial"] = any(isinstance(box[n], M.SM) and box[n].cells for n in in_box)
            return st
        def post(c, st, ds, raised):
            c.event("dataslate_from", "from_databox", key=st["key"], nontrivial=st["nontrivial"])
            if raised is not None:
                if st["hazard"]:
                    c.inconc(f"dataslate:from_databox:raised-on-undecided-input:{st['hazard']}")
                else:
                    c.violation(f"dataslate:from_databox:raised:{type(raised).__name__}", f"from_databox raised {type(raised).__name__}: {raised}")
                return
            if st["hazard"]:
                c.inconc(f"dataslate:from_databox:undecided:{st['hazard']}")
                return
            for name, kind, msg in M.box_diff(M.exact(st["box"]), snap_box(st["databox"]))[:1]:
                c.violation("dataslate:from_databox:databox-modified", f"from_databox changed the input databox, item {name!r}: {msg}")
            if tuple(ds.names) != st["names"]:
                c.violation("dataslate:from_databox:names-differ", f"dataslate names {ds.names} for requested {st['names']}")
                return
            if [period_ord(p) for p in ds.periods] != [(st["freq"], o) for o in st["ords"]]:
                c.violation("dataslate:from_databox:periods-differ", "dataslate periods differ from the requested span")
                return
            if ds.num_variants != st["nv"]:
                c.violation("dataslate:from_databox:variants-differ", f"{ds.num_variants} variants for num_variants={st['nv']}")
                return
            arrays = []
            seen = set()
            for v in range(st["nv"]):
                arr = np.array(ds.get_data_variant(v), dtype=float)
                arrays.append(arr.copy())
                for i, n in enumerate(st["names"]):
                    e = st["values"][n][v]
                    for t, x in enumerate(e):
                        g = float(arr[i, t])
                        if not (g == x or (g != g and x != x)):
                            k = "dataslate:from_databox:" + {
                                "input": "input-value-changed", "missing": "missing-cell-filled", "fallback": "fallback-not-applied",
                                "overwrite": "overwrite-not-applied", "clipped": "not-clipped-to-base-span"}[st["classes"][n][v][t]]
                            if k not in seen:
                                seen.add(k)
                                c.violation(k, f"{n!r} variant {v} at {M.label(st['freq'], st['ords'][t])}: dataslate holds {g}, expected {x}")
            if len(_SLATES) > 32:
                _SLATES.pop(next(iter(_SLATES)))
            _SLATES[id(ds)] = {"ds": ds, "arrays": arrays, "st": st}
        return _guarded("dataslate:from_databox", orig, pre, post)
    rt.wrap_attr(Dataslate, "from_databox", make_from_databox)

    def make_to_databox(orig):
        def pre(c, args, kwargs):
            a = _bind(orig, *args, **kwargs)
            if a is None:
                return None
            ds = a["self"]
            rec = _SLATES.get(id(ds))
            if rec is None or rec["ds"] is not ds:
                return None
            st0 = rec["st"]
            same = (tuple(ds.names) == st0["names"] and ds.num_variants == st0["nv"] and len(ds.periods) == len(st0["ords"])
                    and all(_nan_equal(ds.get_data_variant(v), rec["arrays"][v]) for v in range(st0["nv"]))
                    and tuple(ds.base_columns) == st0["base"])
            if not same:
                c.inconc("dataslate_roundtrip:dataslate-modified-since-from_databox")
                return None
            target = a["target_db"]
            tbox = snap_box(target) if target is not None else {}
            span = a["span"]
            hazard = None
            cols = list(range(len(st0["ords"])))
            if span == "base":
                if not st0["base"]:
                    hazard = "span-base-without-base-columns"
                else:
                    cols = list(range(st0["base"][0], st0["base"][-1] + 1))
            elif span != "full":
                hazard = "unknown-span-option"
            out_names = [n for n in st0["names"] if st0["output_names"] is None or n in st0["output_names"]]
            exp = M.exact(tbox)
            for n in out_names:
                rows = [[st0["values"][n][v][t] for t in cols] for v in range(st0["nv"])]
                exp[n] = [M.slate_series(st0["freq"], [st0["ords"][t] for t in cols], rows)]
            key = ("slate_rt", st0["key"], span, bool(a["trim"]), target is not None, st0["output_names"] is not None)
            return {"exp": exp, "hazard": hazard, "key": key, "nontrivial": st0["nontrivial"], "sel": set(out_names)}
        def post(c, st, result, raised):
            got = snap_box(result) if raised is None else None
            _judge(c, "dataslate_roundtrip", "dataslate:roundtrip", st["key"], st["nontrivial"], st["exp"], got, st["hazard"], raised, st["sel"],
                   what="databox from dataslate")
        return _guarded("dataslate:to_databox", orig, pre, post)
    rt.wrap_attr(Dataslate, "to_databox", make_to_databox)


_DONE = False


def install():
    global _DONE
    if _DONE:
        return
    _DONE = True
    import irispie  # noqa: F401
    _install_databox_monitors()
    _install_csv_monitors()
    _install_dataslate_monitors()


# ------------------------------------------------------------------------------
# drivers
# ------------------------------------------------------------------------------


def _quietly():
    cm = warnings.catch_warnings()
    return cm


def _upper(n):
    return n.upper()


_upper.c19_model = lambda n: n.upper()


def _iso_formatter(p):
    return p.to_iso_string()


_iso_formatter.c19_pair = "iso"


def _iso_parser(s, frequency=None):
    from irispie import Period
    return Period.from_iso_string(s, frequency=frequency)


_iso_parser.c19_pair = "iso"


def _span_arg(f, ords, how):
    import irispie as ir
    ps = [period(f, o) for o in ords]
    if how == "span" and ps:
        return ir.Span(ps[0], ps[-1])
    if how == "tuple":
        return tuple(ps)
    return ps


def _compare_shadow(c, op, shadow_exp, real_box, hazard, raised, key):
    """driver-level verdict; returns the new shadow (adopting the real outcome where the model leaves it open)"""
    got = snap_box(real_box)
    c.event("history", op, key=key, nontrivial=True)
    if raised is not None or (hazard and hazard not in SOFT_HAZARDS):
        return got                     # undecided (the wrappers have recorded it): carry on from the real state
    bad = False
    for name, kind, msg in M.box_diff(shadow_exp, got)[:3]:
        bad = True
        c.violation(f"history:{op}:{kind}", f"shadow of the history disagrees after {op}, item {name!r}: {msg}")
    new = {}
    for n, g in got.items():
        alts = shadow_exp.get(n)
        if bad or not alts or len(alts) != 1 or alts[0] is M.ANY or alts[0] is M.ABSENT:
            new[n] = g
            continue
        e = alts[0]
        if isinstance(e, M.SM):
            e = e.copy()
            if e.either:
                e.cells = dict(g.cells)
                e.either = None
            if not e.check_desc:
                e.desc = g.desc
                e.check_desc = True
            if (e.lo, e.hi) != (g.lo, g.hi):
                if e.cells:
                    c.note("history:stored-span-adopted-from-real-object")
                e.lo, e.hi = g.lo, g.hi
            if not e.cells:
                e.freq = g.freq
            new[n] = e
        else:
            new[n] = e
    return new


def _scribble(box):
    """overwrite everything reachable from a (copied) box in place"""
    for k, v in list(dict.items(box)):
        if _is_series(v):
            if v.data.size:
                v.data[...] = 999.25
        elif isinstance(v, list):
            v.append("scribble")
        elif isinstance(v, dict):
            v["scribble"] = 1
    box["__scribble__"] = 1


def run_history(c, case):
    install()
    import irispie as ir
    from irispie import Databox
    with c.running(case), warnings.catch_warnings(), rt.quiet():
        warnings.simplefilter("ignore")
        try:
            real = build_box(case["box"])
            shadow = model_box(case["box"])
        except SnapError as exc:
            c.inconc("harness:period-mapping")
            return
        d0 = M.box_diff(M.exact(shadow), snap_box(real))
        if d0:
            c.inconc("history:constructed-box-differs-from-spec(C10 territory)")
            shadow = snap_box(real)
        siblings = []
        replaying = "ops" in case
        ops = case["ops"] if replaying else []
        if not replaying:
            case["ops"] = ops
            oprng = np.random.default_rng(case["opseed"])
        n_ops = len(ops) if replaying else case["n_ops"]
        for i in range(n_ops):
            if replaying:
                op = ops[i]
            else:
                op = G.gen_op(oprng, list(shadow.keys()), spec_from_model(shadow))
                ops.append(op)
            try:
                real, shadow = _apply_op(c, op, real, shadow, siblings)
            except SnapError:
                c.inconc("harness:snapshot-failed")
                return
        for sreal, sshadow, how in siblings:
            c.event("sibling", how, key=("sibling", how, len(sshadow) > 0), nontrivial=bool(sshadow))
            for name, kind, msg in M.box_diff(M.exact(sshadow), snap_box(sreal))[:1]:
                c.violation(f"sibling:{how}:original-changed-later", f"box left behind by {how} changed afterwards, item {name!r}: {msg}")


def _apply_op(c, op, real, shadow, siblings):
    from irispie import Databox
    name = op["op"]
    cls = box_class(shadow)
    raised = None
    if name in ("overlay", "underlay"):
        other_real = build_box(op["other"])
        other = model_box(op["other"])
        names = G.materialize_source(op["names"])
        kw = {}
        if names is not None:
            kw["names"] = names
        if op["strict"]:
            kw["strict_names"] = True
        if op["method"]:
            kw["method"] = "by_span"
        try:
            exp, hazard, sel = M.expect_lay(name, shadow, other, None if names is None else list(names), op["strict"])
        except M.Hazard as h:
            exp, hazard, sel = None, str(h), []
        try:
            getattr(real, name)(other_real, **kw)
        except Exception as exc:
            raised = exc
        key = ("h", name, G.sel_kind(op["names"]), op["strict"], min(len(sel), 3)) + cls
        return real, _compare_shadow(c, name, exp, real, hazard, raised, key)
    if name == "clip":
        s = None if op["s"] is None else period(op["f"], op["s"])
        e = None if op["e"] is None else period(op["f"], op["e"])
        exp, touched = M.expect_clip(shadow, op["f"], op["s"], op["e"])
        try:
            real.clip(s, e)
        except Exception as exc:
            raised = exc
        key = ("h", "clip", op["s"] is None, op["e"] is None, min(len(touched), 3)) + cls
        return real, _compare_shadow(c, "clip", exp, real, None, raised, key)
    if name == "prepend":
        other_real = build_box(op["other"])
        other = model_box(op["other"])
        exp, hazard, sel = M.expect_prepend(shadow, other, op["f"], op["e"])
        try:
            real.prepend(other_real, period(op["f"], op["e"]))
        except Exception as exc:
            raised = exc
        key = ("h", "prepend", min(len(sel), 3)) + cls
        return real, _compare_shadow(c, "prepend", exp, real, hazard, raised, key)
    if name in ("copy", "shallow"):
        src, tgt = G.materialize_source(op["src"]), G.materialize_target(op["tgt"])
        exp, hazard = M.expect_copy(shadow, _names_arg(src), _names_arg(tgt), op["strict"], shallow=(name == "shallow"))
        new = None
        try:
            if src is None and tgt is None and not op["strict"]:
                new = getattr(real, name)()
            else:
                new = getattr(real, name)(src, tgt, strict_names=op["strict"])
        except Exception as exc:
            raised = exc
        key = ("h", name, G.sel_kind(op["src"]), G.sel_kind(op["tgt"]), op["strict"]) + cls
        if new is None:
            _compare_shadow(c, name, exp, real, hazard, raised, key)
            return real, shadow
        new_shadow = _compare_shadow(c, name, exp, new, hazard, raised, key)
        if name == "shallow":
            return real, shadow
        if op["switch"]:
            siblings.append((real, shadow, "copy"))
            return new, new_shadow
        # deep independence: scribble over the copy, the original must not notice
        _scribble(new)
        c.event("copy_independence", "scribble", key=("scribble",) + cls, nontrivial=bool(shadow))
        for nm, kind, msg in M.box_diff(M.exact(shadow), snap_box(real))[:1]:
            c.violation("copy:not-independent", f"overwriting the copy in place changed the original, item {nm!r}: {msg}")
        return real, shadow
    if name == "rename":
        src, tgt = G.materialize_source(op["src"]), G.materialize_target(op["tgt"])
        exp, hazard = M.expect_rename(shadow, _names_arg(src), _names_arg(tgt), op["strict"])
        try:
            real.rename(src, tgt, strict_names=op["strict"])
        except Exception as exc:
            raised = exc
        key = ("h", "rename", G.sel_kind(op["src"]), G.sel_kind(op["tgt"]), op["strict"]) + cls
        return real, _compare_shadow(c, "rename", exp, real, hazard, raised, key)
    if name in ("keep", "remove"):
        src = G.materialize_source(op["src"])
        exp, hazard = (M.expect_keep if name == "keep" else M.expect_remove)(shadow, _names_arg(src), op["strict"])
        try:
            if op["strict"]:
                getattr(real, name)(src, strict_names=True)
            else:
                getattr(real, name)(src)
        except Exception as exc:
            raised = exc
        key = ("h", name, G.sel_kind(op["src"]), op["strict"]) + cls
        return real, _compare_shadow(c, name, exp, real, hazard, raised, key)
    if name == "merge":
        others_real = [build_box(o) for o in op["others"]]
        others = [model_box(o) for o in op["others"]]
        strategy = "stack" if op["default"] else op["strategy"]
        exp, hazard, dups = M.expect_merge(shadow, others, strategy)
        arg = others_real[0] if op["single"] else (tuple(others_real) if len(others_real) % 2 else list(others_real))
        try:
            if op["default"]:
                real.merge(arg)
            else:
                real.merge(arg, strategy)
        except Exception as exc:
            raised = exc
        key = ("h", "merge", strategy, len(others), min(len(dups), 3)) + cls
        return real, _compare_shadow(c, "merge", exp, real, hazard, raised, key)
    if name == "by_merging":
        others_real = [real] + [build_box(o) for o in op["others"]]
        others = [shadow] + [model_box(o) for o in op["others"]]
        exp, hazard, dups = M.expect_merge({}, others, op["strategy"])
        new = None
        try:
            new = Databox.by_merging(others_real, op["strategy"])
        except Exception as exc:
            raised = exc
        key = ("h", "by_merging", op["strategy"], len(others), min(len(dups), 3)) + cls
        if new is None:
            # the first argument (the current box) may have been modified by the failed call: carry on from reality
            return real, _compare_shadow(c, "by_merging", None, real, "raised", raised, key)
        new_shadow = _compare_shadow(c, "by_merging", exp, new, hazard, raised, key)
        # the current box is an ARGUMENT here: the merge monitor reports modifications; carry on from the real state
        cur = snap_box(real)
        if op["switch"]:
            return new, new_shadow
        return real, cur
    if name == "or":
        other_real = build_box(op["other"])
        other = model_box(op["other"])
        exp = M.expect_or(shadow, other)
        new = None
        try:
            new = real | other_real
        except Exception as exc:
            raised = exc
        key = ("h", "or", min(len(set(shadow) & set(other)), 3)) + cls
        if new is None:
            _compare_shadow(c, "or", exp, real, None, raised, key)
            return real, shadow
        new_shadow = _compare_shadow(c, "or", exp, new, None, raised, key)
        if op["switch"]:
            siblings.append((real, shadow, "or"))
            return new, new_shadow
        return real, shadow
    raise ValueError(name)


def run_csv(c, case, tmpdir):
    install()
    from irispie import Databox, Frequency
    with c.running(case), warnings.catch_warnings(), rt.quiet():
        warnings.simplefilter("ignore")
        try:
            real = build_box(case["box"])
            w, r = dict(case["w"]), dict(case["r"])
            if "names" in w:
                w["names"] = G.materialize_source(w["names"])
            if "span" in w:
                sp = w["span"]
                w["span"] = _span_arg(sp["f"], sp["o"], sp["as"])
            if "frequency_span" in w:
                fs = w["frequency_span"]
                out = {}
                for f, v in fs["v"].items():
                    k = M.LETTER_TO_VALUE[f] if fs["int_keys"] else Frequency(M.LETTER_TO_VALUE[f])
                    out[k] = ... if v == "..." else (None if v is None else _span_arg(f, v, "span"))
                w["frequency_span"] = out
            if w.get("date_formatter") == "iso":
                w["date_formatter"] = _iso_formatter
            if r.get("period_from_string") == "iso":
                r["period_from_string"] = _iso_parser
            if r.get("name_row_transform") == "upper":
                r["name_row_transform"] = _upper
        except SnapError:
            c.inconc("harness:period-mapping")
            return
        path = os.path.join(tmpdir, f"c19_{os.getpid()}_{c.cases_run}.csv")
        try:
            try:
                real.to_csv_file(path, **w)
            except Exception:
                return          # recorded by the to_csv_file monitor
            try:
                Databox.from_csv_file(path, **r)
            except Exception:
                return          # recorded by the round-trip monitor
        finally:
            _CSV.pop(os.path.abspath(path), None)
            try:
                os.remove(path)
            except OSError:
                pass


def run_slate(c, case):
    install()
    from irispie.dataslates.main import Dataslate
    with c.running(case), warnings.catch_warnings(), rt.quiet():
        warnings.simplefilter("ignore")
        try:
            real = build_box(case["box"], as_dict=case.get("as_dict", False))
            periods = _span_arg(case["f"], list(range(case["lo"], case["lo"] + case["n"])), case.get("periods_as", "span"))
            target = build_box(case["target"]) if case.get("target") else None
        except SnapError:
            c.inconc("harness:period-mapping")
            return
        kw = {}
        if case["nv"] != 1:
            kw["num_variants"] = case["nv"]
        for k in ("fallbacks", "overwrites"):
            if case.get(k):
                kw[k] = _copy.deepcopy(case[k])
        if case.get("base") is not None:
            kw["base_columns"] = list(case["base"])
            if case.get("clip"):
                kw["clip_data_to_base_span"] = True
        if case.get("output_names") is not None:
            kw["output_names"] = list(case["output_names"])
        try:
            ds = Dataslate.from_databox(real, case["names"], periods, **kw)
        except Exception:
            return
        tkw = {}
        if target is not None:
            tkw["target_db"] = target
        if case.get("out_span") == "base":
            tkw["span"] = "base"
        if case.get("trim") is False:
            tkw["trim"] = False
        try:
            ds.to_databox(**tkw)
        except Exception:
            return


# ------------------------------------------------------------------------------
# directed cases (one per known finding, run by every shard)
# ------------------------------------------------------------------------------

_Q = M.ordinal("Q", 2020, 1)

DIRECTED = [
    # from_csv_file reads the header rows with a comma whatever `delimiter` says
    {"kind": "csv", "box": {"items": [["x", {"t": "s", "f": "Q", "lo": _Q, "v": [[1.0], [2.5], [3.0]], "d": "x, the first"}],
                                      ["y", {"t": "s", "f": "Q", "lo": _Q + 1, "v": [[4.0, 5.0], [6.0, 7.0]], "d": ""}]]},
     "w": {"delimiter": ";", "description_row": True}, "r": {"delimiter": ";", "description_row": True}},
    # Series.overlay / underlay broadcast the variants of the ARGUMENT in place
    {"kind": "history", "box": {"items": [["x", {"t": "s", "f": "Q", "lo": _Q, "v": [[1.0, 2.0], [3.0, 4.0]], "d": ""}]]},
     "ops": [{"op": "overlay", "other": {"items": [["x", {"t": "s", "f": "Q", "lo": _Q + 1, "v": [[9.0], [8.0]], "d": ""}]]},
              "names": None, "strict": False, "method": False},
             {"op": "underlay", "other": {"items": [["x", {"t": "s", "f": "Q", "lo": _Q - 1, "v": [[7.0], [6.0]], "d": ""}]]},
              "names": None, "strict": False, "method": False}]},
    # merge(..., "stack") stores the list of the first box by reference and then extends it in place
    {"kind": "history", "box": {"items": [["l", {"t": "p", "v": [1, 2]}], ["s", {"t": "p", "v": 3.0}]]},
     "ops": [{"op": "by_merging", "others": [{"items": [["l", {"t": "p", "v": [3]}], ["s", {"t": "p", "v": 4.0}]]}], "strategy": "stack", "switch": False}]},
    {"kind": "history", "box": {"items": []},
     "ops": [{"op": "merge", "others": [{"items": [["l", {"t": "p", "v": [1, 2]}]]}, {"items": [["l", {"t": "p", "v": [3]}]]}],
              "single": False, "strategy": "stack", "default": False}]},
]


def _run_case(c, case, tmpdir):
    kind = case["kind"]
    try:
        if kind == "history":
            run_history(c, case)
        elif kind == "csv":
            run_csv(c, case, tmpdir)
        elif kind == "slate":
            run_slate(c, case)
        elif kind == "repo-tests":
            _run_repo_tests(c)
    except SnapError:
        c.inconc("harness:snapshot-failed")


def _run_repo_tests(c):
    """the repository's own databox / dataslate tests under the monitors (failures of the tests themselves are only noted)"""
    import glob
    import importlib.util
    files = sorted(glob.glob(os.path.join(rt.REPO, "tests", "databoxes", "test_*.py")) + glob.glob(os.path.join(rt.REPO, "tests", "dataslates", "test_*.py")))
    with warnings.catch_warnings(), rt.quiet():
        warnings.simplefilter("ignore")
        for path in files:
            try:
                spec = importlib.util.spec_from_file_location("c19_repo_" + os.path.basename(path)[:-3], path)
                mod = importlib.util.module_from_spec(spec)
                spec.loader.exec_module(mod)
            except Exception as exc:
                c.note(f"repo-tests:import-failed:{os.path.basename(path)}:{type(exc).__name__}")
                continue
            for nm in sorted(dir(mod)):
                fn = getattr(mod, nm)
                if nm.startswith("test_") and callable(fn):
                    try:
                        if inspect.signature(fn).parameters:
                            continue
                        fn()
                        c.note("repo-tests:passed")
                    except Exception as exc:
                        c.note(f"repo-tests:failed:{type(exc).__name__}")


_STRACE_SCRIPT = """
import sys, numpy as np, irispie as ir
db = ir.Databox()
db["x"] = ir.Series(start=ir.qq(2020, 1), values=np.array([[1.0, 2.0], [2.5, float("nan")], [3.0, 4.0]]), description="x, first")
db["m"] = ir.Series(start=ir.mm(2020, 1), values=np.array([1.0, 2.0]))
db["s"] = 1.0
open(sys.argv[2], "w").close()
db.to_csv_file(sys.argv[1], description_row=True)
open(sys.argv[3], "w").close()
"""


def _strace_side(c, tmpdir):
    """side diagnostic (not deciding, never a violation): under strace, the named CSV file is the only file that
    to_csv_file opens for writing (openat/open/creat/rename/unlink/mkdir between two marker files)"""
    import re
    import shutil
    import subprocess
    import sys
    strace = shutil.which("strace")
    if not strace:
        c.note("strace:unavailable")
        return
    script = os.path.join(tmpdir, "strace_case.py")
    log = os.path.join(tmpdir, "strace.log")
    out, begin, end = (os.path.join(tmpdir, n) for n in ("strace_out.csv", "__begin__", "__end__"))
    with open(script, "w") as f:
        f.write(_STRACE_SCRIPT)
    try:
        p = subprocess.run([strace, "-f", "-e", "trace=openat,open,creat,rename,unlink,mkdir", "-o", log, sys.executable, "-W", "ignore", script, out, begin, end],
                           stdout=subprocess.PIPE, stderr=subprocess.STDOUT, timeout=120)
        lines = open(log).read().splitlines()
    except Exception as exc:
        c.note(f"strace:failed:{type(exc).__name__}")
        return
    inside, touched = False, []
    for ln in lines:
        if begin in ln:
            inside = True
            continue
        if end in ln:
            inside = False
        if inside and ("= -1" not in ln):
            m = re.search(r'\((?:AT_FDCWD, )?"([^"]*)"(.*)', ln)
            if m and (re.search(r"O_WRONLY|O_RDWR|O_CREAT|O_TRUNC|O_APPEND", m.group(2)) or re.search(r"\b(rename|unlink|mkdir|creat)\(", ln)):
                touched.append(m.group(1))
    if p.returncode != 0 or not any(begin in ln for ln in lines):
        c.note("strace:case-did-not-run")
        return
    c.event("fs_side", "strace", key=("strace",), nontrivial=False)
    c.extra["strace_paths_written_by_to_csv_file"] = len(touched)
    others = [t for t in touched if os.path.abspath(t) != os.path.abspath(out)]
    c.note("strace:only-the-named-file-written" if touched and not others else f"strace:other-paths-written:{others[:3]}")


def replay(c, case):
    install()
    with tempfile.TemporaryDirectory(prefix="c19-") as tmpdir:
        _run_case(c, case, tmpdir)


def shard(c):
    install()
    rng = c.rng
    with tempfile.TemporaryDirectory(prefix="c19-") as tmpdir:
        for case in DIRECTED:
            _run_case(c, _copy.deepcopy(case), tmpdir)
        if c.shard == 0:
            with c.running({"kind": "repo-tests"}):
                _run_repo_tests(c)
            _strace_side(c, tmpdir)
        n = c.scale(100000, 1000000)
        for i in range(n):
            if c.out_of_time():
                break
            k = i % 10
            if k < 4:
                case = G.gen_history(rng)
            elif k < 7:
                case = G.gen_csv_case(rng)
            else:
                case = G.gen_slate_case(rng)
            _run_case(c, case, tmpdir)
            if i in (0, 4, 7, 11, 15, 18):
                c.sample(_brief(case))


def _brief(x, depth=0):
    """a real case, written out, with long lists cut (series keep their first 3 rows, boxes 4 items, histories 4 ops)"""
    if isinstance(x, dict):
        out = {}
        for k, v in x.items():
            if k == "v" and x.get("t") == "s" and isinstance(v, list) and len(v) > 3:
                out["v"] = v[:3]
                out["rows_in_total"] = len(v)
            elif k in ("items", "ops", "others") and isinstance(v, list) and len(v) > 4:
                out[k] = [_brief(e, depth + 1) for e in v[:4]]
                out[k + "_in_total"] = len(v)
            else:
                out[k] = _brief(v, depth + 1)
        return out
    if isinstance(x, list):
        return [_brief(e, depth + 1) for e in x]
    return x
