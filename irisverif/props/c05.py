"""
C05 -- steady state returned by solve_steady satisfies the steady-state equations

Deciding monitor: wrapper on Simultaneous.solve_steady. Whenever it completes without error, for every variant the
oracle reads steady levels / changes / parameters through the public getters, builds the path level + change*s
(level * change**s for log-variables) over s = lo-3 .. hi+8 and evaluates every STEADY equation from the spec (AST
evaluator; the `!!` version where one exists) at 6 dates -- not only t and t+1 as check_steady does. Plan clauses:
fixed levels / changes and exogenized variables keep their assigned values bit for bit, endogenized parameters make the
equations hold (they are read back from the model and used by the oracle), every other parameter is unchanged.
A raise or success=False is a reported failure (inconclusive), never a violation.

Not decided: models without a steady state under the given flags (e.g. drift with flat=True), convergence itself.
"""

from __future__ import annotations

import numpy as np

from .. import runtime as rt
from ..oracles import expr as E
from ..workloads import families as F
from ..workloads import models as M

ID = "C05"
TIERS = {
    "quick": {"shards": 8, "budget_s": 45},
    "thorough": {"shards": 16, "budget_s": 480},
}
MIN_EVENTS = {"quick": 300, "thorough": 1500}
DECIDING = {"solve_steady"}
RULE = (
    "families L (linear, flat and non-flat incl. unit root with drift), N (nonlinear, flat, steady state known by construction, "
    "`!!` steady versions, start guesses 0/10/50% away), G (balanced growth with log-variables, non-flat, fix_level plans); "
    "split_into_blocks in {True, False, default}, both solvers, 1-3 parameter variants, steady plans (fix_level, fix_change, "
    "exogenize variable <-> endogenize parameter). distinct key = (family, n, flat?, linear?, blocks option, solver, plan kind, "
    "#variants, log pattern, has `!!`); non-trivial = n>=2 or growth or plan."
)
ASSUMPTIONS = [
    "steady equations are evaluated by the AST evaluator on the path rebuilt from the public steady levels and changes",
    "tolerance 1e-9*(1+scale) against a solver tolerance of 1e-12",
]
ANCHORS = [
    "irispie.simultaneous._steady:_steady_nonlinear",
    "irispie.simultaneous._steady:_steady_linear",
    "irispie.simultaneous._steady:_update_variant_with_final_guess",
    "irispie.simultaneous._steady:_resolve_steady_wrt",
    "irispie.steadiers.evaluators:FlatSteadyEvaluator._update_steady_array",
    "irispie.steadiers.evaluators:NonflatSteadyEvaluator._update_steady_array",
    "irispie.steadiers.evaluators:SteadyEvaluator.extract_changes",
    "irispie.steadiers._equators:NonflatSteadyEquator.eval",
    "irispie.fords.steadiers:solve_steady_linear_flat",
    "irispie.fords.steadiers:solve_steady_linear_nonflat",
    "irispie.incidences.blazer:blaze",
    "irispie.simultaneous._variants:Variant.create_steady_array",
]

_REG = {}


def register(model, case):
    _REG[id(model._invariant)] = case


def install():
    import irispie

    def make(orig):
        def solve_steady(self, *args, **kwargs):
            c = rt.ctx()
            case = _REG.get(id(self._invariant))
            before = None
            if c is not None and case is not None:
                try:
                    before = _snapshot(self, kwargs.get("plan"))
                except Exception:
                    before = None
            result = orig(self, *args, **kwargs)
            if c is not None and case is not None and before is not None:
                try:
                    _check(c, self, case, kwargs, before, result)
                except Exception as exc:
                    c.inconc(f"solve_steady:monitor-error:{type(exc).__name__}")
                    c.extra["last_monitor_error"] = repr(exc)[:300]
            return result
        return solve_steady
    rt.wrap_attr(irispie.Simultaneous, "solve_steady", make)
    if hasattr(irispie.Simultaneous, "steady"):
        try:
            irispie.Simultaneous.steady = irispie.Simultaneous.solve_steady
        except Exception:
            pass


def _values(model):
    lv = model.get_steady_levels(unpack_singleton=False)
    ch = model.get_steady_changes(unpack_singleton=False)
    pr = model.get_parameters(unpack_singleton=False)
    return ({k: list(v) for k, v in lv.items()}, {k: list(v) for k, v in ch.items()}, {k: list(v) for k, v in pr.items()})


def _snapshot(model, plan):
    lv, ch, pr = _values(model)
    snap = {"levels": lv, "changes": ch, "params": pr, "fixed_level": (), "fixed_change": (), "exogenized": (), "endogenized": ()}
    if plan is not None:
        snap["fixed_level"] = tuple(plan.get_fixed_level_names())
        snap["fixed_change"] = tuple(plan.get_fixed_change_names())
        snap["exogenized"] = tuple(plan.get_exogenized_names())
        snap["endogenized"] = tuple(plan.get_endogenized_names())
    return snap


def _check(c, model, case, kwargs, before, result):
    spec = case["spec"]
    vio = lambda k, msg, detail=None: c.violation(k, msg, detail=detail, case=case)
    info = result
    if kwargs.get("return_info"):
        infos = info if isinstance(info, (list, tuple)) else [info]
        if not all((i or {}).get("success", True) for i in infos):
            c.inconc("solve_steady:reported-failure")
            return
    flags = model.resolve_flags(**{k: v for k, v in kwargs.items() if k in ("flat", "linear")})
    lv, ch, pr = _values(model)
    if case["family"] == "L":
        for v in range(model.num_variants):
            if not _linear_steady_exists(spec, {p["name"]: float(pr[p["name"]][v]) for p in spec["params"]}, bool(flags.is_flat)):
                c.inconc("model-has-no-steady-state-under-these-flags(outside quantifier)")
                return
    nvar = model.num_variants
    logly = {q["name"]: bool(q.get("log")) for grp in ("tvars", "mvars", "exog") for q in spec[grp]}
    names = [q["name"] for grp in ("tvars", "mvars") for q in spec[grp]]
    lo, hi = M.shift_range(spec)
    ufs = M.user_funcs_of(spec)
    plan_kind = "+".join(k for k in ("fixed_level", "fixed_change", "exogenized") if before[k]) or "none"
    has_bang = any(eq.get("steady") for eq in spec["teqs"] + spec["meqs"])
    growth = False
    worst = 0.0
    for v in range(nvar):
        # ---- plan clauses
        for n in before["fixed_level"] + before["exogenized"]:
            a, b = before["levels"][n][v], lv[n][v]
            if not (a == b or (a is None and b is None)):
                vio("plan:fixed-or-exogenized-level-changed", f"variant {v}: {n} assigned {a!r}, after solve_steady {b!r}")
                return
        for n in before["fixed_change"] + before["exogenized"]:
            if flags.is_flat:
                continue
            a, b = before["changes"][n][v], ch[n][v]
            if not (a == b or (a is None and b is None)):
                vio("plan:fixed-or-exogenized-change-changed", f"variant {v}: change of {n} assigned {a!r}, after solve_steady {b!r}")
                return
        auto_names = {a_["name"] for a_ in case.get("autovalues") or []}
        for n, vals in pr.items():
            if n in before["endogenized"] or n in auto_names:
                continue
            a, b = before["params"][n][v], vals[v]
            if not (a == b or (a != a and b != b)):
                vio("plan:non-endogenized-parameter-changed", f"variant {v}: parameter {n} was {a!r}, after solve_steady {b!r}")
                return
        # ---- the path
        pad = 3
        s = np.arange(lo - pad, hi + 9, dtype=float)
        col0 = int(-(lo - pad))
        data = {}
        ok = True
        for n in names + [q["name"] for q in spec["exog"]]:
            L, C = lv.get(n, [None] * nvar)[v], ch.get(n, [None] * nvar)[v]
            if L is None or not np.isfinite(L):
                ok = False
                break
            if logly.get(n):
                C = 1.0 if (C is None or not np.isfinite(C)) else float(C)
                if (0 < abs(float(L)) < 1e-10) or C > 1e3 or (0 < C < 1e-3):
                    # the solver wandered to the edge of the domain of a log-variable (level 1e-37 growing by a factor 1e6 per
                    # period): every residual vanishes there in ABSOLUTE terms at the two dates the solver looks at, which its
                    # absolute tolerance cannot tell from convergence. Not a steady state in any useful sense: not decided
                    c.inconc("solve_steady:converged-at-the-edge-of-a-log-variable-domain")
                    return
                data[n] = float(L) * C ** s
                growth = growth or abs(C - 1.0) > 1e-10
            else:
                C = 0.0 if (C is None or not np.isfinite(C)) else float(C)
                data[n] = float(L) + C * s
                growth = growth or abs(C) > 1e-10
        if not ok:
            vio("solve_steady:returned-with-missing-steady-level", f"variant {v}: a steady level is missing after a successful solve_steady")
            return
        for q in spec["tshocks"] + spec["mshocks"]:
            data[q["name"]] = np.zeros_like(s)
        params = {p["name"]: float(pr[p["name"]][v]) for p in spec["params"]}
        dates = [col0 + d for d in (0, 1, 2, 5, 7, -2)]
        # ---- !steady-autovalues: parameters defined by an expression of the steady state (drawn so that the expression is the
        # same number at every date of the stored path)
        for a_ in case.get("autovalues") or []:
            got_ = float(pr[a_["name"]][v])
            for t in dates[:4]:
                with np.errstate(all="ignore"):
                    want_ = float(E.evaluate(a_["rhs"], data, params, t, ufs))
                c.event("solve_steady", "steady-autovalue", key=("autovalue", case["family"], bool(flags.is_flat), growth), nontrivial=True)
                if not np.isfinite(want_) or not abs(got_ - want_) <= 1e-9 * (1 + abs(want_)):
                    vio(f"solve_steady:steady-autovalue-differs:{'nonflat' if not flags.is_flat else 'flat'}",
                        f"variant {v}: autovalue {a_['name']} is {got_!r} after solve_steady, its expression gives {want_!r} on the stored steady path at date offset {t - col0}")
                    return
        for i, eq in enumerate(spec["teqs"] + spec["meqs"]):
            for t in dates:
                with np.errstate(all="ignore"):
                    src = eq["steady"] if eq.get("steady") else eq
                    l_ = float(E.evaluate(src["lhs"], data, params, t, ufs))
                    r_ = float(E.evaluate(src["rhs"], data, params, t, ufs))
                res = r_ - l_
                scale = max(abs(l_), abs(r_))
                if not np.isfinite(res):
                    vio("solve_steady:steady-equation-not-finite", f"variant {v}: steady equation #{i} is {res} at date offset {t - col0}")
                    return
                worst = max(worst, abs(res) / (1 + scale))
                if abs(res) > 1e-9 * (1 + scale):
                    where = "at-t-and-t+1-ok" if (t - col0) not in (0, 1) else "at-t-or-t+1"
                    vio(f"solve_steady:steady-equation-residual:{'nonflat' if not flags.is_flat else 'flat'}:{'linear' if flags.is_linear else 'nonlinear'}:{where}",
                        f"variant {v}: steady equation #{i} has residual {res:.3e} (scale {scale:.3e}) at date offset {t - col0}",
                        detail={"equation": i, "date_offset": t - col0, "levels": {n: lv[n][v] for n in names}, "changes": {n: ch[n][v] for n in names}})
                    return
    key = (case["family"], len(names), bool(flags.is_flat), bool(flags.is_linear), str(kwargs.get("split_into_blocks")), str(kwargs.get("solver")),
           plan_kind, nvar, "".join("L" if logly[n] else "-" for n in names)[:6], has_bang, growth)
    c.event("solve_steady", f"{case['family']}:{'flat' if flags.is_flat else 'nonflat'}", key=key, nontrivial=(len(names) >= 2 or growth or plan_kind != "none"))
    c.extra["worst_relative_residual_x1e15"] = max(c.extra.get("worst_relative_residual_x1e15", 0), int(worst * 1e15))


def _linear_steady_exists(spec, params, flat):
    from ..oracles import linre
    return linre.linear_steady_exists(spec, params, flat)


# ------------------------------------------------------------------------------
# workload
# ------------------------------------------------------------------------------


def _flat_steady_versions(rng, spec):
    """give some equations an explicit `!!` steady version: the dynamic equation with every shift removed (valid in flat mode)"""
    def unshift(node):
        k = node[0]
        if k == "var":
            return ["var", node[1], 0]
        if k == "neg":
            return ["neg", unshift(node[1])]
        if k == "bin":
            return ["bin", node[1], unshift(node[2]), unshift(node[3])]
        if k == "call":
            return ["call", node[1], [unshift(a) for a in node[2]]]
        return node
    for eq in spec["teqs"]:
        if rng.random() < 0.4:
            eq["steady"] = {"lhs": unshift(eq["lhs"]), "rhs": unshift(eq["rhs"])}


def spec_is_log(spec, name):
    return any(q["name"] == name and q.get("log") for grp in ("tvars", "mvars") for q in spec[grp])


def _family_LL(rng):
    """linear=True models written in the LOGS of log-variables (log-linear models), with leads, lags of order >= 2 and a log
    measurement variable: exact for the linear steady solver, and the one place where it has to delogarithmize"""
    n = int(rng.integers(1, 4))
    names = [f"lx{i}" for i in range(n)]
    spec = {"tvars": [{"name": nm, "desc": "", "log": True} for nm in names], "mvars": [], "exog": [], "mshocks": [], "families": [], "user_funcs": {},
            "tshocks": [{"name": f"le{i}", "desc": ""} for i in range(n)], "params": [], "teqs": [], "meqs": [],
            "flags": {"linear": True, "flat": True}}
    L = lambda nm, s_: E.call("log", E.var(nm, s_))
    for i, nm in enumerate(names):
        rho = float(np.round(rng.uniform(0.1, 0.6), 2))
        spec["params"].append({"name": f"lr{i}", "desc": "", "value": rho})
        terms = [E.bin_("*", E.par(f"lr{i}"), L(nm, -int(rng.integers(1, 4))))]
        if rng.random() < 0.6:
            terms.append(E.bin_("*", E.num(float(np.round(rng.uniform(0.05, 0.3), 2))), L(names[int(rng.integers(0, n))], int(rng.integers(1, 3)))))
        if n > 1 and rng.random() < 0.5:
            terms.append(E.bin_("*", E.num(float(np.round(rng.uniform(-0.2, 0.2), 2)) or 0.1), L(names[(i + 1) % n], -int(rng.integers(0, 3)))))
        terms.append(E.num(float(np.round(rng.uniform(-0.5, 0.5), 2))))
        terms.append(E.var(f"le{i}", 0))
        spec["teqs"].append({"lhs": L(nm, 0), "rhs": E.add_all(terms), "steady": None, "desc": "", "eqsign": "="})
    if rng.random() < 0.6:
        spec["mvars"].append({"name": "lob", "desc": "", "log": True})
        spec["meqs"].append({"lhs": L("lob", 0), "rhs": E.bin_("+", L(names[0], -int(rng.integers(0, 3))), E.num(float(np.round(rng.uniform(-0.3, 0.3), 2)))),
                             "steady": None, "desc": "", "eqsign": "="})
    return spec, None, {"family": "LL", "types": ["loglinear"] * n}


def make_case(rng):
    r = rng.random()
    if r < 0.08:
        family = "LL"
        spec, steady, meta = _family_LL(rng)
    elif r < 0.3:
        family = "L"
        drift = bool(rng.random() < 0.35)
        spec, meta = F.family_L(rng, unit_root=drift)
        flat = not drift
        if drift:
            # random walk with drift: add a constant to the rw equation (then only the non-flat steady state exists)
            i = meta["types"].index("rw")
            spec["teqs"][i]["rhs"] = E.bin_("+", spec["teqs"][i]["rhs"], E.num(float(np.round(rng.uniform(-0.5, 0.5), 2))))
        spec["flags"] = {"linear": True, "flat": flat}
        steady = None
    elif r < 0.8:
        family = "N"
        spec, steady, meta = F.family_N(rng)
        if spec is None:
            return None
        if rng.random() < 0.5:
            _flat_steady_versions(rng, spec)
    else:
        family = "G"
        spec, steady, meta = F.family_G(rng)
    lvl = int(rng.choice([0, 1]))
    rr = M.render_source(spec, rng if lvl else None, lvl)
    opts = {}
    if family != "L":
        sib = rng.choice(["default", "true", "false"])
        if sib != "default":
            opts["split_into_blocks"] = (sib == "true")
        if rng.random() < 0.3:
            opts["solver"] = "scipy_root"
    plan = None
    if family == "G":
        plan = {"fix_level": list(meta["fix"].keys())}
        if rng.random() < 0.3:
            # also fix the known growth rate of the trending variable
            plan["fix_change"] = list(meta["fix"].keys())
        elif rng.random() < 0.45:
            # growth mode with an ENDOGENIZED PARAMETER: a second variable is level-fixed (its change stays unknown) and a
            # parameter that shifts its level is backed out  (y = kap*a*gap -> kap;  q = z + s, s -> c;  r -> rrbar)
            scale = float(np.round(rng.uniform(0.8, 1.3), 3))
            pv = {p_["name"]: p_["value"] for p_ in spec["params"]}
            tpl = meta["template"]
            if tpl == "trend-productivity":
                var, par, lvl_ = "y", "kap", pv["kap"] * scale * meta["fix"]["a"]
            elif tpl == "random-walk-drift":
                var, par, lvl_ = "q", "c", meta["fix"]["z"] + (pv["c"] * scale if pv["c"] != 0 else 0.4)
            else:
                var, par, lvl_ = "r", "rrbar", (pv["rrbar"] * scale) + 100 * (pv["pibar"] - 1)
            meta = dict(meta, fix=dict(meta["fix"], **{var: float(np.round(lvl_, 6))}))
            plan = {"fix_level": list(meta["fix"].keys()), "endogenize": [par]}
    elif family == "N" and rng.random() < 0.35:
        i = int(rng.integers(0, len(spec["tvars"])))
        if rng.random() < 0.5:
            plan = {"swap": [[spec["tvars"][i]["name"], f"kcal{i}"]], "scale": float(np.round(rng.uniform(0.9, 1.15), 3))}
        else:
            plan = None
    autovalues = []
    source_text = rr["source"]
    if family in ("N", "G") and rng.random() < 0.35:
        tv = spec["tvars"]
        for k_ in range(int(rng.integers(1, 3))):
            if family == "G":
                tpl = meta["template"]
                pairs = {"trend-productivity": [("y", "a", "/"), ("y", "y", "/"), ("a", "a", "/")],
                         "nominal-real": [("p", "p", "/"), ("dp", "dp", "/")],
                         "random-walk-drift": [("q", "z", "-"), ("z", "z", "-"), ("q", "q", "-")]}[tpl]
                a_n, b_n, op = pairs[int(rng.integers(0, len(pairs)))]
            else:
                a_n = tv[int(rng.integers(0, len(tv)))]["name"]
                b_n = tv[int(rng.integers(0, len(tv)))]["name"]
                op = str(rng.choice(["/", "-", "*"]))
            s1, s2 = int(rng.integers(-2, 2)), int(rng.integers(-2, 2))
            rhs = E.bin_(op, E.var(a_n, s1), E.var(b_n, s2))
            name = f"ssav{k_}"
            autovalues.append({"name": name, "rhs": rhs})
            spec["params"].append({"name": name, "desc": "", "value": 0.0})
        # (the renderer does not know the block: parameters are declared through the spec, the block is appended as text)
        rr = M.render_source(spec, rng if lvl else None, lvl)
        source_text = rr["source"] + "\n!steady-autovalues\n" + "".join(f"    {a_['name']} = {E.render(a_['rhs'])};\n" for a_ in autovalues)
    return {"kind": "steady", "family": family, "spec": spec, "steady": steady, "meta": meta, "source": source_text, "context": rr["context"], "autovalues": autovalues,
            "opts": opts, "plan": plan, "nvar": int(rng.choice([1, 1, 2, 3])), "guess_distance": float(rng.choice([0.0, 0.1, 0.5])),
            "guess_seed": int(rng.integers(0, 10 ** 6)), "stale_changes": bool(rng.random() < 0.3), "solve_twice": bool(rng.random() < 0.25)}


def run_case(c, case):
    import irispie as ir
    spec, family = case["spec"], case["family"]
    with c.running(case):
        ctx = M.context_for_irispie(case.get("context") or {})
        try:
            with rt.quiet():
                m = ir.Simultaneous.from_string(case["source"], context=ctx, **spec["flags"])
        except Exception as exc:
            c.inconc(f"parse-failed:{type(exc).__name__}")
            return
        nvar = case["nvar"] if family != "G" or True else 1
        params = {p["name"]: p["value"] for p in spec["params"]}
        g = np.random.default_rng(case["guess_seed"])
        if nvar > 1:
            m.alter_num_variants(nvar)
            assign = {}
            for k, v in params.items():
                vals = [v]
                for j in range(1, nvar):
                    if family == "N" and k.startswith("kcal"):
                        vals.append(v + float(np.round(g.normal(0, 0.02), 4)))   # shifts the steady state a little
                    elif family == "L" and (k.startswith("rho") or k.startswith("a")):
                        vals.append(float(np.round(v * 0.9, 4)))
                    elif family == "G" and k in ("kap", "rrbar", "c"):
                        vals.append(float(np.round(v * 1.1, 4)))
                    else:
                        vals.append(v)
                assign[k] = vals
            m.assign(**assign)
        else:
            m.assign(**params)
        # ---- starting guess
        if family in ("N", "G"):
            guess = {}
            for n, (lvl, chg) in case["steady"].items():
                fix = case["meta"].get("fix", {})
                base = fix.get(n, lvl if lvl is not None else 1.0)
                if n not in fix:
                    base = base * (1 + case["guess_distance"] * g.uniform(-1, 1)) if base != 0 else case["guess_distance"] * g.uniform(-1, 1)
                if family == "G" and n not in (case.get("plan") or {}).get("fix_change", []) and case["guess_distance"] > 0:
                    # perturb the growth-rate guess as well (a missing write-back of changes must be visible)
                    chg = chg * (1 + 0.02 * g.uniform(-1, 1)) if spec_is_log(spec, n) else chg + 0.05 * g.uniform(-1, 1)
                if family == "N" and case.get("stale_changes") and spec["flags"].get("flat", False):
                    # history of the variant: a non-flat change is already stored when the flat solve starts (left over from a
                    # growth-mode solve or assigned with the starting values); the flat solve has to reset it
                    chg = float(np.round(1 + 0.05 * g.uniform(0.2, 1), 4)) if spec_is_log(spec, n) else float(np.round(0.3 * g.uniform(0.2, 1), 4))
                guess[n] = (base, chg)
            m.assign(**guess)
        plan = None
        pl = case.get("plan")
        if pl:
            plan = ir.SteadyPlan(m)

            def shaped(names, salt):
                """the same names handed over as a tuple, a list, a generator, an iterator, dict keys or one string at a time
                (Iterable[str] | str); the shape follows from the names so that a replay takes the same route"""
                names = list(names)
                k = (sum(len(n_) for n_ in names) + salt) % 6
                c_ = rt.ctx()
                if c_ is not None:
                    c_.note("plan-names-as:" + ("tuple", "list", "generator", "iterator", "dict-keys", "single-strings")[k])
                if k == 5:
                    return [n_ for n_ in names]
                return [(tuple(names), list(names), (n_ for n_ in names), iter(names), dict.fromkeys(names).keys())[k]]

            if pl.get("fix_level"):
                for arg in shaped(pl["fix_level"], 0):
                    plan.fix_level(arg)
            if pl.get("fix_change"):
                for arg in shaped(pl["fix_change"], 1):
                    plan.fix_change(arg)
            if pl.get("endogenize"):
                for arg in shaped(pl["endogenize"], 2):
                    plan.endogenize(arg)
            for a, b in pl.get("swap", []):
                plan.swap((a, b))
                m.assign(**{a: case["steady"][a][0] * pl["scale"]})
        register(m, case)
        try:
            kw = dict(case["opts"])
            if plan is not None:
                kw["plan"] = plan
            with rt.quiet():
                m.solve_steady(return_info=True, **kw)
                if case.get("solve_twice"):
                    # the solution is the starting point of a second solve on the same object (monitored like the first)
                    m.solve_steady(return_info=True, **kw)
        except Exception as exc:
            c.inconc(f"solve_steady:raised:{type(exc).__name__}")
        finally:
            _REG.pop(id(m._invariant), None)


def replay(c, case):
    install()
    run_case(c, case)


def shard(c):
    install()
    rng = c.rng
    n = c.scale(520, 6000)
    for i in range(n):
        if c.out_of_time():
            break
        try:
            case = make_case(rng)
        except Exception as exc:
            c.inconc(f"generator:error:{type(exc).__name__}")
            continue
        if case is None:
            continue
        try:
            run_case(c, case)
        except Exception as exc:
            c.inconc(f"harness:case-error:{type(exc).__name__}")
            c.extra["last_case_error"] = repr(exc)[:300]
        if i < 1:
            c.sample({k: case[k] for k in ("family", "source", "opts", "plan", "nvar", "guess_distance")})
