"""
C01 -- first-order solution satisfies the model equations and is the stable one

Deciding monitor: wrapper on Simultaneous.simulate(method="first_order") for models whose ModelSpec is registered
by the workload. For every monitored call the oracle
  1. re-runs the REAL simulator over the span extended by H zero-shock periods (continuation), checks that the
     original call is a prefix of it (causality), and builds, for every information set (one per date with an
     unanticipated shock), the model-consistent expected path by re-running the real simulator with later
     unanticipated shocks removed;
  2. evaluates every (linearised) equation from the SPEC (oracles.linre: finite differences of the AST evaluator,
     never irispie's Jacobians) in every simulated period, leads read from the expected path: residual <= tol,
     measurement equations included;
  3. checks non-explosiveness on the continuation;
  4. compares the stability verdict / number of unstable roots with the oracle's own eigenvalue computation
     (scipy.linalg.eig on the oracle's own pencil);
  5. compares level simulation with steady state (+) deviation simulation of the same shocks and initial deviations.

Not decided: models outside the certified region (an eigenvalue within 3% of the unit circle that is not an exact unit
root, repeated unit roots, n > 6); non-generic rank deficiencies.
"""

from __future__ import annotations

import numpy as np

from .. import runtime as rt
from ..oracles import expr as E
from ..oracles import linre
from ..workloads import families as F
from ..workloads import models as M

ID = "C01"
TIERS = {
    "quick": {"shards": 8, "budget_s": 45},
    "thorough": {"shards": 16, "budget_s": 540},
}
MIN_EVENTS = {"quick": 1000, "thorough": 1500}
DECIDING = {"simulate", "stability"}
RULE = (
    "families L (linear: AR / forward-looking / random-walk equations with random couplings, lags<=3, leads<=2, optional "
    "measurement block, constants, optional exact unit root), N (nonlinear with steady state known by construction, "
    "log-variables, multiplicative shocks) and G (balanced-growth templates); models classified determinate by the oracle "
    "are simulated with random initial conditions on all lags, 0-3 unanticipated and 0-3 anticipated shock dates (both kinds "
    "on the same date, shocks in the last period), spans 1..24, deviation in {True, False}, 1-2 parameter variants; the others "
    "feed the stability-verdict comparison. distinct key = (family, n, max lag, max lead, #unit roots, #measurement, log "
    "pattern, shock-kind pattern, deviation); non-trivial = at least one lead, one lag and one non-zero shock."
)
ASSUMPTIONS = [
    "equations are linearised by the oracle (finite differences of the AST at the steady path); for linear models this is exact",
    "eigenvalues by scipy.linalg.eig on the oracle's own pencil; certified region: no eigenvalue within 3% of the unit circle other than exact unit roots",
    "the expected path is produced by re-running the real simulator (as the property states: 'model-consistent continuation of that same path')",
]
ANCHORS = [
    "irispie.fords.solutions:_solve_ordqz",
    "irispie.fords.solutions:_solve_transition_equations",
    "irispie.fords.solutions:detach_stable_from_unit_roots",
    "irispie.fords.solutions:_square_from_triangular",
    "irispie.fords.solutions:_solve_measurement_equations",
    "irispie.fords.solutions:_get_solution_expansion",
    "irispie.fords.solutions:Solution.create_deviation_solution",
    "irispie.fords.descriptors:_create_dynid_matrices",
    "irispie.fords.simulators:simulate_flat",
    "irispie.fords.simulators:_simulate_measurement",
    "irispie.fords.shock_simulators:_simulate_anticipated_shock_values",
    "irispie.simultaneous._invariants:_introduce_anticipated_shocks_for_transition_shocks",
]

_REG = {}
_H = 40


def register(model, info):
    _REG[id(model._invariant)] = info


# ------------------------------------------------------------------------------
# monitor
# ------------------------------------------------------------------------------


def install():
    import irispie

    def make(orig):
        def simulate(self, in_db, span, *args, **kwargs):
            result = orig(self, in_db, span, *args, **kwargs)
            c = rt.ctx()
            info = _REG.get(id(self._invariant))
            if c is None or info is None or info.get("busy"):
                return result
            method = kwargs.get("method", "first_order")
            if method != "first_order" or kwargs.get("plan") is not None:
                return result
            info["busy"] = True
            try:
                out = result[0] if isinstance(result, tuple) else result
                _check_simulation(c, orig, self, in_db, span, kwargs, out, info)
            except Exception as exc:
                c.inconc(f"simulate:monitor-error:{type(exc).__name__}")
                c.extra["last_monitor_error"] = repr(exc)[:400]
            finally:
                info["busy"] = False
            return result
        return simulate
    rt.wrap_attr(irispie.Simultaneous, "simulate", make)


def _maybelog(arr, is_log):
    return np.log(arr) if is_log else arr


def _get(db, name, span):
    return np.asarray(db[name].get_data(span), dtype=float)


def _check_simulation(c, orig, model, in_db, span, kwargs, out, info):
    import irispie as ir
    spec, lin, case = info["spec"], info["lin"], info["case"]
    deviation = bool(kwargs.get("deviation", False))
    nvar = model.num_variants
    span = tuple(span)
    start, end = span[0], span[-1]
    T = len(span)
    lo = min([s for coefs in lin.teq + lin.meq for (_, s) in coefs] + [-1])
    hi = max([s for coefs in lin.teq + lin.meq for (_, s) in coefs] + [0])
    ext_end = end + _H
    ext_span = tuple(ir.Span(start, ext_end))
    full = tuple(ir.Span(start + lo, ext_end))   # columns of the working arrays
    col_of_start = -lo
    tsh, msh = lin.tshocks, lin.mshocks
    vio = lambda k, msg, detail=None: c.violation(k, msg, detail=detail, case=case)
    kw = {k: v for k, v in kwargs.items() if k in ("deviation", "method", "shocks_from_data", "num_variants")}

    # extended databox: same input, shocks zero beyond the original span (Databox.steady/zero of the case covers ext)
    ext_db = info["ext_db"]
    with rt.quiet():
        out_ext = orig(model, ext_db, ir.Span(start, ext_end), **kw)

    for v in range(nvar):
        lin_v = info["lins"][v] if "lins" in info else lin
        steady_v = info["steady_paths"][v]
        def arr(db, name):
            a = _get(db, name, full)
            return a[:, v] if a.shape[1] > 1 else a[:, 0]
        names = lin.tnames + lin.mnames
        actual = {n: arr(out_ext, n) for n in names}
        short = {n: arr(out, n) for n in names}
        # ---- causality / prefix consistency
        for n in names:
            a, b = actual[n][:col_of_start + T], short[n][:col_of_start + T]
            both = np.isfinite(a) & np.isfinite(b)
            if np.any(np.isfinite(b) & ~np.isfinite(a)) or np.max(np.abs(a[both] - b[both]), initial=0) > 1e-9 * (1 + np.max(np.abs(b[both]), initial=0)):
                vio("simulate:longer-span-changes-earlier-periods", f"{n}: simulating over a longer span (zero shocks added) changes the path on the original span")
                return
        # ---- shocks as used
        u = {s: np.nan_to_num(arr(ext_db, s)) for s in tsh}
        a_ = {s: np.nan_to_num(arr(ext_db, "ant_" + s)) for s in tsh}
        w = {s: np.nan_to_num(arr(ext_db, s)) for s in msh}
        unant_cols = sorted({int(t) for s in tsh for t in np.flatnonzero(u[s]) if col_of_start <= t < col_of_start + T})
        # ---- expected paths per information set
        info_sets = []  # (first_col, last_col, path dict)
        boundaries = [col_of_start] + [t for t in unant_cols if t > col_of_start] + [col_of_start + T]
        boundaries = sorted(set(boundaries))
        for bi in range(len(boundaries) - 1):
            first, nxt = boundaries[bi], boundaries[bi + 1]
            later = [t for t in unant_cols if t >= nxt]
            if not later:
                path = actual
            else:
                db_j = ext_db.copy()
                for s in tsh:
                    ser = db_j[s]
                    for t in later:
                        ser[full[t]] = 0.0
                with rt.quiet():
                    out_j = orig(model, db_j, ir.Span(start, ext_end), **kw)
                path = {n: arr(out_j, n) for n in names}
                # the expected path must coincide with the actual one up to the next surprise
                for n in names:
                    d = np.abs(path[n][:nxt] - actual[n][:nxt])
                    d = d[np.isfinite(d)]
                    if d.size and d.max() > 1e-9 * (1 + np.nanmax(np.abs(actual[n][:nxt]))):
                        vio("simulate:future-unanticipated-shock-changes-the-past", f"{n}: removing unanticipated shocks dated {later} changes the path before them")
                        return
            info_sets.append((first, nxt - 1, path))
        # ---- deviations in maybelog
        def devs(path):
            d = {}
            for n in names:
                x = path[n]
                is_log = lin.logly.get(n, False)
                if deviation:
                    d[n] = _maybelog(x, is_log)
                elif info["family"] == "L":
                    d[n] = x   # linear level mode: equations evaluated on levels with their constants
                else:
                    d[n] = _maybelog(x, is_log) - _maybelog(steady_v[n], is_log)
            return d
        dev_actual = devs(actual)
        worst = 0.0
        for first, last, path in info_sets:
            dev_exp = dev_actual if path is actual else devs(path)
            for t in range(first, last + 1):
                for kind, eqs, ucoefs, consts in (("transition", lin_v.teq, lin_v.teq_u, lin_v.const_t), ("measurement", lin_v.meq, lin_v.meq_w, lin_v.const_m)):
                    for ei, coefs in enumerate(eqs):
                        val = 0.0
                        scale = 1e-12
                        for (n, s), cf in coefs.items():
                            x = (dev_exp if s > 0 else dev_actual)[n][t + s]
                            val += cf * x
                            scale = max(scale, abs(cf * x))
                        for sname, cf in ucoefs[ei].items():
                            sh = (u[sname][t] + a_[sname][t]) if kind == "transition" else w[sname][t]
                            val += cf * sh
                            scale = max(scale, abs(cf * sh))
                        if info["family"] == "L" and not deviation:
                            val += consts[ei]
                            scale = max(scale, abs(consts[ei]))
                        if not np.isfinite(val):
                            vio(f"simulate:{kind}-equation-not-finite", f"{kind} equation #{ei} at period index {t - col_of_start}: residual {val}")
                            return
                        rel = abs(val) / (1 + scale)
                        worst = max(worst, rel)
                        if rel > 1e-8:
                            vio(f"simulate:{kind}-equation-residual" + (":with-anticipated" if any(np.any(a_[s]) for s in tsh) else "") + (":deviation" if deviation else ":level"),
                                f"{kind} equation #{ei} has residual {val:.3e} (scale {scale:.3e}) in period index {t - col_of_start} of {T}",
                                detail={"equation": ei, "kind": kind, "period_index": t - col_of_start, "variant": v,
                                        "info_set": [first - col_of_start, last - col_of_start]})
                            return
        # ---- non-explosive continuation
        stacked = np.array([dev_actual[n][col_of_start + T:] for n in lin.tnames])
        if info["family"] == "L" and not deviation:
            stacked = stacked - stacked[:, -1:]  # levels converge to the steady state (or a new level for unit roots)
        q = max(1, stacked.shape[1] // 4)
        head = np.nanmax(np.abs(stacked[:, :q]))
        tail = np.nanmax(np.abs(stacked[:, -q:]))
        if not np.isfinite(tail) or tail > 10 * (1e-9 + head) + 1e-9:
            vio("simulate:explosive-continuation", f"max |deviation| grows from {head:.3e} to {tail:.3e} over {_H} zero-shock periods")
            return
        n_unant = len(unant_cols)
        n_ant = int(sum(np.count_nonzero(a_[s]) for s in tsh))
        key = (info["family"], len(lin.tnames), lo, hi, info["n_unit"], len(lin.mnames), info["log_pattern"],
               ("u%d" % min(n_unant, 3)) + ("a%d" % min(n_ant, 3)), deviation, nvar)
        c.event("simulate", "deviation" if deviation else "level", key=key, nontrivial=(hi > 0 and lo < 0 and (n_unant + n_ant) > 0))
        c.extra["worst_relative_residual_x1e12"] = max(c.extra.get("worst_relative_residual_x1e12", 0), int(worst * 1e12))


# ------------------------------------------------------------------------------
# workload
# ------------------------------------------------------------------------------


def make_case(rng, family=None):
    r = rng.random()
    family = family or ("L" if r < 0.5 else ("N" if r < 0.85 else "G"))
    if family == "L":
        spec, meta = F.family_L(rng, unit_root=bool(rng.random() < 0.2))
        steady = None
        if "rw" not in meta["types"] and len(spec["teqs"]) % 2 == 0:
            # `!!` steady versions without time shifts on the equations that hold the deepest lag / farthest lead
            meta["flat_steady_versions"] = F.add_flat_steady_versions(spec)
    elif family == "N":
        spec, steady, meta = F.family_N(rng)
        if spec is None:
            return None
    else:
        spec, steady, meta = F.family_G(rng, measurement=bool(rng.random() < 0.5))
    T = int(rng.integers(1, 25))
    tnames = [q["name"] for q in spec["tvars"]]
    shocks = [q["name"] for q in spec["tshocks"]]
    mshocks = [q["name"] for q in spec["mshocks"]]
    unant, ant, msh = [], [], []
    n_u = int(rng.integers(0, 4))
    n_a = int(rng.integers(0, 4))
    for _ in range(n_u):
        t = int(rng.integers(0, T)) if rng.random() < 0.8 else T - 1
        unant.append([shocks[int(rng.integers(0, len(shocks)))], t, float(np.round(rng.normal(0, 0.05 if family != "L" else 1.0), 4))])
    for _ in range(n_a):
        t = int(rng.integers(0, min(T, 9))) if rng.random() < 0.8 else T - 1
        ant.append([shocks[int(rng.integers(0, len(shocks)))], t, float(np.round(rng.normal(0, 0.05 if family != "L" else 1.0), 4))])
    if unant and ant and rng.random() < 0.5:
        ant[0][1] = unant[0][1]   # both kinds on the same date
    for s in mshocks:
        if rng.random() < 0.5:
            msh.append([s, int(rng.integers(0, T)), float(np.round(rng.normal(0, 0.05 if family != "L" else 1.0), 4))])
    init = {n: [float(np.round(rng.normal(0, 0.05 if family != "L" else 1.0), 4)) for _ in range(5)] for n in tnames}
    lvl = int(rng.choice([0, 0, 1]))
    rr = M.render_source(spec, rng if lvl else None, lvl)
    nvar = 1 if rng.random() < 0.8 else 2
    return {"kind": "sim", "family": family, "spec": spec, "steady": steady, "meta": meta, "source": rr["source"], "context": rr["context"],
            "T": T, "unant": unant, "ant": ant, "msh": msh, "init": init, "nvar": nvar,
            "warmup": int(rng.integers(1, 3)) if rng.random() < 0.5 else 0,
            "hist": int(rng.integers(0, 2 ** 31)) if rng.random() < 0.4 else None,
            "split": bool(rng.random() < 0.3),
            "deviation_modes": [bool(rng.random() < 0.5)] if rng.random() < 0.6 else ([False, True] if rng.random() < 0.5 else [True, False]),
            "freq": str(rng.choice(["qq", "mm", "yy", "ii"]))}


def _period(freq, k):
    import irispie as ir
    if freq == "qq":
        return ir.qq(2020, 1) + k
    if freq == "mm":
        return ir.mm(2021, 11) + k
    if freq == "yy":
        return ir.yy(2000) + k
    return ir.ii(10) + k


def _verdict_of(sol):
    s = str(sol.system_stability)
    if "MULTIPLE" in s:
        return "multiple_stable"
    if "NO_STABLE" in s:
        return "no_stable"
    return "determinate"


def run_case(c, case):
    import irispie as ir
    spec, family = case["spec"], case["family"]
    with c.running(case):
        ctx = M.context_for_irispie(case.get("context") or {})
        try:
            with rt.quiet():
                m = ir.Simultaneous.from_string(case["source"], context=ctx, **spec["flags"])
        except Exception as exc:
            c.inconc(f"parse-failed:{type(exc).__name__}")
            return
        nvar = case.get("nvar", 1)
        params = {p["name"]: p["value"] for p in spec["params"]}
        if nvar > 1:
            m.alter_num_variants(nvar)
        variants_params = [dict(params)]
        if nvar > 1:
            p2 = dict(params)
            for k in p2:
                if k.startswith("rho") or k.startswith("a"):
                    p2[k] = float(np.round(p2[k] * 0.9, 4))
            variants_params.append(p2)
            m.assign(**{k: [variants_params[0][k], variants_params[1][k]] for k in params})
        else:
            m.assign(**params)
        # ---- steady state
        steadies = []
        for v in range(nvar):
            if family == "L":
                steadies.append(None)
            else:
                steadies.append(case["steady"])
        if family in ("N", "G"):
            if nvar > 1 and family == "N":
                # variant 2 has other parameters: xbar is no longer the steady state -> recalibrate kcal for variant 2
                # (keep it simple: use the same parameters for kcal; rho/a changes shift the steady state, so skip multi-variant for N)
                m.alter_num_variants(1)
                nvar = 1
                m.assign(**params)
                variants_params = [dict(params)]
            if nvar > 1:
                m.alter_num_variants(1)
                nvar = 1
                m.assign(**params)
                variants_params = [dict(params)]
            init_guess = {}
            for n, (lvl, chg) in case["steady"].items():
                fix = case["meta"].get("fix", {})
                init_guess[n] = (fix.get(n, lvl if lvl is not None else 1.0), chg)
            m.assign(**init_guess)
            try:
                with rt.quiet():
                    if family == "G":
                        fixn = tuple(case["meta"].get("fix", {}).keys())
                        m.solve_steady(fix_level=fixn, flat=False)
                    else:
                        m.solve_steady()
            except Exception as exc:
                c.inconc(f"solve_steady-failed:{type(exc).__name__}")
                return
        else:
            try:
                with rt.quiet():
                    m.solve_steady()
                has_steady = True
            except Exception:
                has_steady = False
            # an (accidental or planted) unit root with a constant has no steady state; irispie's linear steady solver
            # then returns a least-squares point without reporting failure: the level = steady + deviation claim does not apply
            if has_steady and not all(linre.linear_steady_exists(spec, vp, True) for vp in variants_params):
                has_steady = False
        try:
            with rt.quiet():
                m.solve()
        except Exception as exc:
            # a reported failure: fine unless the oracle certifies a determinate model
            lin = _linearize(case, m, 0, variants_params[0])
            cl = linre.classify(lin) if lin is not None else {"certified": False}
            if cl.get("certified") and cl.get("verdict") == "determinate" and not cl.get("n_unit"):
                # (with roots on the unit circle -- here 1 - 2e-16, an accidental complex pair -- irispie may refuse with
                # "inconsistency in classification of unit roots; increase the tolerance": a reported failure, not a wrong
                # answer, and the statement only speaks about models that were solved)
                c.violation(f"solve:raised-on-determinate-model:{type(exc).__name__}", f"{type(exc).__name__}: {str(exc)[:200]}", detail={"oracle": cl.get("moduli")})
            else:
                c.inconc("solve-raised-on-non-determinate-or-uncertified-model")
            return
        # ---- history of the model object: query operations of the public API before anything is monitored
        if case.get("hist") is not None:
            from ..workloads import history as Hist
            for op in Hist.perturb(m, case["hist"], spec, freq=case["freq"]):
                c.note("history:" + op)
        # ---- stability verdicts per variant
        lins, classes = [], []
        for v in range(nvar):
            lin = _linearize(case, m, v, variants_params[v])
            if lin is None:
                c.inconc("oracle:linearisation-failed")
                return
            cl = linre.classify(lin)
            lins.append(lin)
            classes.append(cl)
        sols = m.get_solution(unpack_singleton=False) if nvar > 1 else [m.get_solution()]
        stab = m.get_eigenvalues_stability(unpack_singleton=False) if nvar > 1 else [m.get_eigenvalues_stability()]
        all_ok = True
        for v in range(nvar):
            cl = classes[v]
            if not cl.get("certified"):
                c.inconc("oracle:model-outside-certified-region")
                all_ok = False
                continue
            got = _verdict_of(sols[v])
            n_unst = sum(1 for s_ in stab[v] if "UNSTABLE" in str(s_))
            n_unit = sum(1 for s_ in stab[v] if "UNIT" in str(s_))
            c.event("stability", cl["verdict"], key=("stab", case["family"], cl["verdict"], cl["n_forward"], cl["n_unit"]), nontrivial=cl["n_forward"] > 0)
            if got != cl["verdict"]:
                c.violation("stability:verdict-differs", f"irispie says {got}, independent eigenvalues say {cl['verdict']} (moduli {cl['moduli']})")
                all_ok = False
            elif n_unst != cl["n_unstable"]:
                c.violation("stability:unstable-count-differs", f"irispie counts {n_unst} unstable roots, oracle {cl['n_unstable']} (forward-looking {cl['n_forward']})")
                all_ok = False
            elif n_unit != cl["n_unit"]:
                c.violation("stability:unit-root-count-differs", f"irispie counts {n_unit} unit roots, oracle {cl['n_unit']}")
                all_ok = False
            if cl["verdict"] != "determinate":
                all_ok = False
        if not all_ok:
            return
        # ---- simulations
        T = case["T"]
        start = _period(case["freq"], 0)
        end = start + (T - 1)
        span = ir.Span(start, end)
        ext = ir.Span(start, end + _H)
        lo = min([s for ln in lins for coefs in ln.teq + ln.meq for (_, s) in coefs] + [-1])
        full = tuple(ir.Span(start + lo, end + _H))
        outs = {}
        for deviation in case["deviation_modes"]:
            if family == "L" and not deviation and not has_steady:
                base_db = ir.Databox.zero(m, ext)   # unit-root linear model: start from zero levels
            elif deviation:
                base_db = ir.Databox.zero(m, ext)
            else:
                base_db = ir.Databox.steady(m, ext)
            db = base_db.copy()
            logly = lins[0].logly
            for n, devs in case["init"].items():
                for k in range(1, -lo + 1):
                    p = start - k
                    cur = db[n].get_data(p)[0, :]
                    d = devs[(k - 1) % len(devs)]
                    new = cur * np.exp(d) if logly.get(n) else cur + d
                    db[n][p] = np.asarray(new, dtype=float).reshape(1, -1)
            for name, t, val in case["unant"]:
                db[name][start + t] = val
            for name, t, val in case["ant"]:
                db["ant_" + name][start + t] = val
            for name, t, val in case["msh"]:
                db[name][start + t] = val
            steady_paths = []
            sdb = ir.Databox.steady(m, ext) if not (family == "L" and not has_steady) else ir.Databox.zero(m, ext)
            for v in range(nvar):
                sp = {}
                for n in lins[0].tnames + lins[0].mnames:
                    a = np.asarray(sdb[n].get_data(full), dtype=float)
                    sp[n] = a[:, v] if a.shape[1] > 1 else a[:, 0]
                steady_paths.append(sp)
            if case.get("warmup") and case["ant"]:
                # history of the model object: an earlier simulation with a SHORTER anticipated horizon on the same solved
                # model (caches such as the forward expansion must not make later results depend on it)
                try:
                    wdb = base_db.copy()
                    h1 = int(case["warmup"])
                    wdb["ant_" + case["ant"][0][0]][start + min(h1, T - 1)] = 0.1 if family == "L" else 0.01
                    with rt.quiet():
                        m.simulate(wdb, span, method="first_order", deviation=deviation)
                except Exception:
                    pass
            register(m, {"spec": spec, "lin": lins[0], "lins": lins, "case": case, "family": family, "ext_db": db,
                         "steady_paths": steady_paths, "n_unit": classes[0]["n_unit"],
                         "log_pattern": "".join("L" if q.get("log") else "-" for q in spec["tvars"])[:6]})
            try:
                with rt.quiet():
                    # force_split_frames: one frame per unanticipated-shock date instead of a single pass (the monitor's own
                    # reference runs always use the default single frame)
                    extra_kw = {"force_split_frames": True} if case.get("split") else {}
                    out = m.simulate(db, span, method="first_order", deviation=deviation, **extra_kw)
                outs[deviation] = (out, db, steady_paths)
            except Exception as exc:
                c.violation(f"simulate:raised:{type(exc).__name__}", f"first-order simulation raised {type(exc).__name__}: {str(exc)[:200]}")
                return
            finally:
                _REG.pop(id(m._invariant), None)
        # ---- level == steady (+) deviation
        if True in outs and False in outs and (family != "L" or has_steady):
            out_l, _, sps = outs[False]
            out_d, _, _ = outs[True]
            sp_ = tuple(span)
            sdb = ir.Databox.steady(m, span)
            for n in lins[0].tnames + lins[0].mnames:
                L = np.asarray(out_l[n].get_data(sp_), dtype=float)
                D = np.asarray(out_d[n].get_data(sp_), dtype=float)
                S = np.asarray(sdb[n].get_data(sp_), dtype=float)
                if lins[0].logly.get(n):
                    lhs, rhs = np.log(L), np.log(S) + np.log(D)
                else:
                    lhs, rhs = L, S + D
                err = np.max(np.abs(lhs - rhs))
                c.event("simulate", "level==steady+deviation", key=None)
                if not np.isfinite(err) or err > 1e-9 * (1 + np.max(np.abs(lhs))):
                    c.violation("simulate:level-differs-from-steady-plus-deviation", f"{n}: max discrepancy {err:.3e}")
                    return


def _linearize(case, m, v, params):
    """oracle linearisation at the steady state the model reports (levels/changes read through the public getters)"""
    spec, family = case["spec"], case["family"]
    try:
        if family == "L":
            steady = {q["name"]: (0.0, 0.0) for q in spec["tvars"] + spec["mvars"]}
        else:
            lv = m.get_steady_levels(unpack_singleton=False)
            ch = m.get_steady_changes(unpack_singleton=False)
            steady = {}
            for q in spec["tvars"] + spec["mvars"]:
                l_ = lv[q["name"]][v]
                c_ = ch[q["name"]][v]
                if l_ is None or not np.isfinite(l_):
                    return None
                steady[q["name"]] = (float(l_), float(c_) if c_ is not None and np.isfinite(c_) else (1.0 if q.get("log") else 0.0))
        return linre.linearize(spec, steady, params, M.user_funcs_of(spec))
    except Exception:
        return None


def replay(c, case):
    install()
    run_case(c, case)


def shard(c):
    install()
    rng = c.rng
    n = c.scale(450, 3000)
    for i in range(n):
        if c.out_of_time():
            break
        try:
            case = make_case(rng)
        except Exception as exc:
            c.inconc(f"generator:error:{type(exc).__name__}")
            continue
        if case is None:
            continue
        try:
            run_case(c, case)
        except Exception as exc:
            c.inconc(f"harness:case-error:{type(exc).__name__}")
            c.extra["last_case_error"] = repr(exc)[:300]
        if i < 1:
            c.sample({k: case[k] for k in ("family", "source", "T", "unant", "ant", "init", "deviation_modes")})
