"""
C12 -- aggregation / disaggregation respect calendar membership and are consistent; arip is feasible and optimal

Deciding monitors (postconditions on the real public methods; the functional forms irispie.aggregate /
irispie.disaggregate call the method on a copy, so they pass through the same wrappers):

  aggregate     wrapper on Series.aggregate. The receiver is read into a dict {ordinal: values} before the call;
                the expected result is recomputed by oracles.c12_model from calendar membership
                (oracles.c12_calendar: a high period belongs to the low period its START DAY lies in) and compared
                cell by cell (NaN == absent). mean/sum/prod: a group with any missing member (members outside the
                series' span included) is missing unless discard_missing; first/last: first/last member (first/last
                non-missing one under discard_missing); min/max/geometric_mean: decided on complete groups or under
                discard_missing only; select: python indexing into the member list, before discarding; callables
                (documented as admissible `method`): the same callable applied to the member values, decided on
                complete groups or under discard_missing only.
  disaggregate  wrapper on Series.disaggregate, methods flat/first/middle/last: every low period of the input span
                against the values found at its member periods (exact), everything else missing. "middle" with an
                even number of members: either central member accepted (docstring does not pin it down).
  arip          same wrapper, method="arip": per variant (i) no missing value inside and nothing outside the high
                frequency span of the input, (ii) Z x = y on every observed low period not completely covered by
                targets and x = target on every target inside the span (1e-9 relative), (iii) objective of the
                returned x <= optimum of the DOCUMENTED criterion (oracles.c12_arip: null-space solver) up to
                1e-8 relative (+ rounding allowance). rho / c as documented (geometric average rate / average
                difference between first and last observation, converted by f_low/f_high).
  roundtrip     metamorphic checks through the real code run by the workload: aggregate(disaggregate(x,"flat"), m)
                == x for m in mean, first, last, min, max; first/first; last/last; arip / declared aggregation
                (on the observed low periods not completely covered by targets).

An exception raised by irispie on a request inside the quantifier is a violation "<op>:raised:<Type>"
("aggregate:select:raised:<Type>" when `select` was given).

Not decided (never a violation):
  * WEEKLY: the enum member exists but there is no weekly period class, a weekly series cannot be built.
  * empty series, integer frequency, same-frequency no-op calls, target frequency on the wrong side (error paths).
  * min / max / geometric_mean of a group with a missing member without discard_missing (NaN ordering).
  * a callable `method` on a group with a missing member without discard_missing, and on low periods that contain no
    period of the series' span (the implementation pads to whole years and calls it on NaN-padded groups, e.g. a
    counting callable returns the group size there; handing it only the existing observations would be as defensible).
  * `remove_missing` (legacy, "do not include in the docstring").
  * which of the two central members "middle" uses when the number of members is even.
  * arip: rho / c when fewer than two low observations remain (documentation says "average rate of change ... in the
    observed series"; feasibility is still decided); whether an observation of a low period that is completely covered
    by targets takes part in the estimate of rho / c (both readings accepted); rank-deficient constraint sets
    (aggregation "first"/"last" plus a target on that very member, zero custom weights) -- whatever irispie does there;
    multi-variant target series (irispie rejects them); values of the output at unobserved low periods in the
    round trip; "avg" is treated as a synonym of "mean", "multiplicative"/"additive" of "rate"/"diff".
  * functional forms leaving their argument untouched (that is C10's isolation claim).
"""

from __future__ import annotations

import inspect
import math

import numpy as np

from .. import runtime as rt
from ..oracles import c12_arip as ao
from ..oracles import c12_calendar as cal
from ..oracles import c12_model as mo

ID = "C12"
TIERS = {
    "quick": {"shards": 8, "budget_s": 22},
    "thorough": {"shards": 16, "budget_s": 300},
}
MIN_EVENTS = {"quick": 5000, "thorough": 60000}
DECIDING = {"aggregate", "disaggregate", "arip", "roundtrip"}
EXHAUSTIVE = {"quick": False, "thorough": False}
RULE = (
    "directed cases (every known finding, month-length / leap-day boundaries, 1900/2000/2100) + stratified random cases: "
    "all 10 ordered aggregation pairs and all 10 disaggregation pairs over Y/H/Q/M/D, start at every segment of the year "
    "(daily: month/year boundaries, 28/29 Feb), lengths 1..60 periods (daily up to ~900 days), leap and non-leap years, "
    "1-3 variants, NaN patterns none/interior/leading/trailing/whole-group/random, all methods (mean sum prod first last "
    "min max geometric_mean + 6 callables), discard_missing, select; method and functional form alternate. arip: rate/diff "
    "x sum/mean/first/last/custom vector, with/without targets (partial, whole low period), missing low observations. "
    "distinct key = (op, source freq, target freq, method, options, start-position class, leap day inside?, "
    "missing-pattern profile relative to the groups, n_variants); non-trivial = more than one input period and at least "
    "one non-missing expected output cell."
)
ASSUMPTIONS = [
    "trusted base: datetime/calendar, numpy/scipy linear algebra, CPython floats",
    "period labels of a real Series are read through Period.to_year_segment()/to_ymd() of its start only (checked by C09/C11); "
    "row i of Series.data is period start+i in the oracle's own ordinal arithmetic",
    "arip criterion = least-squares reading of the documented Gaussian state space without initial condition; "
    "rho = ((y_last/y_first)^(1/n))^(f_low/f_high), c = (y_last-y_first)/n*(f_low/f_high)",
]
ANCHORS = [
    "irispie.series._conversions:Inlay.aggregate",
    "irispie.series._conversions:Inlay.disaggregate",
    "irispie.series._conversions:_aggregate_regular_to_regular",
    "irispie.series._conversions:_aggregate_daily_to_regular",
    "irispie.series._conversions:_aggregate_within_data",
    "irispie.series._conversions:_disaggregate_flat",
    "irispie.series._conversions:_disaggregate_first",
    "irispie.series._conversions:_disaggregate_middle",
    "irispie.series._conversions:_disaggregate_last",
    "irispie.series._conversions:convert_roc",
    "irispie.series._conversions:convert_diff",
    "irispie.series.arip:disaggregate_arip",
    "irispie.series.arip:disaggregate_arip_data",
    "irispie.series.arip:_create_basic_system_matrices",
    "irispie.series.arip:_create_multiplier_column",
    "irispie.series.arip:_create_aggregation_row",
    "irispie.series.arip:_create_target_row",
    "irispie.series.arip:_detect_full_low_periods",
    "irispie.series.arip:_get_target_data",
    "irispie.series.arip:_get_first_last_observations",
    "irispie.series.arip:_RateForm.get_rho",
    "irispie.series.arip:_DiffForm.get_constant",
    "irispie.dates:RegularPeriodMixin.to_daily",
    "irispie.dates:RegularPeriodMixin.to_ymd",
    "irispie.dates:DailyPeriod.create_soy",
    "irispie.dates:DailyPeriod.create_eoy",
]

L = cal.LETTER
_AGG_PAIRS = [(s, t) for s in cal.CALENDAR for t in cal.CALENDAR if t < s]
_DIS_PAIRS = [(s, t) for s in cal.CALENDAR for t in cal.CALENDAR if t > s]
_ARIP_FORMS = ("rate", "multiplicative", "diff", "additive")
_ARIP_AGGS = ("sum", "mean", "avg", "first", "last")
_CALLABLE_NAME = {id(f): n for n, f in mo.CALLABLES.items()}

# ------------------------------------------------------------------------------
# Reading real objects (labels only)
# ------------------------------------------------------------------------------


def _freq_int(f):
    return int(getattr(f, "value", f))


def _label(period):
    f = _freq_int(period.frequency)
    if f == cal.DAILY:
        return tuple(int(v) for v in period.to_ymd())
    return tuple(int(v) for v in period.to_year_segment())


def read_series(s):
    """{freq, nv, data{ordinal: [values]}, start (label) }  -- a snapshot, independent of the object afterwards"""
    arr = np.array(s.data, dtype=float, copy=True)
    if arr.ndim != 2:
        raise ValueError("data not 2-D")
    if s.start is None or arr.shape[0] == 0:
        return {"freq": None, "nv": arr.shape[1], "data": {}, "start": None, "rows": []}
    f = _freq_int(s.start.frequency)
    label = _label(s.start)
    o0 = cal.ordinal_from_label(f, label)
    data = {o0 + i: [float(v) for v in arr[i]] for i in range(arr.shape[0])}
    return {"freq": f, "nv": int(arr.shape[1]), "data": data, "start": list(label), "rows": arr.tolist()}


def _method_name(method):
    if method is None:
        return "mean"
    if isinstance(method, str):
        return method
    return _CALLABLE_NAME.get(id(method), "call:unknown")


# ------------------------------------------------------------------------------
# Monitors
# ------------------------------------------------------------------------------

_DEPTH = [0]


def install():
    import irispie
    Series = irispie.Series

    def make_aggregate(orig):
        try:
            sig = inspect.signature(orig)
        except Exception:
            sig = None

        def aggregate(self, *args, **kwargs):
            c = rt.ctx()
            if c is None or _DEPTH[0] > 0 or sig is None:
                return orig(self, *args, **kwargs)
            pre = None
            try:
                pre = _pre_aggregate(c, self, sig, args, kwargs)
            except Exception as exc:
                c.inconc(f"aggregate:monitor-error:{type(exc).__name__}")
            raised = None
            result = None
            _DEPTH[0] += 1
            try:
                result = orig(self, *args, **kwargs)
            except Exception as exc:
                raised = exc
            finally:
                _DEPTH[0] -= 1
            if pre is not None:
                try:
                    _post_aggregate(c, self, pre, raised)
                except Exception as exc:
                    c.inconc(f"aggregate:monitor-error:{type(exc).__name__}")
            if raised is not None:
                raise raised
            return result
        return aggregate
    rt.wrap_attr(Series, "aggregate", make_aggregate)

    def make_disaggregate(orig):
        try:
            sig = inspect.signature(orig)
        except Exception:
            sig = None

        def disaggregate(self, *args, **kwargs):
            c = rt.ctx()
            if c is None or _DEPTH[0] > 0 or sig is None:
                return orig(self, *args, **kwargs)
            pre = None
            try:
                pre = _pre_disaggregate(c, self, sig, args, kwargs)
            except Exception as exc:
                c.inconc(f"disaggregate:monitor-error:{type(exc).__name__}")
            raised = None
            result = None
            _DEPTH[0] += 1
            try:
                result = orig(self, *args, **kwargs)
            except Exception as exc:
                raised = exc
            finally:
                _DEPTH[0] -= 1
            if pre is not None:
                try:
                    _post_disaggregate(c, self, pre, raised)
                except Exception as exc:
                    c.inconc(f"disaggregate:monitor-error:{type(exc).__name__}")
            if raised is not None:
                raise raised
            return result
        return disaggregate
    rt.wrap_attr(Series, "disaggregate", make_disaggregate)


# ---- aggregate


def _pre_aggregate(c, self, sig, args, kwargs):
    ba = sig.bind(self, *args, **kwargs)
    a = ba.arguments
    snap = read_series(self)
    tgt = _freq_int(a.get("target_freq"))
    method = a.get("method")
    select = a.get("select")
    discard = a.get("discard_missing")
    if a.get("remove_missing") is not None:
        c.inconc("aggregate:legacy-option-not-decided")
        return None
    src = snap["freq"]
    if src is None:
        c.inconc("aggregate:empty-series-not-decided")
        return None
    if src == tgt:
        c.note("aggregate:same-frequency-noop")
        return None
    if src not in cal.CALENDAR or tgt not in cal.CALENDAR or tgt > src:
        c.inconc("aggregate:outside-quantifier(frequencies)")
        return None
    if not (method is None or callable(method) or method in mo.BUILTIN_METHODS):
        c.inconc("aggregate:outside-quantifier(method)")
        return None
    if select is not None:
        try:
            raw = list(select)
            ok = all(isinstance(i, (int, np.integer)) and not isinstance(i, (bool, np.bool_)) for i in raw)
        except Exception:
            ok = False
        if not ok:
            c.inconc("aggregate:outside-quantifier(select)")
            return None
        select = [int(i) for i in raw]
    if discard not in (None, True, False):
        c.inconc("aggregate:outside-quantifier(discard_missing)")
        return None
    name = _method_name(method)
    case = None
    if name != "call:unknown":
        case = {"kind": "agg", "form": "method", "freq": src, "start": snap["start"], "values": snap["rows"], "target": tgt,
                "method": None if method is None else name, "discard_missing": None if discard is None else bool(discard),
                "select": select}
    return {"snap": snap, "src": src, "tgt": tgt, "method": method if callable(method) else name, "name": name,
            "discard": bool(discard), "select": select, "case": case}


def _post_aggregate(c, self, pre, raised):
    snap, src, tgt = pre["snap"], pre["src"], pre["tgt"]
    nv = snap["nv"]
    name = pre["name"]
    mkey = name if not name.startswith("call:") else "callable"
    try:
        expected = mo.aggregate_expected(src, snap["data"], nv, tgt, pre["method"], pre["discard"], pre["select"])
    except mo.OutsideQuantifier as exc:
        c.inconc(f"aggregate:outside-quantifier({exc})")
        return
    flat = [e for row in expected.values() for e in row]
    callable_raised = any(len(e) > 1 and e[0] == "any" and e[1] == "callable-raised" for e in flat)
    sp = mo.span_of(snap["data"])
    n_in = sp[1] - sp[0] + 1
    decided_cells = sum(1 for e in flat if e[0] == "eq")
    nontrivial = n_in >= 2 and any(e[0] == "eq" and not math.isnan(e[1]) for e in flat)
    key = ("agg", src, tgt, name, pre["discard"], None if pre["select"] is None else len(pre["select"]),
           cal.start_class(src, sp[0], tgt), cal.has_leap_day(src, sp[0], sp[1]),
           mo.group_profile(src, snap["data"], nv, tgt), nv)
    op = f"{L[src]}->{L[tgt]}:{mkey}"
    if raised is not None:
        if callable_raised or (name == "geometric_mean" and any(e[0] == "any" for e in flat)):
            c.inconc("aggregate:raised-where-the-method-itself-is-undefined")
            return
        c.event("aggregate", op, key=key, nontrivial=nontrivial)
        sel = "select:" if pre["select"] is not None else ""
        c.violation(f"aggregate:{sel}raised:{type(raised).__name__}",
                    f"aggregate {L[src]}->{L[tgt]} method={name} discard_missing={pre['discard']} select={pre['select']} "
                    f"raised {type(raised).__name__}: {raised}", case=pre["case"])
        return
    got = read_series(self)
    c.event("aggregate", op, key=key, nontrivial=nontrivial)
    c.extra["aggregate_cells_decided"] = c.extra.get("aggregate_cells_decided", 0) + decided_cells
    if got["freq"] is not None and got["freq"] != tgt:
        c.violation("aggregate:wrong-frequency", f"result has frequency {got['freq']}, requested {tgt}", case=pre["case"])
        return
    if got["nv"] != nv:
        c.violation("aggregate:wrong-variants", f"result has {got['nv']} variants, input {nv}", case=pre["case"])
        return
    undecided_outside = name.startswith("call:")
    problems = mo.compare_aggregate(expected, got["data"], nv, undecided_outside)
    if problems:
        p, j, want, have = problems[0]
        mem = cal.members(tgt, p, src)
        vals = [mo.get(snap["data"], h, j) for h in mem]
        n_missing = sum(1 for v in vals if math.isnan(v))
        shown = vals if len(vals) <= 12 else vals[:6] + ["..."] + vals[-5:]
        kind = "daily" if src == cal.DAILY else "regular"
        c.violation(f"aggregate:{kind}:{mkey}:wrong-value",
                    f"aggregate {L[src]}->{L[tgt]} method={name} discard_missing={pre['discard']} select={pre['select']}: low period "
                    f"{cal.label_from_ordinal(tgt, p)} variant {j}: got {have!r}, its {len(vals)} members ({n_missing} missing) {rt.short(shown, 300)} give {want!r} "
                    f"({len(problems)} cells differ)", case=pre["case"])


# ---- disaggregate


def _pre_disaggregate(c, self, sig, args, kwargs):
    ba = sig.bind(self, *args, **kwargs)
    a = dict(ba.arguments)
    extra = dict(a.pop("kwargs", {}) or {})
    snap = read_series(self)
    tgt = _freq_int(a.get("target_freq"))
    method = a.get("method", "flat")
    method_given = "method" in a
    src = snap["freq"]
    if src is None:
        c.inconc("disaggregate:empty-series-not-decided")
        return None
    if src == tgt:
        c.note("disaggregate:same-frequency-noop")
        return None
    if src not in cal.CALENDAR or tgt not in cal.CALENDAR or tgt < src:
        c.inconc("disaggregate:outside-quantifier(frequencies)")
        return None
    if method not in ("flat", "first", "middle", "last", "arip"):
        c.inconc("disaggregate:outside-quantifier(method)")
        return None
    pre = {"snap": snap, "src": src, "tgt": tgt, "method": method}
    case = {"kind": "disagg", "form": "method", "freq": src, "start": snap["start"], "values": snap["rows"], "target": tgt,
            "method": method if method_given else None}
    if method != "arip":
        if extra:
            c.inconc("disaggregate:outside-quantifier(unexpected options)")
            return None
        pre["case"] = case
        return pre
    if set(extra) - {"model", "target"} or "model" not in extra:
        c.inconc("arip:outside-quantifier(options)")
        return None
    try:
        form, agg = extra["model"]
    except Exception:
        c.inconc("arip:outside-quantifier(model)")
        return None
    if form not in _ARIP_FORMS:
        c.inconc("arip:outside-quantifier(form)")
        return None
    if isinstance(agg, str):
        if agg not in _ARIP_AGGS:
            c.inconc("arip:outside-quantifier(aggregation)")
            return None
    else:
        agg = [float(v) for v in agg]
    target = extra.get("target")
    tsnap = None
    if target is not None:
        tsnap = read_series(target)
        if tsnap["freq"] is not None and (tsnap["freq"] != tgt or tsnap["nv"] != 1):
            c.inconc("arip:target-series-not-decided(frequency or variants)")
            return None
    pre.update(form=form, agg=agg, tsnap=tsnap)
    case.update(model=[form, agg], target_series=None if tsnap is None or tsnap["freq"] is None else
                {"freq": tsnap["freq"], "start": tsnap["start"], "values": tsnap["rows"]})
    pre["case"] = case
    return pre


def _block_model(pre):
    """What placing every low period on a block of (365 // f) days would give -- used ONLY to attribute a mismatch
    on a DAILY target to the known mechanism (known_findings 'disaggregate:daily-target:wrong-days'); a mismatch
    of any other shape keeps the generic key and surfaces as an unlisted violation."""
    snap, src, method = pre["snap"], pre["src"], pre["method"]
    sp = mo.span_of(snap["data"])
    k = 365 // src
    d0 = cal.start_day(src, sp[0]).toordinal()
    nv = snap["nv"]
    out = {}
    for i, p in enumerate(range(sp[0], sp[1] + 1)):
        row = [mo.get(snap["data"], p, j) for j in range(nv)]
        for r in range(k):
            if method == "flat" or (method == "first" and r == 0) or (method == "last" and r == k - 1) or (method == "middle" and r == k // 2):
                out[d0 + i * k + r] = list(row)
    return out


def _post_disaggregate(c, self, pre, raised):
    if pre["method"] == "arip":
        return _post_arip(c, self, pre, raised)
    snap, src, tgt, method = pre["snap"], pre["src"], pre["tgt"], pre["method"]
    nv = snap["nv"]
    sp = mo.span_of(snap["data"])
    n_in = sp[1] - sp[0] + 1
    hi_first = cal.members(src, sp[0], tgt)[0]
    hi_last = cal.members(src, sp[1], tgt)[-1]
    interior_missing = any(math.isnan(mo.get(snap["data"], p, j)) for p in range(sp[0], sp[1] + 1) for j in range(nv))
    seg = cal.label_from_ordinal(src, sp[0])[1]
    key = ("dis", src, tgt, method, seg, cal.has_leap_day(tgt, hi_first, hi_last), interior_missing, nv, min(n_in, 3))
    op = f"{L[src]}->{L[tgt]}:{method}"
    c.event("disaggregate", op, key=key, nontrivial=n_in >= 2)
    if raised is not None:
        c.violation(f"disaggregate:{method}:raised:{type(raised).__name__}",
                    f"disaggregate {L[src]}->{L[tgt]} method={method} raised {type(raised).__name__}: {raised}", case=pre["case"])
        return
    got = read_series(self)
    if got["freq"] is not None and got["freq"] != tgt:
        c.violation("disaggregate:wrong-frequency", f"result has frequency {got['freq']}, requested {tgt}", case=pre["case"])
        return
    if got["nv"] != nv:
        c.violation("disaggregate:wrong-variants", f"result has {got['nv']} variants, input {nv}", case=pre["case"])
        return
    problems = mo.compare_disaggregate(src, snap["data"], nv, tgt, method, got["data"])
    if not problems:
        return
    p, j, text = problems[0]
    where = f"low period {cal.label_from_ordinal(src, p)} " if p is not None else ""
    msg = (f"disaggregate {L[src]}->{L[tgt]} method={method}: {where}variant {j}: {text}; result spans "
           f"{got['start']} + {len(got['rows'])} rows, calendar span has {hi_last - hi_first + 1} ({len(problems)} problems)")
    if tgt == cal.DAILY and not mo.maps_equal(_block_model(pre), got["data"], nv):
        c.violation("disaggregate:daily-target:wrong-days", msg + " [result == blocks of 365//f days]", case=pre["case"])
    else:
        c.violation(f"disaggregate:{method}:wrong-values", msg, case=pre["case"])


# ---- arip


def _arip_layout(pre, sizes_override=None):
    snap, src, tgt = pre["snap"], pre["src"], pre["tgt"]
    sp = mo.span_of(snap["data"])
    lows = list(range(sp[0], sp[1] + 1))
    if sizes_override is None:
        groups = [cal.members(src, p, tgt) for p in lows]
    else:
        d0 = cal.start_day(src, sp[0]).toordinal()
        groups = [[d0 + i * sizes_override + r for r in range(sizes_override)] for i in range(len(lows))]
    highs = [h for g in groups for h in g]
    tdata = (pre["tsnap"] or {}).get("data", {})
    targets = np.array([mo.get(tdata, h, 0) for h in highs], dtype=float)
    return lows, [len(g) for g in groups], highs, targets


def _arip_feasible(pre, got, j, lows, sizes, highs, targets):
    """(problems, A, b, kinds, y, x) for variant j under the given layout; problems = [(key-suffix, text)]"""
    snap = pre["snap"]
    y = np.array([mo.get(snap["data"], p, j) for p in lows], dtype=float)
    x = np.array([mo.get(got["data"], h, j) for h in highs], dtype=float)
    A, b, kinds = ao.constraint_system(sizes, pre["agg"], y, targets)
    problems = []
    if np.any(~np.isfinite(x)):
        problems.append(("missing-values-in-output", f"{int(np.sum(~np.isfinite(x)))} of {x.size} high-frequency periods of the span hold no value"))
        return problems, A, b, kinds, y, x
    for kind, resid, scale in ao.feasibility(A, b, kinds, x)[:2]:
        if kind[0] == "agg":
            problems.append(("constraint-violated", f"low period #{kind[1]} (y={float(y[kind[1]])!r}): Z x - y = {resid:.3e} (scale {scale:.3e})"))
        else:
            problems.append(("target-missed", f"high period #{kind[1]} target {float(targets[kind[1]])!r}: x - target = {resid:.3e}"))
    return problems, A, b, kinds, y, x


def _post_arip(c, self, pre, raised):
    snap, src, tgt = pre["snap"], pre["src"], pre["tgt"]
    form, agg = pre["form"], pre["agg"]
    aggname = agg if isinstance(agg, str) else "custom"
    nv = snap["nv"]
    lows, sizes, highs, targets = _arip_layout(pre)
    op = f"{L[src]}->{L[tgt]}:{form}:{aggname}"
    # applicability per variant
    ys = [np.array([mo.get(snap["data"], p, j) for p in lows], dtype=float) for j in range(nv)]
    try:
        systems = [ao.constraint_system(sizes, agg, y, targets) for y in ys]
    except ao.NotApplicable as exc:
        c.inconc(f"arip:outside-quantifier({exc})")
        return
    for (A, b, kinds), y in zip(systems, ys):
        if A.shape[0] == 0 or not np.any(np.isfinite(y)):
            c.inconc("arip:variant-without-observation-not-decided")
            return
        if ao.rank_of(A) < A.shape[0]:
            c.inconc("arip:constraints-rank-deficient-not-decided")
            return
        if form in ("rate", "multiplicative") and np.any(y[np.isfinite(y)] <= 0):
            c.inconc("arip:outside-quantifier(rate form needs positive data)")
            return
    has_t = bool(np.any(np.isfinite(targets)))
    full_cover = any(np.all(np.isfinite(targets[o:o + k])) for o, k in zip(np.concatenate([[0], np.cumsum(sizes)[:-1]]).astype(int), sizes))
    miss_low = any(bool(np.any(~np.isfinite(y))) for y in ys)
    key = ("arip", src, tgt, form, aggname, has_t, full_cover, miss_low, nv, cal.label_from_ordinal(src, lows[0])[1] if src != 1 else 1,
           min(len(lows), 4), cal.has_leap_day(src, lows[0], lows[-1]) if tgt == cal.DAILY else None)
    c.event("arip", op, key=key, nontrivial=len(lows) >= 2)
    if raised is not None:
        c.violation(f"arip:raised:{type(raised).__name__}",
                    f"disaggregate arip {L[src]}->{L[tgt]} model=({form},{aggname}) raised {type(raised).__name__}: {raised}", case=pre["case"])
        return
    got = read_series(self)
    head = f"arip {L[src]}->{L[tgt]} model=({form},{aggname}) n_low={len(lows)} targets={int(np.sum(np.isfinite(targets)))}: "
    if got["freq"] is not None and got["freq"] != tgt:
        c.violation("arip:wrong-frequency", head + f"result has frequency {got['freq']}", case=pre["case"])
        return
    if got["nv"] != nv:
        c.violation("arip:wrong-variants", head + f"result has {got['nv']} variants, input {nv}", case=pre["case"])
        return
    problems = []
    hs = set(highs)
    outside = [h for h, row in got["data"].items() if h not in hs and any(not math.isnan(v) for v in row)]
    if outside:
        problems.append(("values-outside-span", f"{len(outside)} values outside the high-frequency span of the input, e.g. {cal.label_from_ordinal(tgt, outside[0])}"))
    per_variant = []
    for j in range(nv):
        pr, A, b, kinds, y, x = _arip_feasible(pre, got, j, lows, sizes, highs, targets)
        problems.extend((k, f"variant {j}: {t}") for k, t in pr)
        per_variant.append((A, b, y, x))
    if problems:
        if tgt == cal.DAILY and _arip_block_explains(pre, got):
            c.violation("arip:daily-target:wrong-days",
                        head + f"{problems[0][1]} [result is laid out on blocks of 365//f days: {len(got['rows'])} rows for {len(highs)} calendar days]",
                        case=pre["case"])
        else:
            k, t = problems[0]
            suffix = f":{aggname}" if k == "constraint-violated" else ""
            c.violation(f"arip:{k}{suffix}", head + t, case=pre["case"])
        return
    # optimality against the documented criterion
    T = len(highs)
    offs = np.concatenate([[0], np.cumsum(sizes)]).astype(int)
    covered = np.array([bool(np.all(np.isfinite(targets[offs[i]:offs[i + 1]]))) for i in range(len(lows))])
    for j, (A, b, y, x) in enumerate(per_variant):
        y_wo = np.where(covered, np.nan, y)
        cands = []
        for yy in (y, y_wo):
            par = ao.documented_parameters(form, src, tgt, yy)
            if par is not None and par not in cands:
                cands.append(par)
        if not cands or ao.documented_parameters(form, src, tgt, y_wo) is None:
            c.inconc("arip:optimality:rho-or-c-not-determined-by-the-documentation(<2 observations)")
            continue
        verdicts = []
        for rho, cc in cands:
            K, d = ao.criterion_matrices(T, form, rho, cc)
            try:
                xo, fo, cond = ao.constrained_minimum(K, d, A, b)
            except ao.NotApplicable as exc:
                verdicts.append(("na", str(exc)))
                continue
            if cond > 1e7:
                verdicts.append(("na", "ill-conditioned"))
                continue
            fr = ao.objective(x, K, d)
            scale = float(np.sum((K * K) @ (x * x)))
            tol = 1e-8 * fo + 1e-9 * math.sqrt(max(fo, 0.0) * scale) + 1e-12 * scale
            verdicts.append(("ok" if fr - fo <= tol else "bad", fr, fo, rho, cc, float(np.max(np.abs(x - xo)))))
        if any(v[0] == "ok" for v in verdicts):
            c.event("arip", "optimality", key=None)
            continue
        if all(v[0] == "na" for v in verdicts):
            c.inconc(f"arip:optimality:{verdicts[0][1]}")
            continue
        c.event("arip", "optimality", key=None)
        v = [v for v in verdicts if v[0] == "bad"][0]
        c.violation(f"arip:not-optimal:{aggname}",
                    head + f"variant {j}: objective of the returned series {v[1]:.10g} > optimum {v[2]:.10g} of the documented criterion "
                           f"(rho={v[3]:.8g}, c={v[4]:.6g}); max |x - x_opt| = {v[5]:.3g}", case=pre["case"])
        return


def _arip_block_explains(pre, got):
    """does 'every low period = 365//f days' explain the returned daily series (row count and constraints)?"""
    src = pre["src"]
    k = 365 // src
    lows, sizes, highs, targets = _arip_layout(pre, sizes_override=k)
    have = sorted(h for h, row in got["data"].items() if any(not math.isnan(v) for v in row))
    if have != highs:
        return False
    for j in range(pre["snap"]["nv"]):
        pr, *_ = _arip_feasible(pre, got, j, lows, sizes, highs, targets)
        if pr:
            return False
    return True


# ------------------------------------------------------------------------------
# Running cases
# ------------------------------------------------------------------------------


def _mk_period(ir, f, label):
    f = int(f)
    if f == 1:
        return ir.yy(int(label[0]))
    if f == 2:
        return ir.hh(int(label[0]), int(label[1]))
    if f == 4:
        return ir.qq(int(label[0]), int(label[1]))
    if f == 12:
        return ir.mm(int(label[0]), int(label[1]))
    if f == 365:
        return ir.dd(int(label[0]), int(label[1]), int(label[2]))
    raise ValueError(f)


def _mk_series(ir, f, label, rows):
    arr = np.array(rows, dtype=float)
    if arr.ndim == 1:
        arr = arr.reshape(-1, 1)
    return ir.Series(start=_mk_period(ir, f, label), values=arr)


def _freq(ir, f):
    return ir.Frequency(int(f))


def _resolve_method(name):
    return mo.CALLABLES[name] if isinstance(name, str) and name.startswith("call:") else name


def _run_agg_case(c, case):
    import irispie as ir
    with c.running(case):
        with rt.quiet():
            x = _mk_series(ir, case["freq"], case["start"], case["values"])
            kw = {}
            if case.get("method") is not None:
                kw["method"] = _resolve_method(case["method"])
            if case.get("discard_missing") is not None:
                kw["discard_missing"] = case["discard_missing"]
            if case.get("select") is not None:
                kw["select"] = list(case["select"])
            try:
                if case.get("form") == "function":
                    ir.aggregate(x, _freq(ir, case["target"]), **kw)
                else:
                    x.aggregate(_freq(ir, case["target"]), **kw)
            except Exception:
                pass    # judged by the monitor


def _disagg_kwargs(ir, case):
    kw = {} if case.get("method") is None else {"method": case["method"]}    # None: rely on the default ("flat")
    if case.get("method") == "arip":
        form, agg = case["model"]
        kw["model"] = (form, agg if isinstance(agg, str) else tuple(float(v) for v in agg))
        ts = case.get("target_series")
        if ts is not None:
            kw["target"] = _mk_series(ir, ts["freq"], ts["start"], ts["values"])
    return kw


def _run_disagg_case(c, case):
    import irispie as ir
    with c.running(case):
        with rt.quiet():
            x = _mk_series(ir, case["freq"], case["start"], case["values"])
            kw = _disagg_kwargs(ir, case)
            try:
                if case.get("form") == "function":
                    ir.disaggregate(x, _freq(ir, case["target"]), **kw)
                else:
                    x.disaggregate(_freq(ir, case["target"]), **kw)
            except Exception:
                pass


_ROUNDTRIPS = {
    "flat": ("mean", "first", "last", "min", "max"),
    "first": ("first",),
    "last": ("last",),
}
_ARIP_BACK = {"sum": "sum", "mean": "mean", "avg": "mean", "first": "first", "last": "last"}


def _verdict_counter(c):
    """changes whenever a monitor records a violation or declares a call undecided (optimality-only reasons excluded)"""
    return (sum(c.violation_counts.values()),
            sum(n for k, n in c.inconclusive.items() if not k.startswith(("arip:optimality:", "roundtrip:"))))


def _run_roundtrip_case(c, case):
    """disaggregate with case['method'] then aggregate back with every matching method; both through the real code"""
    import irispie as ir
    with c.running(case):
        with rt.quiet():
            x = _mk_series(ir, case["freq"], case["start"], case["values"])
            x0 = read_series(x)
            if x0["freq"] is None:
                return
            nv = x0["nv"]
            lo, hi = int(case["freq"]), int(case["target"])
            method = case.get("method") or "flat"
            before = _verdict_counter(c)
            try:
                d = ir.disaggregate(x, _freq(ir, hi), **_disagg_kwargs(ir, case))
            except Exception:
                c.inconc("roundtrip:first-step-raised(judged by the disaggregate monitor)")
                return
            if _verdict_counter(c) != before:
                c.inconc("roundtrip:first-step-already-flagged-or-undecided")
                return
            only = None
            rtol = 1e-12
            scale = 0.0
            if method == "arip":
                agg = case["model"][1]
                if not isinstance(agg, str):
                    return
                backs = (_ARIP_BACK[agg],)
                rtol = 1e-9
                scale = max((abs(v) for row in x0["data"].values() for v in row if not math.isnan(v)), default=0.0)
                # observed low periods not completely covered by targets
                ts = case.get("target_series")
                tdata = {}
                if ts is not None:
                    tdata = read_series(_mk_series(ir, ts["freq"], ts["start"], ts["values"]))["data"]
                only = set()
                for o, row in x0["data"].items():
                    mem = cal.members(lo, o, hi)
                    cov = all(not math.isnan(mo.get(tdata, h, 0)) for h in mem)
                    for j in range(nv):
                        if not math.isnan(row[j]) and not cov:
                            only.add((o, j))
            else:
                backs = _ROUNDTRIPS[method]
            for back in backs:
                before = _verdict_counter(c)
                try:
                    a = ir.aggregate(d, _freq(ir, lo), method=back)
                except Exception:
                    c.inconc("roundtrip:second-step-raised(judged by the aggregate monitor)")
                    continue
                if _verdict_counter(c) != before:
                    c.inconc("roundtrip:second-step-already-flagged-or-undecided")
                    continue
                got = read_series(a)
                c.event("roundtrip", f"{L[lo]}->{L[hi]}->{L[lo]}:{method}/{back}",
                        key=("rt", lo, hi, method, back, nv, x0["start"][1] if lo != cal.DAILY else 0), nontrivial=len(x0["data"]) >= 2)
                diffs = mo.maps_equal(x0["data"], got["data"], nv, rtol=0.0 if back != "mean" and method != "arip" else rtol, only=only, scale=scale)
                if diffs:
                    o, j, want, have = diffs[0]
                    c.violation(f"roundtrip:{method}/{back}",
                                f"aggregate(disaggregate(x, {L[hi]}, {method!r}), {L[lo]}, {back!r}) != x at {cal.label_from_ordinal(lo, o)} "
                                f"variant {j}: original {want!r}, round trip {have!r}", case=dict(case, back=back))


def replay(c, case):
    install()
    kind = case.get("kind")
    if kind == "agg":
        _run_agg_case(c, case)
    elif kind == "disagg":
        _run_disagg_case(c, case)
    elif kind == "roundtrip":
        _run_roundtrip_case(c, case)


# ------------------------------------------------------------------------------
# Workloads
# ------------------------------------------------------------------------------

_YEARS = (1900, 1999, 2000, 2001, 2003, 2004, 2019, 2020, 2023, 2024, 2096, 2100)


def _is_leap(y):
    return y % 4 == 0 and (y % 100 != 0 or y % 400 == 0)


def _draw_start(rng, f, i):
    y = int(_YEARS[int(rng.integers(0, len(_YEARS)))]) if rng.random() < 0.7 else int(rng.integers(1950, 2060))
    if f != cal.DAILY:
        seg = (i % f) + 1 if rng.random() < 0.6 else int(rng.integers(1, f + 1))
        return [y, seg]
    specials = [(1, 1), (1, 31), (2, 1), (2, 27), (2, 28), (3, 1), (3, 31), (4, 30), (6, 30), (7, 1), (9, 30), (10, 1), (12, 1), (12, 30), (12, 31)]
    if _is_leap(y):
        specials.append((2, 29))
    if rng.random() < 0.6:
        m, d = specials[int(rng.integers(0, len(specials)))]
    else:
        m = int(rng.integers(1, 13))
        d = int(rng.integers(1, 29))
    return [y, m, d]


def _draw_values(rng, n, nv, flavour):
    if flavour == "int":
        v = rng.integers(-9, 10, size=(n, nv)).astype(float)
    elif flavour == "near1":
        v = np.round(rng.uniform(0.8, 1.25, size=(n, nv)), 3)
    elif flavour == "pos":
        v = np.round(np.exp(rng.normal(0, 1, size=(n, nv))), 4)
    else:
        v = np.round(rng.normal(0, 10, size=(n, nv)), 4)
    return v


def _apply_nan_pattern(rng, v, pattern, block):
    n, nv = v.shape
    v = v.copy()
    if pattern == "none" or n == 1:
        return v
    if pattern == "interior" and n >= 3:
        for _ in range(int(rng.integers(1, 4))):
            v[int(rng.integers(1, n - 1)), int(rng.integers(0, nv))] = np.nan
    elif pattern == "leading":
        j = int(rng.integers(0, nv))
        v[:int(rng.integers(1, max(2, min(n, block + 1)))), j] = np.nan
    elif pattern == "trailing":
        j = int(rng.integers(0, nv))
        v[n - int(rng.integers(1, max(2, min(n, block + 1)))):, j] = np.nan
    elif pattern == "block":
        # a run at least as long as two groups: some whole group is missing
        L_ = min(n - 1, 2 * block)
        a = int(rng.integers(0, n - L_ + 1))
        cols = [int(rng.integers(0, nv))] if rng.random() < 0.5 else list(range(nv))
        for j in cols:
            v[a:a + L_, j] = np.nan
    elif pattern == "random":
        v[rng.random(v.shape) < rng.uniform(0.1, 0.5)] = np.nan
    if not np.any(np.isfinite(v)):
        v[int(rng.integers(0, n)), 0] = 1.0
    return v


_NAN_PATTERNS = ("none", "none", "interior", "leading", "trailing", "block", "random")
_AGG_METHODS = ("mean", "sum", "prod", "first", "last", "min", "max", "geometric_mean", None) + tuple(mo.CALLABLES)


def _gen_agg_case(c, rng, i):
    src, tgt = _AGG_PAIRS[i % len(_AGG_PAIRS)]
    method = _AGG_METHODS[(i // len(_AGG_PAIRS)) % len(_AGG_METHODS)]
    start = _draw_start(rng, src, i)
    if src == cal.DAILY:
        r = rng.random()
        n = int(rng.integers(1, 61)) if r < 0.45 else (int(rng.integers(61, 400)) if r < 0.85 else int(rng.integers(400, c.scale(800, 1500))))
        block = {1: 366, 2: 184, 4: 92, 12: 31}[tgt]
    else:
        n = int(rng.integers(1, 61))
        block = src // tgt
    nv = int(rng.choice([1, 1, 2, 3]))
    flavour = "near1" if method == "prod" else ("pos" if method == "geometric_mean" else str(rng.choice(["int", "float", "float"])))
    v = _apply_nan_pattern(rng, _draw_values(rng, n, nv, flavour), str(rng.choice(_NAN_PATTERNS)), block)
    select = None
    if rng.random() < 0.15:
        gmin = {(365, 12): 28, (365, 4): 90, (365, 2): 181, (365, 1): 365}.get((src, tgt), src // tgt)
        k = int(rng.integers(1, min(3, gmin) + 1))
        select = sorted(int(s) for s in rng.choice(np.arange(-gmin, gmin), size=k, replace=False))
    discard = None if rng.random() < 0.3 else bool(rng.random() < 0.45)
    return {"kind": "agg", "form": "function" if i % 2 else "method", "freq": src, "start": start, "values": v.tolist(), "target": tgt,
            "method": method, "discard_missing": discard, "select": select}


def _gen_disagg_case(c, rng, i, roundtrip=False):
    src, tgt = _DIS_PAIRS[i % len(_DIS_PAIRS)]
    method = ("flat", "first", "middle", "last")[(i // len(_DIS_PAIRS)) % 4]
    if roundtrip:
        method = ("flat", "first", "last")[(i // len(_DIS_PAIRS)) % 3]
    start = _draw_start(rng, src, i)
    nmax = 60
    if tgt == cal.DAILY:
        nmax = {1: 4, 2: 8, 4: 12, 12: 30}[src] if rng.random() < 0.8 else {1: 8, 2: 16, 4: 30, 12: 60}[src]
    n = int(rng.integers(1, nmax + 1))
    nv = int(rng.choice([1, 1, 2, 3]))
    v = _apply_nan_pattern(rng, _draw_values(rng, n, nv, str(rng.choice(["int", "float"]))), str(rng.choice(_NAN_PATTERNS)), 1)
    if method == "flat" and rng.random() < 0.3:
        method = None       # default method
    return {"kind": "roundtrip" if roundtrip else "disagg", "form": "function" if i % 2 else "method", "freq": src, "start": start,
            "values": v.tolist(), "target": tgt, "method": method}


_ARIP_PAIRS = [(1, 2), (1, 4), (1, 12), (2, 4), (2, 12), (4, 12)]


def _gen_arip_case(c, rng, i, roundtrip=False):
    src, tgt = _ARIP_PAIRS[i % len(_ARIP_PAIRS)]
    k = tgt // src
    form = ("rate", "diff", "rate", "diff", "multiplicative", "additive")[(i // 6) % 6]
    aggs = ["sum", "mean", "first", "last", "custom", "sum", "mean", "avg"]
    agg = aggs[(i // 36) % len(aggs)]
    if agg == "custom":
        agg = [round(float(w), 3) for w in rng.uniform(0.1, 1.0, size=k)]
    tmax = c.scale(240, 480) if rng.random() < 0.9 else c.scale(360, 720)
    n = int(rng.integers(1, 61))
    n = max(1, min(n, tmax // k))
    nv = int(rng.choice([1, 1, 1, 2, 3]))
    start = _draw_start(rng, src, i)
    g = rng.uniform(0.93, 1.12) ** (1.0 / src)
    level = float(rng.choice([1.0, 50.0, 1000.0]))
    t = np.arange(n)[:, None]
    if form in ("rate", "multiplicative") or rng.random() < 0.6:
        y = level * g ** t * (1 + 0.04 * rng.standard_normal((n, nv)))
    else:
        y = level * (0.3 * rng.standard_normal((n, nv)) + 0.05 * t - 1.0)
    y = np.round(y, 6)
    pattern = str(rng.choice(["none", "none", "interior", "leading", "trailing", "random"]))
    if nv == 1 and pattern in ("leading", "trailing"):
        pattern = "interior"
    y = _apply_nan_pattern(rng, y, pattern, 2)
    for j in range(nv):      # every variant keeps an observation
        if not np.any(np.isfinite(y[:, j])):
            y[int(rng.integers(0, n)), j] = level
    case = {"kind": "roundtrip" if roundtrip else "disagg", "form": "function" if i % 2 else "method", "freq": src, "start": start,
            "values": y.tolist(), "target": tgt, "method": "arip", "model": [form, agg], "target_series": None}
    if rng.random() < 0.5:
        T = n * k
        tv = np.full(T, np.nan)
        z = ao.z_vector(agg if isinstance(agg, str) else tuple(agg), k)
        base = np.nanmean(y, axis=1)
        base = np.where(np.isfinite(base), base, np.nanmean(base))
        per_high = base / float(np.sum(z))
        mode = rng.random()
        if mode < 0.6:       # scattered targets
            for h in rng.choice(T, size=int(rng.integers(1, min(4, T) + 1)), replace=False):
                tv[int(h)] = per_high[int(h) // k] * (1 + 0.02 * rng.standard_normal())
        elif mode < 0.85:    # one whole low period
            p = int(rng.integers(0, n))
            tv[p * k:(p + 1) * k] = per_high[p] * (1 + 0.02 * rng.standard_normal(k))
        else:                # a run of targets at one end (e.g. known recent high-frequency data)
            L_ = int(rng.integers(1, min(T, 2 * k) + 1))
            if rng.random() < 0.5:
                tv[:L_] = per_high[0] * (1 + 0.02 * rng.standard_normal(L_))
            else:
                tv[T - L_:] = per_high[-1] * (1 + 0.02 * rng.standard_normal(L_))
        if isinstance(agg, str) and agg in ("first", "last") and rng.random() < 0.9:
            # keep the constraint set full rank: no target on the aggregated member of an observed, not fully covered period
            pos = 0 if agg == "first" else k - 1
            for p in range(n):
                seg = tv[p * k:(p + 1) * k]
                if not np.all(np.isfinite(seg)):
                    seg[pos] = np.nan
        if np.any(np.isfinite(tv)):
            # the target series starts at the first high period of the first low period; leading NaN rows are trimmed by Series
            lo0 = cal.ordinal_from_label(src, start)
            h0 = cal.members(src, lo0, tgt)[0]
            case["target_series"] = {"freq": tgt, "start": list(cal.label_from_ordinal(tgt, h0)), "values": np.round(tv, 6).reshape(-1, 1).tolist()}
    return case


def _directed_cases():
    nan = math.nan
    D = []
    # --- known finding: select given as the documented list[int]
    D.append({"kind": "agg", "form": "function", "freq": 12, "start": [2023, 1], "values": [[float(i)] for i in range(1, 13)], "target": 4,
              "method": "sum", "discard_missing": False, "select": [0, 2]})
    D.append({"kind": "agg", "form": "method", "freq": 12, "start": [2023, 1], "values": [[float(i)] for i in range(1, 13)], "target": 4,
              "method": "mean", "discard_missing": False, "select": [1]})
    D.append({"kind": "agg", "form": "method", "freq": 4, "start": [2023, 1], "values": [[float(i)] for i in range(1, 9)], "target": 1,
              "method": "first", "discard_missing": False, "select": [1]})
    # select forms that do run on the pinned tree
    D.append({"kind": "agg", "form": "method", "freq": 12, "start": [2023, 1], "values": [[float(i)] for i in range(1, 13)], "target": 4,
              "method": "prod", "discard_missing": False, "select": [1]})
    D.append({"kind": "agg", "form": "method", "freq": 12, "start": [2023, 2], "values": [[float(i)] for i in range(1, 13)], "target": 4,
              "method": "last", "discard_missing": True, "select": [-2]})
    # --- known finding: DAILY target laid out on blocks of 365 // f days
    D.append({"kind": "disagg", "form": "function", "freq": 12, "start": [2023, 1], "values": [[1.0], [2.0], [3.0]], "target": 365, "method": "flat"})
    D.append({"kind": "disagg", "form": "method", "freq": 12, "start": [2024, 2], "values": [[1.0, 5.0], [2.0, nan]], "target": 365, "method": "last"})
    D.append({"kind": "disagg", "form": "method", "freq": 1, "start": [2023, 1], "values": [[1.0], [2.0]], "target": 365, "method": "first"})
    D.append({"kind": "disagg", "form": "method", "freq": 4, "start": [2023, 3], "values": [[1.0], [2.0], [3.0]], "target": 365, "method": "middle"})
    D.append({"kind": "disagg", "form": "method", "freq": 2, "start": [2024, 1], "values": [[1.0], [2.0]], "target": 365, "method": "flat"})
    # daily targets that the block layout happens to get right (single non-leap year)
    D.append({"kind": "disagg", "form": "method", "freq": 1, "start": [2023, 1], "values": [[7.0]], "target": 365, "method": "flat"})
    D.append({"kind": "roundtrip", "form": "function", "freq": 1, "start": [2021, 1], "values": [[7.0], [8.0], [9.5]], "target": 365, "method": "flat"})
    D.append({"kind": "roundtrip", "form": "function", "freq": 1, "start": [2022, 1], "values": [[7.0], [8.0]], "target": 365, "method": "last"})
    D.append({"kind": "disagg", "form": "method", "freq": 12, "start": [2023, 1], "values": [[10.0], [11.0], [12.5]], "target": 365,
              "method": "arip", "model": ["diff", "sum"], "target_series": None})
    D.append({"kind": "disagg", "form": "method", "freq": 12, "start": [2023, 4], "values": [[10.0], [11.0]], "target": 365,
              "method": "arip", "model": ["rate", "mean"], "target_series": None})
    D.append({"kind": "disagg", "form": "method", "freq": 1, "start": [2022, 1], "values": [[100.0], [108.0]], "target": 365,
              "method": "arip", "model": ["rate", "sum"], "target_series": None})
    # --- known finding: arip multiplier columns are not the aggregation vector
    y5 = [[10.0], [11.0], [12.5], [13.0], [15.0]]
    for form in ("rate", "diff"):
        for agg in ("first", "last", [0.2, 0.3, 0.5]):
            D.append({"kind": "disagg", "form": "function", "freq": 4, "start": [2020, 3], "values": y5, "target": 12,
                      "method": "arip", "model": [form, agg], "target_series": None})
        for agg in ("sum", "mean"):
            D.append({"kind": "roundtrip", "form": "function", "freq": 4, "start": [2020, 3], "values": y5, "target": 12,
                      "method": "arip", "model": [form, agg], "target_series": None})
    D.append({"kind": "disagg", "form": "method", "freq": 1, "start": [2020, 1], "values": [[100.0], [110.0], [125.0]], "target": 4,
              "method": "arip", "model": ["rate", "sum"],
              "target_series": {"freq": 4, "start": [2020, 2], "values": [[24.0], [nan], [nan], [nan], [nan], [nan], [30.0]]}})
    # --- month lengths and leap days seen through a counting callable and sums of ones
    for y in (1900, 2000, 2023, 2024, 2100):
        n = 366 if _is_leap(y) else 365
        for tgt in (12, 4, 2, 1):
            D.append({"kind": "agg", "form": "method", "freq": 365, "start": [y, 1, 1], "values": [[1.0]] * n, "target": tgt,
                      "method": "sum", "discard_missing": False, "select": None})
            D.append({"kind": "agg", "form": "function", "freq": 365, "start": [y, 1, 1], "values": [[float(i)] for i in range(n)], "target": tgt,
                      "method": "call:size", "discard_missing": True, "select": None})
        D.append({"kind": "agg", "form": "method", "freq": 365, "start": [y, 2, 1], "values": [[float(i)] for i in range(28)], "target": 12,
                  "method": "last", "discard_missing": False, "select": None})
        D.append({"kind": "agg", "form": "method", "freq": 365, "start": [y, 2, 2], "values": [[float(i)] for i in range(28)], "target": 12,
                  "method": "first", "discard_missing": False, "select": None})
    return D


def _dispatch(c, case):
    kind = case["kind"]
    try:
        if kind == "agg":
            _run_agg_case(c, case)
        elif kind == "disagg":
            _run_disagg_case(c, case)
        else:
            _run_roundtrip_case(c, case)
    except Exception as exc:
        c.inconc(f"{kind}:harness:{type(exc).__name__}")


def _run_repo_tests(c):
    """the repository's own aggregation tests with the monitors installed (thorough tier, one shard)"""
    import os
    path = os.path.join(rt.REPO, "tests", "series", "aggregate_test.py")
    if not os.path.exists(path):
        c.note("repo-tests:not-available")
        return
    try:
        import pytest
    except Exception:
        c.note("repo-tests:pytest-not-importable")
        return
    before = sum(c.events.values())
    try:
        with rt.quiet():
            rc = pytest.main(["-q", "-x", "-p", "no:cacheprovider", "-W", "ignore", path])
        c.note(f"repo-tests:pytest-exit-{int(rc)}")
    except BaseException as exc:
        c.note(f"repo-tests:harness:{type(exc).__name__}")
    c.extra["repo_test_monitor_events"] = sum(c.events.values()) - before


def shard(c):
    install()
    rng = c.rng
    if c.tier == "thorough" and c.shard == 0:
        _run_repo_tests(c)
    # ---- 1. directed cases, dealt round-robin over the shards (every one runs on every seed)
    for i, case in enumerate(_directed_cases()):
        if i % c.nshards == c.shard:
            _dispatch(c, case)
            if i in (0, 5, 17):
                c.sample(case)

    # interleave the generators so that every class is present whatever the time budget
    n_rounds = c.scale(4000, 60000)
    off = int(rng.integers(0, 10000)) + c.shard * 977
    for r in range(n_rounds):
        if c.out_of_time():
            break
        i = off + r
        case = _gen_agg_case(c, rng, i)
        _dispatch(c, case)
        if r == 3:
            c.sample(case)
        if r % 2 == 0:
            case = _gen_disagg_case(c, rng, i // 2)
            _dispatch(c, case)
            if r == 4:
                c.sample(case)
        if r % 4 == 1:
            _dispatch(c, _gen_disagg_case(c, rng, i // 4, roundtrip=True))
        if r % 3 == 2:
            case = _gen_arip_case(c, rng, i // 3, roundtrip=(r % 6 == 5))
            _dispatch(c, case)
            if r == 8:
                c.sample(case)
