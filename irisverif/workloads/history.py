"""Model-object histories.

`perturb(model, seed, ...)` applies a short random sequence of QUERY operations of the public API to a solved Simultaneous
model -- operations that, by their contract, compute something from the model and leave it unchanged (autocovariances,
first-order simulations in either mode and with anticipated shocks at several horizons, Kalman filter runs, likelihood,
systemize, solution accessors, copies that are then mutated, variant iteration).  The monitored operation of a check is run
AFTER the history on the same object; every oracle is independent of the object's past, so a stale cache, a missing copy
or any other in-place damage done by a query shows up as an ordinary violation of the property.

Added after the second seeded round: most changes that escaped the first version of the checks needed a particular sequence
of calls on one object (get_acov() before kalman_filter(); simulate() before kalman_filter() with anticipated shocks; a short
anticipated horizon before a long one).
"""
import numpy as np
from .. import runtime as rt

OPS = ("acov", "acorr", "sim_dev", "sim_lev", "sim_ant_short", "kf_lev", "kf_dev", "nll", "systemize", "solution", "copy_mutate", "variants", "steady_db")


def _names(model, spec):
    if spec is not None:
        return ([q["name"] for q in spec["tvars"]], [q["name"] for q in spec["mvars"]],
                [q["name"] for q in spec["tshocks"]], [q["name"] for q in spec["mshocks"]], [q["name"] for q in spec["params"]])
    import irispie as ir
    g = lambda *kinds: list(model.get_names(kind=kinds[0])) if len(kinds) == 1 else []
    K = ir.quantities.QuantityKind if hasattr(ir, "quantities") else None
    try:
        return (list(model.get_names(kind=K.TRANSITION_VARIABLE)), list(model.get_names(kind=K.MEASUREMENT_VARIABLE)),
                list(model.get_names(kind=K.UNANTICIPATED_SHOCK)), list(model.get_names(kind=K.MEASUREMENT_SHOCK)), list(model.get_names(kind=K.PARAMETER)))
    except Exception:
        return [], [], [], [], []


def perturb(model, seed, spec=None, max_ops=3, ops=None, freq="qq", record=None):
    """apply 1..max_ops random query operations; returns the list of operation names that completed.
    Exceptions inside an operation are swallowed (the history is a perturbation, not a monitored call)."""
    import irispie as ir
    rng = np.random.default_rng(seed)
    tn, yn, un, wn, pn = _names(model, spec)
    start = {"qq": ir.qq(2015, 3), "mm": ir.mm(2012, 7), "yy": ir.yy(1980)}.get(freq, ir.qq(2015, 3))
    done = []
    pool = list(ops or OPS)
    k = int(rng.integers(1, max_ops + 1))
    for name in rng.choice(pool, size=k, replace=True):
        name = str(name)
        try:
            with rt.quiet(), np.errstate(all="ignore"):
                if name == "acov":
                    model.get_acov(up_to_order=int(rng.integers(0, 4)))
                elif name == "acorr":
                    model.get_acorr(up_to_order=int(rng.integers(0, 3)))
                elif name in ("sim_dev", "sim_lev", "sim_ant_short"):
                    T = int(rng.integers(3, 12))
                    span = ir.Span(start, start + (T - 1))
                    dev = name == "sim_dev" or (name == "sim_ant_short" and rng.random() < 0.5)
                    db = ir.Databox.zero(model, span) if dev else ir.Databox.steady(model, span)
                    for u in un:
                        if rng.random() < 0.6:
                            db[u][start + int(rng.integers(0, T))] = float(rng.normal(0, 0.3))
                        if rng.random() < (0.9 if name == "sim_ant_short" else 0.4):
                            h = int(rng.integers(1, min(T, 3 if name == "sim_ant_short" else T)))
                            db["ant_" + u][start + h] = float(rng.normal(0, 0.3))
                    model.simulate(db, span, method="first_order", deviation=dev)
                elif name in ("kf_lev", "kf_dev", "nll"):
                    if not yn:
                        continue
                    T = int(rng.integers(3, 10))
                    span = ir.Span(start, start + (T - 1))
                    dev = name == "kf_dev"
                    sdb = ir.Databox.steady(model, span)
                    logly = model.get_log_status()
                    db = ir.Databox()
                    for y in yn:
                        base = np.asarray(sdb[y].get_data(span), dtype=float)[:, 0]
                        noise = rng.normal(0, 0.2, size=T)
                        if dev:
                            v = np.exp(0.1 * noise) if logly.get(y) else noise
                        else:
                            v = base * np.exp(0.1 * noise) if logly.get(y) else base + noise
                        v[rng.random(T) < 0.2] = np.nan
                        db[y] = ir.Series(start=start, values=v)
                    kw = {"deviation": dev}
                    if un and rng.random() < 0.4:
                        kw["shocks_from_data"] = True
                        a = np.zeros(T)
                        a[int(rng.integers(1, T))] = float(rng.normal(0, 0.3))
                        db["ant_" + str(rng.choice(un))] = ir.Series(start=start, values=a)
                    if name == "nll":
                        model.neg_log_likelihood(db, span, **kw)
                    else:
                        model.kalman_filter(db, span, **kw)
                elif name == "systemize":
                    model.systemize()
                elif name == "solution":
                    s = model.get_solution()
                    _ = (s.T, s.P, s.K, s.Z, s.H, s.D, s.Ta, s.Pa, s.Ka, s.Za, s.Ua, s.eigenvalues)
                    model.get_steady_levels(); model.get_steady_changes(); model.get_parameters(); model.get_stds()
                elif name == "copy_mutate":
                    m2 = model.copy()
                    tun = [p for p in pn if not p.startswith("kcal")]
                    if tun:
                        p = str(rng.choice(tun))
                        v = m2.get_parameters()[p]
                        v = v[0] if isinstance(v, (list, tuple)) else v
                        m2.assign(**{p: float(v) * 0.9 + 0.01})
                    for u in un[:1]:
                        m2.assign(**{"std_" + u: 3.3})
                    try:
                        m2.solve()
                    except Exception:
                        pass
                elif name == "variants":
                    lst = list(model)
                    _ = [x.get_solution().T for x in lst]
                    _ = model[0]
                elif name == "steady_db":
                    span = ir.Span(start, start + 5)
                    ir.Databox.steady(model, span); ir.Databox.zero(model, span)
                else:
                    continue
            done.append(name)
        except Exception as exc:
            done.append(f"{name}!{type(exc).__name__}")
    if record is not None:
        record.extend(done)
    return done
