"""
c17_gen -- seeded generator of Sequential-model simulation cases (spec trees + rendered source + data + plan)

A case is plain JSON:
  spec     {"equations": [{"lhs", "transform", "identity", "rhs": tree}], "parameters": {name: [value per variant]}, "nv"}
  source   model text rendered from the spec (what irispie gets; the oracle never reads it)
  start    {"freq": "Q", "year": 2020, "seg": 1}     T   number of simulated periods
  data     {name: {"k0": offset of the first observation relative to the first simulated period, "values": [[..cols..], ...]}}
  plan     [{"dates": "all"|[k..], "names": "all"|"x"|["x",..], "transform": None|"log"|..., "when_data": bool}]
  opts     {"prepend_input", "shocks_from_data", "span_form"}
  orders   the execution orders the oracle's dependency analysis accepts for this model
"""

from __future__ import annotations

import numpy as np

from ..oracles import c17_expr as E
from ..oracles import c17_seq as S

LHS_POOL = ["y", "c", "inv", "gdp", "cpi", "w", "k", "n", "u", "xr", "m2", "pz", "yg", "Y_gap", "cpi_core", "q1", "hh", "Tb", "rr", "wage"]
EXO_POOL = ["z", "oil", "ystar", "fx", "tax", "gx", "wcpi", "Zw"]
PAR_POOL = ["a", "b", "rho", "alpha", "beta1", "c0", "kappa", "th"]
POSITIVE = ("log", "diff_log", "roc", "pct")

_RES_SIGMA = {"none": 0.1, "log": 0.05, "diff": 0.05, "diff_log": 0.01, "roc": 0.01, "pct": 0.5}
_TERM_SCALE = {"none": 0.3, "log": 0.1, "diff": 0.1, "diff_log": 0.02, "roc": 0.02, "pct": 1.0}
_CONST = {"none": 1.0, "log": 0.2, "diff": 0.1, "diff_log": 0.02, "roc": 0.02, "pct": 1.0}


def _pick(rng, pool, n):
    idx = rng.choice(len(pool), size=n, replace=False)
    return [pool[int(i)] for i in idx]


def _start(rng):
    f = ["Y", "H", "Q", "M", "I", "D"][int(rng.integers(0, 6))]
    year = int(rng.integers(1990, 2031))
    seg = {"Y": 1, "H": int(rng.integers(1, 3)), "Q": int(rng.integers(1, 5)), "M": int(rng.integers(1, 13)),
           "I": int(rng.integers(-5, 50)), "D": int(rng.integers(1, 360))}[f]
    return {"freq": f, "year": year, "seg": seg}


class _Builder:
    def __init__(self, rng, knobs):
        self.rng = rng
        self.k = knobs

    def u(self, a, b):
        return float(self.rng.uniform(a, b))

    def num(self, scale, lo=0.2):
        s = -1.0 if self.rng.random() < 0.4 else 1.0
        v = E.q(s * scale * self.u(lo, 1.0))
        if v == 0.0:
            v = E.q(scale) or 0.000001
        return ["num", v]

    def coef(self, scale):
        if self.parn and self.rng.random() < 0.35:
            p = self.parn[int(self.rng.integers(0, len(self.parn)))]
            if self.rng.random() < 0.5:
                return ["*", self.num(scale), ["par", p]]
            return ["*", ["par", p], self.num(scale)]
        return self.num(scale)

    # -- references available to equation i
    def candidates(self, i):
        rng = self.rng
        out = []   # (name, shift, positive?)
        for j in range(i):
            out.append((self.lhs[j], 0, self.pos[self.lhs[j]]))
            out.append((self.lhs[j], 0, self.pos[self.lhs[j]]))
        lag_targets = range(self.n) if self.mode == "de_only" else range(i + 1)
        for j in lag_targets:
            for _ in range(2 if j == i else 1):
                out.append((self.lhs[j], -int(rng.integers(1, 5)), self.pos[self.lhs[j]]))
        for z in self.exo:
            hi = 3 if self.lead_exo else 1
            out.append((z, int(rng.integers(-3, hi)), self.exo_pos[z]))
            out.append((z, 0, self.exo_pos[z]))
        return out

    def ref(self, cands, positive=False):
        cc = [c for c in cands if c[2]] if positive else cands
        if not cc:
            return None
        n, s, _ = cc[int(self.rng.integers(0, len(cc)))]
        return ["var", n, s]

    def term(self, cands, scale):
        rng = self.rng
        kinds = ["lin", "lin", "lin", "log", "pf", "pf", "prod", "ratio", "sq", "expabs", "max", "min", "sqrt", "logistic", "paren", "abs"]
        kind = kinds[int(rng.integers(0, len(kinds)))]
        a = self.ref(cands)
        if a is None:
            return self.num(scale)
        p = self.ref(cands, positive=True)
        b = self.ref(cands)
        if kind == "log" and p is not None:
            body = ["call", "log", p]
        elif kind == "pf":
            if p is not None and rng.random() < 0.7:
                fname = ["diff_log", "roc", "pct", "diff"][int(rng.integers(0, 4))]
                tgt = p
            else:
                fname = "diff"
                tgt = a
            by = -2 if rng.random() < 0.15 else -1
            shift = tgt[2]
            if shift + by < -4:
                shift = -4 - by
            body = ["pf", fname, tgt[1], shift, by]
            if fname == "pct":
                body = ["*", ["num", 0.1], body]
        elif kind == "prod":
            body = ["*", a, b]
        elif kind == "ratio" and p is not None:
            body = ["/", a, p]
        elif kind == "sq":
            body = ["*", ["num", 0.25], ["^", a, ["num", 2.0 if rng.random() < 0.8 else 3.0]]]
        elif kind == "expabs":
            body = ["call", "exp", ["neg", ["call", "abs", a]]]
        elif kind == "max":
            body = ["call", "maximum", a, self.num(1.0)]
        elif kind == "min":
            body = ["call", "minimum", self.num(1.0), a]
        elif kind == "sqrt" and p is not None:
            body = ["call", "sqrt", p]
        elif kind == "logistic":
            body = ["call", "logistic", a]
        elif kind == "paren":
            body = ["*", ["+", self.num(1.0), a], ["-", self.num(1.0), b]]
        elif kind == "abs":
            body = ["call", "abs", a]
        else:
            body = a
        return ["*", self.coef(scale), body] if rng.random() < 0.8 else ["*", body, self.coef(scale)]

    def rhs(self, i):
        rng = self.rng
        x, tr = self.lhs[i], self.tr[i]
        cands = self.candidates(i)
        terms = []
        c0 = self.num(_CONST[tr], lo=0.0)
        if tr == "roc":
            c0 = ["num", E.q(1.0 + c0[1])]
        terms.append(c0)
        if rng.random() < 0.85:
            s = -1 if rng.random() < 0.8 else -2
            rho = ["num", E.q(self.u(-0.4, 0.9))]
            if self.parn and rng.random() < 0.5:
                rho = ["par", self.parn[0]]
            if tr == "none":
                pers = ["*", rho, ["var", x, s]]
            elif tr == "log":
                pers = ["*", rho, ["call", "log", ["var", x, s]]]
            elif tr == "roc":
                pers = ["*", rho, ["-", ["pf", "roc", x, s, -1], ["num", 1.0]]]
            else:
                pers = ["*", rho, ["pf", tr, x, s, -1]]
            terms.append(pers)
        for _ in range(int(rng.integers(0, 4))):
            terms.append(self.term(cands, _TERM_SCALE[tr]))
        # structure that makes exactly one execution order valid
        if self.mode == "de_only" and i in self.forced and i < self.n - 1:
            j = int(rng.integers(i + 1, self.n))
            terms.append(["*", self.num(_TERM_SCALE[tr] * 0.5), ["var", self.lhs[j], -int(rng.integers(1, 4))]])
        if self.mode == "ed_only" and i in self.forced and i > 0:
            j = int(rng.integers(0, i))
            terms.append(["*", self.num(_TERM_SCALE[tr] * 0.5), ["var", self.lhs[j], int(rng.integers(1, 3))]])
        order = rng.permutation(len(terms))
        signed = []
        for t in order:
            node = terms[int(t)]
            signed.append((-1 if rng.random() < 0.25 and node is not c0 else 1, node))
        return E.sum_node(signed)


def generate(rng, knobs=None):
    knobs = dict({"max_eq": 8, "max_T": 12}, **(knobs or {}))
    b = _Builder(rng, knobs)
    n = b.n = int(rng.integers(1, knobs["max_eq"] + 1))
    b.mode = "both" if n == 1 else ["both", "de_only", "ed_only"][int(rng.choice(3, p=[0.5, 0.3, 0.2]))]
    nv = 2 if rng.random() < 0.3 else 1
    b.lhs = _pick(rng, LHS_POOL, n)
    b.exo = _pick(rng, EXO_POOL, int(rng.integers(0, 4)))
    b.parn = _pick(rng, PAR_POOL, int(rng.integers(0, 4)))
    b.tr = [E.TRANSFORMS[int(rng.integers(0, 6))] for _ in range(n)]
    ident = [bool(rng.random() < 0.2) for _ in range(n)]
    b.pos = {x: (t in POSITIVE) for x, t in zip(b.lhs, b.tr)}
    b.exo_pos = {z: bool(rng.random() < 0.5) for z in b.exo}
    b.lead_exo = bool(rng.random() < 0.15)
    b.forced = set(int(i) for i in rng.choice(n, size=max(1, n // 3), replace=False)) if n > 1 else set()
    if b.mode == "de_only":
        b.forced.add(int(rng.integers(0, n - 1)))
    if b.mode == "ed_only":
        b.forced.add(int(rng.integers(1, n)))
    eqs = []
    for i in range(n):
        eqs.append({"lhs": b.lhs[i], "transform": b.tr[i], "identity": ident[i], "rhs": b.rhs(i)})
    used_pars = set()
    used_names = set()
    for e in eqs:
        used_pars |= E.pars(e["rhs"])
        used_names |= {nm for nm, _ in E.refs(e["rhs"])}
    parn = [p for p in b.parn if p in used_pars]
    exo = [z for z in b.exo if z in used_names]
    parameters = {p: [E.q(rng.uniform(-0.6, 0.8)) for _ in range(nv)] for p in parn}
    if nv == 2 and parn and rng.random() < 0.3:   # a parameter shared by both variants
        parameters[parn[0]][1] = parameters[parn[0]][0]
    spec = {"equations": eqs, "parameters": parameters, "nv": nv}
    sty = E.Style(rng)
    lines = []
    if parn:
        lines.append("!parameters")
        lines.append("    " + ", ".join(parn))
    lines.append("!equations")
    for e in eqs:
        lines.append("    " + E.render_equation(e, sty))
    source = "\n".join(lines) + "\n"

    st = S.structure(spec)
    orders = [o for o, (ok, _) in S.valid_orders(spec).items() if ok]
    T = int(rng.integers(1, knobs["max_T"] + 1))
    if rng.random() < 0.08:
        T = 1
    H = st["max_lag"] + int(rng.integers(0, 3))
    H = max(H, 1)
    lead = st["max_lead"]
    nonident = [e["lhs"] for e in eqs if not e["identity"]]
    tr_of = {e["lhs"]: e["transform"] for e in eqs}

    # ---- plan
    plan = []
    need = {}      # (series name) -> {k: "finite" | "maybe"}
    kind_of_series = {}
    zero_res_cells = []
    if nonident and rng.random() < 0.75:
        kinds = list(E.TRANSFORMS)
        if rng.random() < 0.1:
            kind = kinds[int(rng.integers(0, 6))]
            dates = "all" if rng.random() < 0.6 else sorted(int(k) for k in rng.choice(T, size=int(rng.integers(1, T + 1)), replace=False))
            wd = bool(rng.random() < 0.7)
            plan.append({"dates": dates, "names": "all", "transform": None if kind == "none" else kind, "when_data": wd})
        else:
            m = int(rng.integers(1, min(3, len(nonident)) + 1))
            for x in _pick(rng, nonident, m):
                ks = list(range(T))
                if rng.random() < 0.3:
                    groups = [ks]
                else:
                    a = int(rng.integers(0, T))
                    c = int(rng.integers(a, T)) + 1
                    g1 = ks[a:c]
                    rest = [k for k in ks if k not in g1]
                    groups = [g1]
                    if rest and rng.random() < 0.4:
                        g2 = sorted(int(k) for k in rng.choice(rest, size=int(rng.integers(1, len(rest) + 1)), replace=False))
                        groups.append(g2)
                for g in groups:
                    kind = kinds[int(rng.integers(0, 6))]
                    wd = bool(rng.random() < 0.35)
                    dates = "all" if (len(g) == T and rng.random() < 0.5) else g
                    names = x if rng.random() < 0.5 else [x]
                    tname = None if kind == "none" else kind
                    if kind == "none" and rng.random() < 0.2:
                        tname = "level"
                    if kind == "diff_log" and rng.random() < 0.2:
                        tname = "difflog"
                    call = {"dates": dates, "names": names, "transform": tname}
                    if wd or rng.random() < 0.3:
                        call["when_data"] = wd
                    if kind in E.LAGGED_TRANSFORMS and rng.random() < 0.3:
                        # a non-default reference lag of the plan transform (year-on-year rates on quarterly data, ...); only
                        # where the reference period lies inside the pre-sample the simulation keeps
                        sh = -int(rng.choice([2, 3, 4]))
                        if all(k_ + sh >= -max(st["max_lag"], 1) for k_ in g):
                            call["shift"] = sh
                    if kind != "none" and rng.random() < 0.15:
                        # the data for the plan are kept under a name of the user's choosing
                        call["name_format"] = str(rng.choice(["{}_tune", "target_{}", "{}_" + kind + "_given"]))
                    plan.append(call)
    cells = S.resolve_plan(spec, plan, T)
    for (x, k), (kind, wd, *_) in cells.items():
        fmt_ = _[1] if len(_) > 1 else None      # (kind, when_data, shift, name_format)
        sname = fmt_.format(x) if fmt_ else E.PLAN_PREFIX[kind] + x
        kind_of_series[sname] = (kind, x)
        need.setdefault(sname, {})[k] = "maybe" if wd else "finite"
    if cells and rng.random() < 0.3:
        zero_res_cells = [xk for xk in cells if rng.random() < 0.6]

    # ---- data
    data = {}

    def cols(per_variant):
        return nv if (nv > 1 and per_variant) else 1

    def level_values(x, count, nc, positive):
        if positive:   # smooth positive path: growth rates of the history stay moderate
            return np.exp(np.cumsum(rng.normal(0.0, 0.03, size=(count, nc)), axis=0)) * rng.uniform(0.7, 1.6, size=(1, nc))
        return rng.normal(0.5, 1.0, size=(count, nc))

    for x in b.lhs:
        nc = cols(rng.random() < 0.5)
        r = rng.random()
        if lead > 0 or x in need:
            k1 = T + lead
        elif r < 0.25:
            k1 = 0
        elif r < 0.75:
            k1 = T + int(rng.integers(0, 2))
        else:
            k1 = int(rng.integers(0, T + 1))
        k0 = -H - int(rng.integers(0, 2))
        vals = level_values(x, k1 - k0, nc, b.pos[x])
        if x in need:   # level-exogenized: holes only where the plan says "when data"
            maybe = [k for k, w in need[x].items() if w == "maybe"]
            for k in maybe:
                if rng.random() < 0.45:
                    vals[k - k0, :] = np.nan
            if maybe and rng.random() < 0.3:   # a hole in one variant only
                vals[maybe[0] - k0, 0] = np.nan
            if not b.pos[x] and rng.random() < 0.3:
                # an exogenized level of exactly 0.0 is a value like any other (added after a seeded change tested the implied
                # value for truthiness)
                for k in need[x]:
                    if 0 <= k - k0 < vals.shape[0] and rng.random() < 0.5 and np.all(np.isfinite(vals[k - k0, :])):
                        vals[k - k0, :] = 0.0
            if all(w == "maybe" for w in need[x].values()) and rng.random() < 0.25:
                cut = max(0, min(need[x])) + int(rng.integers(0, 2))
                vals = vals[:cut - k0, :]
        data[x] = {"k0": k0, "values": vals.tolist()}
    for z in exo:
        nc = cols(rng.random() < 0.4)
        k0 = -H - int(rng.integers(0, 2))
        k1 = T + lead + int(rng.integers(0, 3))
        data[z] = {"k0": k0, "values": level_values(z, k1 - k0, nc, b.exo_pos[z]).tolist()}
    for sname, wants in need.items():
        kind, x = kind_of_series[sname]
        if kind == "none":
            continue
        ks = sorted(wants)
        all_maybe = all(w == "maybe" for w in wants.values())
        if all_maybe and rng.random() < 0.12:
            continue   # series absent altogether: every point falls back to simulation
        k0 = ks[0] - int(rng.integers(0, 2))
        k1 = ks[-1] + 1 + int(rng.integers(0, 2))
        nc = cols(rng.random() < 0.5)
        size = (k1 - k0, nc)
        positive = b.pos[x]
        if kind == "log":
            vals = rng.normal(0.0, 0.3, size=size)
        elif kind == "diff":
            vals = rng.uniform(-0.2, 0.3, size=size) if positive else rng.normal(0.0, 0.3, size=size)
        elif kind == "diff_log":
            vals = rng.normal(0.0, 0.05, size=size)
        elif kind == "roc":
            vals = 1.0 + rng.normal(0.0, 0.05, size=size)
        else:
            vals = rng.normal(0.0, 3.0, size=size)
        for k, w in wants.items():
            if w == "maybe" and rng.random() < 0.45:
                vals[k - k0, :] = np.nan
        if all_maybe and rng.random() < 0.2:
            vals = vals[: max(1, len(vals) // 2), :]
        data[sname] = {"k0": k0, "values": vals.tolist()}
    for e in eqs:
        x = e["lhs"]
        rname = "res_" + x
        if e["identity"]:
            if rng.random() < 0.5:   # a left-over series that an identity must ignore
                data[rname] = {"k0": -1, "values": rng.normal(0.0, 0.3, size=(T + 1, 1)).tolist()}
            continue
        if rng.random() < 0.1:
            continue
        nc = cols(rng.random() < 0.4)
        k0 = -int(rng.integers(0, H + 1))
        k1 = T + int(rng.integers(0, 2))
        vals = rng.normal(0.0, _RES_SIGMA[e["transform"]], size=(k1 - k0, nc))
        vals[vals == 0.0] = _RES_SIGMA[e["transform"]]
        for (xx, k) in zero_res_cells:
            if xx == x:
                vals[k - k0, :] = 0.0
        if rng.random() < 0.07 and T > 2:    # residual series that stops inside the span (missing = zero)
            vals = vals[: (k1 - k0) - int(rng.integers(1, 3)), :]
        data[rname] = {"k0": k0, "values": vals.tolist()}
    if rng.random() < 0.15:   # unrelated items never hurt
        data["unrelated_" + b.lhs[0]] = {"k0": -2, "values": rng.normal(size=(T + 3, 1)).tolist()}

    opts = {
        "prepend_input": bool(rng.random() >= 0.2),
        "shocks_from_data": bool(rng.random() >= 0.12),
        "span_form": "span" if rng.random() < 0.7 else "tuple",
        "silent": bool(rng.random() < 0.8),
    }
    # history of the model object: the equations are rearranged (reorder_equations / sequentialize) before the simulation
    reorder = None
    if n >= 2 and rng.random() < 0.25:
        reorder = "sequentialize" if rng.random() < 0.4 else [int(v) for v in rng.permutation(n)]
    return {
        "kind": "gen", "mode": b.mode, "spec": spec, "source": source, "start": _start(rng), "T": T,
        "data": data, "plan": plan, "opts": opts, "orders": orders, "reorder": reorder, "recalibrate": bool(parn and rng.random() < 0.2),
    }


# ------------------------------------------------------------------------------
# Directed cases (deterministic; hit on every run and seed)
# ------------------------------------------------------------------------------


def directed():
    """one equation per LHS transform, exogenized in every kind with a non-zero and with a zero input residual;
    two-equation models valid under exactly one execution order"""
    out = []
    sty = E.Style()
    sty.curly = False
    sty.explicit_by = False
    sty.difflog_alias = False
    for tr in E.TRANSFORMS:
        for kind in E.TRANSFORMS:
            for zero_res in (False, True):
                if tr == "none":
                    rhs = E.sum_node([(1, ["num", 0.4]), (1, ["*", ["par", "rho"], ["var", "x", -1]]), (1, ["*", ["num", 0.1], ["var", "z", 0]])])
                elif tr == "log":
                    rhs = E.sum_node([(1, ["num", 0.05]), (1, ["*", ["par", "rho"], ["call", "log", ["var", "x", -1]]]), (1, ["*", ["num", 0.1], ["var", "z", 0]])])
                elif tr == "roc":
                    rhs = E.sum_node([(1, ["num", 1.01]), (1, ["*", ["num", 0.02], ["var", "z", 0]])])
                else:
                    scale = {"diff": 0.1, "diff_log": 0.02, "pct": 1.0}[tr]
                    rhs = E.sum_node([(1, ["num", scale]), (1, ["*", ["par", "rho"], ["pf", tr, "x", -1, -1]]), (1, ["*", ["num", scale], ["var", "z", 0]])])
                eqs = [{"lhs": "x", "transform": tr, "identity": False, "rhs": rhs},
                       {"lhs": "s", "transform": "none", "identity": True,
                        "rhs": E.sum_node([(1, ["var", "x", 0]), (1, ["var", "x", -1])])}]
                parameters = {"rho": [0.5]} if "rho" in E.pars(rhs) else {}
                spec = {"equations": eqs, "parameters": parameters, "nv": 1}
                source = ("!parameters\n    rho\n" if parameters else "") + "!equations\n" + "".join("    " + E.render_equation(e, sty) + "\n" for e in eqs)
                T = 6
                res = [0.011, -0.023, 0.017, 0.0215, -0.009, 0.013, 0.007, -0.004]
                if zero_res:
                    res[2 + 2] = 0.0
                    res[2 + 3] = 0.0
                datum = {"none": [1.3, 0.9], "log": [0.2, -0.1], "diff": [0.15, -0.05], "diff_log": [0.03, -0.02],
                         "roc": [1.04, 0.97], "pct": [2.5, -1.5]}[kind]
                data = {
                    "x": {"k0": -2, "values": [[1.1], [1.2], [7.0], [7.0], [7.0], [7.0], [7.0], [7.0]]},
                    "z": {"k0": -2, "values": [[0.3], [-0.2], [0.5], [0.1], [-0.4], [0.2], [0.6], [-0.1]]},
                    "res_x": {"k0": -2, "values": [[r] for r in res]},
                    "res_s": {"k0": -2, "values": [[0.5]] * 8},
                }
                sname = E.PLAN_PREFIX[kind] + "x"
                if kind == "none":
                    data["x"]["values"][2 + 2] = [datum[0]]
                    data["x"]["values"][2 + 3] = [datum[1]]
                else:
                    data[sname] = {"k0": 2, "values": [[datum[0]], [datum[1]]]}
                plan = [{"dates": [2, 3], "names": "x", "transform": None if kind == "none" else kind}]
                out.append({"kind": "directed", "label": f"{tr}/{kind}/{'zero' if zero_res else 'nonzero'}-residual", "spec": spec,
                            "source": source, "start": {"freq": "Q", "year": 2020, "seg": 1}, "T": T, "data": data, "plan": plan,
                            "opts": {"prepend_input": True, "shocks_from_data": True, "span_form": "span"},
                            "orders": ["dates_equations", "equations_dates"]})
    # when_data with a hole, a short series and no series at all
    for variant in ("hole", "short", "absent"):
        rhs = E.sum_node([(1, ["num", 0.5]), (1, ["pf", "pct", "x", -1, -1])])
        eqs = [{"lhs": "x", "transform": "pct", "identity": False, "rhs": ["*", ["num", 0.5], rhs]}]
        spec = {"equations": eqs, "parameters": {}, "nv": 1}
        source = "!equations\n    " + E.render_equation(eqs[0], sty) + "\n"
        data = {"x": {"k0": -2, "values": [[1.0], [1.02]]}, "res_x": {"k0": 0, "values": [[0.1], [-0.2], [0.15], [0.3], [-0.1]]}}
        if variant == "hole":
            data["diff_x"] = {"k0": 0, "values": [[0.05], [float("nan")], [0.02], [float("nan")], [0.01]]}
        elif variant == "short":
            data["diff_x"] = {"k0": 1, "values": [[0.05], [0.03]]}
        plan = [{"dates": "all", "names": ["x"], "transform": "diff", "when_data": True}]
        out.append({"kind": "directed", "label": f"when_data/{variant}", "spec": spec, "source": source,
                    "start": {"freq": "M", "year": 2021, "seg": 11}, "T": 5, "data": data, "plan": plan,
                    "opts": {"prepend_input": True, "shocks_from_data": True, "span_form": "span"},
                    "orders": ["dates_equations", "equations_dates"]})
    # lagged plan transform in the first period of a model without any lag
    eqs = [{"lhs": "x", "transform": "none", "identity": False, "rhs": ["*", ["num", 0.5], ["var", "z", 0]]}]
    out.append({"kind": "directed", "label": "lagless-model/diff-at-first-period", "spec": {"equations": eqs, "parameters": {}, "nv": 1},
                "source": "!equations\n    " + E.render_equation(eqs[0], sty) + "\n",
                "start": {"freq": "Q", "year": 2020, "seg": 1}, "T": 4,
                "data": {"x": {"k0": -1, "values": [[1.0]]}, "z": {"k0": -1, "values": [[1.0], [2.0], [3.0], [4.0], [5.0]]},
                         "diff_x": {"k0": 0, "values": [[0.1], [0.1]]}, "res_x": {"k0": 0, "values": [[0.02], [0.03], [0.01], [0.04]]}},
                "plan": [{"dates": [0, 1], "names": "x", "transform": "diff"}],
                "opts": {"prepend_input": True, "shocks_from_data": True, "span_form": "span"},
                "orders": ["dates_equations", "equations_dates"]})
    # valid under exactly one order
    eqs = [{"lhs": "a1", "transform": "none", "identity": False,
            "rhs": E.sum_node([(1, ["*", ["num", 0.5], ["var", "a1", -1]]), (1, ["*", ["num", 0.3], ["var", "b1", -1]])])},
           {"lhs": "b1", "transform": "diff", "identity": False,
            "rhs": E.sum_node([(1, ["*", ["num", 0.2], ["var", "a1", 0]]), (-1, ["*", ["num", 0.1], ["var", "b1", -2]])])}]
    spec = {"equations": eqs, "parameters": {}, "nv": 1}
    base = {"start": {"freq": "Y", "year": 2001, "seg": 1}, "T": 5, "plan": [],
            "opts": {"prepend_input": True, "shocks_from_data": True, "span_form": "span"}}
    out.append(dict(base, kind="directed", label="dates_equations-only", spec=spec,
                    source="!equations\n" + "".join("    " + E.render_equation(e, sty) + "\n" for e in eqs),
                    data={"a1": {"k0": -2, "values": [[1.0], [1.5], [9.0], [9.0], [9.0], [9.0], [9.0]]},
                          "b1": {"k0": -2, "values": [[0.4], [0.2], [-5.0], [-5.0], [-5.0], [-5.0], [-5.0]]},
                          "res_a1": {"k0": 0, "values": [[0.01], [0.02], [-0.03], [0.01], [0.05]]}},
                    orders=[o for o, (ok, _) in S.valid_orders(spec).items() if ok]))
    eqs = [{"lhs": "a1", "transform": "none", "identity": False,
            "rhs": E.sum_node([(1, ["*", ["num", 0.5], ["var", "a1", -1]]), (1, ["num", 0.3])])},
           {"lhs": "b1", "transform": "none", "identity": True,
            "rhs": ["/", ["+", ["var", "a1", 0], ["var", "a1", 1]], ["num", 2.0]]}]
    spec = {"equations": eqs, "parameters": {}, "nv": 1}
    out.append(dict(base, kind="directed", label="equations_dates-only", spec=spec,
                    source="!equations\n" + "".join("    " + E.render_equation(e, sty) + "\n" for e in eqs),
                    data={"a1": {"k0": -1, "values": [[1.0], [9.0], [9.0], [9.0], [9.0], [9.0], [2.5]]},
                          "res_a1": {"k0": 0, "values": [[0.01], [0.02], [-0.03], [0.01], [0.05]]}},
                    orders=[o for o, (ok, _) in S.valid_orders(spec).items() if ok]))
    return out
