"""
Model families with properties known by construction (used by C01, C03, C05-C08, C15, C20).

family_L   linear models (flag linear=True): AR / forward-looking / random-walk equations with small random couplings,
           optional measurement block. Determinacy is NOT guaranteed by construction: the caller classifies with
           oracles.linre and keeps determinate models for the "holds" direction, the others for the verdict side-pool.
family_N   nonlinear models whose flat steady state xbar is known by construction: every equation is
           lhs(x) = rhs(x) + kcal with the calibration parameter kcal computed by the AST evaluator at xbar.
family_G   balanced-growth templates with closed-form steady levels and gross rates (log-variables).
"""

from __future__ import annotations

import numpy as np

from ..oracles import expr as E


def _r(rng, lo, hi, nd=3):
    return float(np.round(rng.uniform(lo, hi), nd))


_RESERVED = {"log", "exp", "sqrt", "abs", "min", "max", "maximum", "minimum", "logistic", "if", "for", "do", "end", "ttrend", "nan", "inf"}


def _apply_names(obj, mapping):
    """replace whole-string occurrences of the mapped names anywhere in a nested structure (values and dict keys)"""
    if isinstance(obj, str):
        return mapping.get(obj, obj)
    if isinstance(obj, dict):
        return {(mapping.get(k, k) if isinstance(k, str) else k): _apply_names(v, mapping) for k, v in obj.items()}
    if isinstance(obj, list):
        return [_apply_names(v, mapping) for v in obj]
    if isinstance(obj, tuple):
        return tuple(_apply_names(v, mapping) for v in obj)
    return obj


def rename_quantities(rng, spec, *others, prob=0.5):
    """Variables and shocks get names of different lengths, cases and prefixes (one name may be a prefix of another),
    so that the declaration order, the alphabetical order and the order by length all differ. Parameters keep their names.
    Added after a seeded change that paired anticipated shocks with impact columns by name length."""
    groups = [spec["tvars"], spec["mvars"], spec["tshocks"], spec["mshocks"]]
    old = [q["name"] for g in groups for q in g]
    taken = set(old) | {q["name"] for q in spec["params"]} | {q["name"] for q in spec.get("exog", [])}
    mapping = {}
    for nm in old:
        if rng.random() >= prob:
            continue
        style = int(rng.integers(0, 4))
        if style == 0:
            new = nm + "_" + "".join(rng.choice(list("abcxyz"), size=int(rng.integers(1, 9))))
        elif style == 1:
            new = "".join(rng.choice(list("bcdfgh"), size=int(rng.integers(1, 6)))) + "_" + nm
        elif style == 2 and mapping:
            new = str(rng.choice(sorted(mapping.values()))) + str(rng.choice(list("xyzq7")))
        else:
            new = nm.upper()
        if new in taken or new.lower() in _RESERVED:
            continue
        taken.add(new)
        mapping[nm] = new
    if not mapping:
        return (spec,) + others
    return tuple(_apply_names(o, mapping) for o in (spec,) + others)


def family_L(rng, n=None, max_lag=3, max_lead=2, measurement=None, unit_root=False, coupling=0.2, forward_share=0.4, const=True, persistent=False):
    n = int(rng.integers(1, 6)) if n is None else n
    names = [f"x{i}" for i in range(n)]
    shocks = [f"e{i}" for i in range(n)]
    spec = {
        "tvars": [{"name": nm, "desc": "", "log": False} for nm in names],
        "mvars": [], "exog": [], "mshocks": [], "families": [], "user_funcs": {},
        "tshocks": [{"name": s, "desc": ""} for s in shocks],
        "params": [], "teqs": [], "meqs": [],
        "flags": {"linear": True, "flat": True},
    }
    meta = {"family": "L", "types": []}
    rw_index = int(rng.integers(0, n)) if unit_root else -1
    for i, nm in enumerate(names):
        terms = []
        if i == rw_index:
            typ = "rw"
            terms.append(E.var(nm, -1))
        elif rng.random() < forward_share:
            typ = "fwd"
            a = _r(rng, 0.15, 0.6)
            b = _r(rng, 0.0, 0.35)
            k = int(rng.integers(1, max_lead + 1))
            spec["params"].append({"name": f"a{i}", "desc": "", "value": a})
            terms.append(E.bin_("*", E.par(f"a{i}"), E.var(nm, k)))
            if b > 0.02:
                terms.append(E.bin_("*", E.num(b), E.var(nm, -1)))
        else:
            typ = "ar"
            rho = _r(rng, -0.6, 0.9)
            k = int(rng.integers(1, max_lag + 1))
            if persistent and not any(t == "ar-persistent" for t in meta["types"]):
                # a highly persistent but stationary root (|lambda| in 0.99 .. 0.998)
                rho = float(rng.choice([0.99, 0.995, 0.997, 0.998]))
                k = 1
                typ = "ar-persistent"
            spec["params"].append({"name": f"rho{i}", "desc": "", "value": rho})
            terms.append(E.bin_("*", E.par(f"rho{i}"), E.var(nm, -k)))
        meta["types"].append(typ)
        for _ in range(int(rng.integers(0, 3))):
            j = int(rng.integers(0, n))
            if j == i or (j == rw_index and typ != "rw" and rng.random() < 0.5):
                continue
            if typ == "ar-persistent":
                continue  # keep the persistent root where it was put
            s = int(rng.integers(-max_lag, max_lead + 1))
            cval = _r(rng, -coupling, coupling, 2)
            if cval == 0:
                continue
            if typ == "rw":
                continue  # keep the random walk pure so that its root is exactly one
            terms.append(E.bin_("*", E.num(cval), E.var(names[j], s)))
        if const and typ != "rw":
            terms.append(E.num(_r(rng, -1, 1, 2)))
        terms.append(E.bin_("*", E.num(_r(rng, 0.5, 1.5, 2)), E.var(shocks[i], 0)))
        lhs = E.var(nm, 0)
        if rng.random() < 0.2:
            lhs = E.bin_("*", E.num(_r(rng, 0.5, 2.0, 2)), lhs)
        spec["teqs"].append({"lhs": lhs, "rhs": E.add_all(terms), "steady": None, "desc": "", "eqsign": "="})
    if measurement is None:
        measurement = rng.random() < 0.6
    if measurement:
        k = int(rng.integers(1, min(n, 3) + 1))
        for j in range(k):
            spec["mvars"].append({"name": f"ob{j}", "desc": "", "log": False})
            terms = []
            for _ in range(int(rng.integers(1, 3))):
                i = int(rng.integers(0, n))
                terms.append(E.bin_("*", E.num(_r(rng, 0.4, 1.5, 2)), E.var(names[i], -int(rng.integers(0, 3)))))
            terms.append(E.num(_r(rng, -1, 1, 2)))
            if rng.random() < 0.7:
                spec["mshocks"].append({"name": f"w{j}", "desc": ""})
                terms.append(E.var(f"w{j}", 0))
            if spec["mshocks"] and rng.random() < 0.3:
                # a measurement shock shared with another measurement equation (non-diagonal H S_w H')
                other = spec["mshocks"][int(rng.integers(0, len(spec["mshocks"])))]["name"]
                if other != f"w{j}":
                    terms.append(E.bin_("*", E.num(_r(rng, 0.3, 1.2, 2)), E.var(other, 0)))
            if j >= 1 and rng.random() < 0.3:
                # a measurement equation that refers to another (earlier) measurement variable: F is no longer minus identity
                terms.append(E.bin_("*", E.num(_r(rng, 0.2, 0.8, 2)), E.var(f"ob{int(rng.integers(0, j))}", 0)))
            spec["meqs"].append({"lhs": E.var(f"ob{j}", 0), "rhs": E.add_all(terms), "steady": None, "desc": "", "eqsign": "="})
        _permute_measurement_equations(rng, spec)
    spec, meta = rename_quantities(rng, spec, meta)
    return spec, meta


def add_flat_steady_versions(spec):
    """give the transition equation that holds the deepest lag, and the one that holds the farthest lead, a `!!` steady
    version in which every time shift is dropped (equivalent in a flat steady state). Only the dynamic versions may decide
    the lags and leads of the model, its initial conditions and its solution. Deterministic (no random draws).
    Returns the number of equations changed."""
    def flat(node):
        kind = node[0]
        if kind in ("num", "par"):
            return node
        if kind == "var":
            return ["var", node[1], 0]
        if kind == "neg":
            return ["neg", flat(node[1])]
        if kind == "bin":
            return ["bin", node[1], flat(node[2]), flat(node[3])]
        if kind == "call":
            return ["call", node[1], [flat(a) for a in node[2]]]
        raise ValueError(kind)

    def shifts(eq):
        return [s for side in ("lhs", "rhs") for _, s in E.occurrences(eq[side])]
    if not spec["teqs"]:
        return 0
    try:
        lo = min(range(len(spec["teqs"])), key=lambda i: min(shifts(spec["teqs"][i]) or [0]))
        hi = max(range(len(spec["teqs"])), key=lambda i: max(shifts(spec["teqs"][i]) or [0]))
        changed = 0
        for i in {lo, hi}:
            eq = spec["teqs"][i]
            if eq.get("steady") is None and any(shifts(eq)):
                eq["steady"] = {"lhs": flat(eq["lhs"]), "rhs": flat(eq["rhs"])}
                changed += 1
        return changed
    except ValueError:
        return 0


def _permute_measurement_equations(rng, spec):
    """the measurement equations need not be written in the order in which the measurement variables are declared
    (a rotation of three equations makes the matrix F of the measurement block a non-symmetric permutation)"""
    if len(spec["meqs"]) >= 2 and rng.random() < 0.5:
        order = [int(i) for i in rng.permutation(len(spec["meqs"]))]
        spec["meqs"] = [spec["meqs"][i] for i in order]


# ------------------------------------------------------------------------------


def family_N(rng, n=None, max_lag=2, max_lead=2, measurement=None, forward_share=0.35, log_prob=None, exog=False):
    """nonlinear, flat steady state xbar known by construction; exog=True adds an exogenous variable ex0 (steady value 0) that
    enters some transition equations additively at shifts 0 / -1, so that a path given for it in the data moves the simulation"""
    n = int(rng.integers(1, 5)) if n is None else n
    names = [f"v{i}" for i in range(n)]
    shocks = [f"e{i}" for i in range(n)]
    if log_prob is None:
        log_prob = float(rng.choice([0.0, 0.5, 1.0]))
    xbar = {nm: _r(rng, 0.6, 2.0) for nm in names}
    spec = {
        "tvars": [{"name": nm, "desc": "", "log": bool(rng.random() < log_prob)} for nm in names],
        "mvars": [], "exog": [], "mshocks": [], "families": [], "user_funcs": {},
        "tshocks": [{"name": s, "desc": ""} for s in shocks],
        "params": [], "teqs": [], "meqs": [],
        "flags": {"linear": False, "flat": True},
    }
    meta = {"family": "N", "types": []}

    def small_nonlinear(i):
        """a nonlinear term with a small derivative"""
        j = int(rng.integers(0, n))
        k = int(rng.integers(0, n))
        s1 = int(rng.integers(-max_lag, max_lead + 1))
        s2 = int(rng.integers(-max_lag, 1))
        c = _r(rng, 0.03, 0.15)
        a, b = E.var(names[j], s1), E.var(names[k], s2)
        pick = int(rng.integers(0, 7))
        if pick == 0:
            t = E.call("log", E.bin_("*", a, b))
        elif pick == 1:
            t = E.bin_("/", a, b)
        elif pick == 2:
            t = E.bin_("^", a, E.num(_r(rng, 0.3, 1.5, 1)))
        elif pick == 3:
            t = E.call("sqrt", E.bin_("+", a, b))
        elif pick == 4:
            t = E.call("exp", E.bin_("*", E.num(-0.5), a))
        elif pick == 5:
            t = E.call("logistic", E.bin_("-", a, b))
        else:
            t = E.bin_("*", a, b)
        return E.bin_("*", E.num(c), t)

    for i, nm in enumerate(names):
        own = E.var(nm, 0)
        if rng.random() < forward_share:
            typ = "fwd"
            a = _r(rng, 0.15, 0.55)
            b = _r(rng, 0.0, 0.3)
            spec["params"].append({"name": f"a{i}", "desc": "", "value": a})
            k = int(rng.integers(1, max_lead + 1))
            form = int(rng.integers(0, 2))
            if form == 0:
                main = E.bin_("*", E.par(f"a{i}"), E.var(nm, k))
            else:  # multiplicative (log-linear) form
                main = E.bin_("*", E.num(xbar[nm] ** (1 - a)), E.bin_("^", E.var(nm, k), E.par(f"a{i}")))
            terms = [main]
            if b > 0.02:
                terms.append(E.bin_("*", E.num(b), E.var(nm, -1)))
        else:
            typ = "ar"
            rho = _r(rng, 0.0, 0.9)
            spec["params"].append({"name": f"rho{i}", "desc": "", "value": rho})
            k = int(rng.integers(1, max_lag + 1))
            form = int(rng.integers(0, 2))
            if form == 0:
                terms = [E.bin_("*", E.par(f"rho{i}"), E.var(nm, -k))]
            else:
                terms = [E.bin_("*", E.bin_("^", E.var(nm, -k), E.par(f"rho{i}")), E.num(1.0))]
        meta["types"].append(typ)
        for _ in range(int(rng.integers(0, 3))):
            terms.append(small_nonlinear(i))
        if exog and (i == 0 or rng.random() < 0.4):
            terms.append(E.bin_("*", E.num(_r(rng, 0.2, 0.9, 2)), E.var("ex0", -int(rng.integers(0, 2)))))
        rhs = E.add_all(terms)
        spec["params"].append({"name": f"kcal{i}", "desc": "", "value": 0.0})
        rhs = E.bin_("+", rhs, E.par(f"kcal{i}"))
        sh = E.var(shocks[i], 0)
        if rng.random() < 0.5:
            rhs = E.bin_("+", rhs, E.bin_("*", E.num(_r(rng, 0.5, 1.5, 2)), sh))
        else:
            rhs = E.bin_("*", rhs, E.call("exp", sh))
        lhs = own if rng.random() < 0.7 else E.call("log", own) if rng.random() < 0.5 else E.bin_("*", E.num(2.0), own)
        spec["teqs"].append({"lhs": lhs, "rhs": rhs, "steady": None, "desc": "", "eqsign": "="})
    if measurement is None:
        measurement = rng.random() < 0.5
    if measurement:
        k = int(rng.integers(1, min(n, 2) + 1))
        for j in range(k):
            is_log = bool(rng.random() < log_prob)
            spec["mvars"].append({"name": f"ob{j}", "desc": "", "log": is_log})
            i = int(rng.integers(0, n))
            body = E.bin_("*", E.num(_r(rng, 0.5, 2.0, 2)), E.var(names[i], -int(rng.integers(0, 2))))
            if rng.random() < 0.5:
                body = E.bin_("*", body, E.var(names[int(rng.integers(0, n))], 0))
            if rng.random() < 0.7:
                spec["mshocks"].append({"name": f"w{j}", "desc": ""})
                body = E.bin_("+", body, E.var(f"w{j}", 0)) if not is_log else E.bin_("*", body, E.call("exp", E.var(f"w{j}", 0)))
            spec["meqs"].append({"lhs": E.var(f"ob{j}", 0), "rhs": body, "steady": None, "desc": "", "eqsign": "="})
    # ---- calibrate kcal so that xbar is the steady state
    params = {p["name"]: p["value"] for p in spec["params"]}
    data = {nm: np.full(16, xbar[nm]) for nm in names}
    if exog:
        spec["exog"].append({"name": "ex0", "desc": "", "log": False})
        data["ex0"] = np.zeros(16)
    for s in shocks:
        data[s] = np.zeros(16)
    for q in spec["mshocks"]:
        data[q["name"]] = np.zeros(16)
    for i, eq in enumerate(spec["teqs"]):
        # residual is affine in kcal_i with slope possibly != 1 (multiplicative shock): solve by two evaluations
        def res(kval):
            p = dict(params)
            p[f"kcal{i}"] = kval
            return float(E.evaluate(eq["rhs"], data, p, 8) - E.evaluate(eq["lhs"], data, p, 8))
        r0, r1 = res(0.0), res(1.0)
        kval = -r0 / (r1 - r0)
        params[f"kcal{i}"] = kval
        for p in spec["params"]:
            if p["name"] == f"kcal{i}":
                p["value"] = float(kval)
    steady = {nm: (xbar[nm], 1.0 if q["log"] else 0.0) for nm, q in zip(names, spec["tvars"])}
    for j, eq in enumerate(spec["meqs"]):
        val = float(E.evaluate(eq["rhs"], data, params, 8))
        steady[f"ob{j}"] = (val, 1.0 if spec["mvars"][j]["log"] else 0.0)
        if spec["mvars"][j]["log"] and val <= 0:
            return None, None, None
    meta["xbar"] = xbar
    _permute_measurement_equations(rng, spec)
    spec, steady, meta = rename_quantities(rng, spec, steady, meta)
    return spec, steady, meta


# ------------------------------------------------------------------------------


def family_G(rng, template=None, measurement=False):
    """balanced-growth templates; returns (spec, steady{name: (level at t=0 is free -> None, gross/additive change)}, meta).
    Levels on a growth path are not unique for trending variables; the caller compares changes and stationary ratios."""
    template = int(rng.integers(0, 3)) if template is None else template
    if template == 0:
        # deterministic-trend productivity with stationary output gap:  log-variables a, y ; y/a stationary
        g = _r(rng, 1.002, 1.02, 4)
        rho = _r(rng, 0.3, 0.9, 2)
        kap = _r(rng, 0.5, 2.0, 2)
        spec = {
            "tvars": [{"name": "a", "desc": "", "log": True}, {"name": "y", "desc": "", "log": True}, {"name": "gap", "desc": "", "log": True}],
            "mvars": [], "exog": [], "mshocks": [], "families": [], "user_funcs": {},
            "tshocks": [{"name": "ea", "desc": ""}, {"name": "eg", "desc": ""}],
            "params": [{"name": "g", "desc": "", "value": g}, {"name": "rho", "desc": "", "value": rho}, {"name": "kap", "desc": "", "value": kap}],
            "teqs": [
                {"lhs": E.var("a", 0), "rhs": E.bin_("*", E.bin_("*", E.par("g"), E.var("a", -1)), E.call("exp", E.var("ea", 0))), "steady": None, "desc": "", "eqsign": "="},
                {"lhs": E.var("gap", 0), "rhs": E.bin_("*", E.bin_("^", E.var("gap", -1), E.par("rho")), E.call("exp", E.var("eg", 0))), "steady": None, "desc": "", "eqsign": "="},
                {"lhs": E.var("y", 0), "rhs": E.bin_("*", E.bin_("*", E.par("kap"), E.var("a", 0)), E.var("gap", 0)), "steady": None, "desc": "", "eqsign": "="},
            ],
            "meqs": [], "flags": {"linear": False, "flat": False},
        }
        steady = {"a": (None, g), "y": (None, g), "gap": (1.0, 1.0)}
        meta = {"family": "G", "template": "trend-productivity", "ratios": [("y", "a", kap)], "fix": {"a": 1.0}}
    elif template == 1:
        # nominal/real: price level p grows at pi, real rate stationary, additive non-log variable r
        pi = _r(rng, 1.0, 1.03, 4)
        rr = _r(rng, 0.5, 3.0, 2)
        rho = _r(rng, 0.2, 0.8, 2)
        spec = {
            "tvars": [{"name": "p", "desc": "", "log": True}, {"name": "dp", "desc": "", "log": True}, {"name": "r", "desc": "", "log": False}],
            "mvars": [], "exog": [], "mshocks": [], "families": [], "user_funcs": {},
            "tshocks": [{"name": "ep", "desc": ""}, {"name": "er", "desc": ""}],
            "params": [{"name": "pibar", "desc": "", "value": pi}, {"name": "rrbar", "desc": "", "value": rr}, {"name": "rho", "desc": "", "value": rho}],
            "teqs": [
                {"lhs": E.var("dp", 0), "rhs": E.bin_("*", E.bin_("*", E.bin_("^", E.var("dp", -1), E.par("rho")), E.bin_("^", E.par("pibar"), E.bin_("-", E.num(1.0), E.par("rho")))), E.call("exp", E.var("ep", 0))), "steady": None, "desc": "", "eqsign": "="},
                {"lhs": E.var("p", 0), "rhs": E.bin_("*", E.var("p", -1), E.var("dp", 0)), "steady": None, "desc": "", "eqsign": "="},
                {"lhs": E.var("r", 0), "rhs": E.add_all([E.bin_("*", E.par("rho"), E.var("r", -1)), E.bin_("*", E.bin_("-", E.num(1.0), E.par("rho")), E.bin_("+", E.par("rrbar"), E.bin_("*", E.num(100.0), E.bin_("-", E.var("dp", 1), E.num(1.0))))), E.var("er", 0)]), "steady": None, "desc": "", "eqsign": "="},
            ],
            "meqs": [], "flags": {"linear": False, "flat": False},
        }
        steady = {"p": (None, pi), "dp": (pi, 1.0), "r": (rr + 100 * (pi - 1), 0.0)}
        meta = {"family": "G", "template": "nominal-real", "ratios": [], "fix": {"p": 1.0}}
    else:
        # random walk with drift (additive, non-log) and a stationary spread
        d = _r(rng, -0.5, 0.5, 2)
        rho = _r(rng, 0.2, 0.8, 2)
        c = _r(rng, -1.0, 1.0, 2)
        spec = {
            "tvars": [{"name": "z", "desc": "", "log": False}, {"name": "s", "desc": "", "log": False}, {"name": "q", "desc": "", "log": False}],
            "mvars": [], "exog": [], "mshocks": [], "families": [], "user_funcs": {},
            "tshocks": [{"name": "ez", "desc": ""}, {"name": "es", "desc": ""}],
            "params": [{"name": "d", "desc": "", "value": d}, {"name": "rho", "desc": "", "value": rho}, {"name": "c", "desc": "", "value": c}],
            "teqs": [
                {"lhs": E.var("z", 0), "rhs": E.add_all([E.var("z", -1), E.par("d"), E.var("ez", 0)]), "steady": None, "desc": "", "eqsign": "="},
                {"lhs": E.var("s", 0), "rhs": E.add_all([E.bin_("*", E.par("rho"), E.var("s", -1)), E.bin_("*", E.bin_("-", E.num(1.0), E.par("rho")), E.par("c")), E.var("es", 0)]), "steady": None, "desc": "", "eqsign": "="},
                {"lhs": E.var("q", 0), "rhs": E.bin_("+", E.var("z", 0), E.var("s", 0)), "steady": None, "desc": "", "eqsign": "="},
            ],
            "meqs": [], "flags": {"linear": False, "flat": False},
        }
        steady = {"z": (None, d), "s": (c, 0.0), "q": (None, d)}
        meta = {"family": "G", "template": "random-walk-drift", "ratios": [], "diffs": [("q", "z", c)], "fix": {"z": 0.0}}
    if measurement:
        # a measurement equation on a GROWING transition variable (current-dated and lagged): its intercept in the first-order
        # solution depends on the date at which the steady path is read
        name, is_log = {"trend-productivity": ("y", True), "nominal-real": ("p", True), "random-walk-drift": ("q", False)}[meta["template"]]
        lag = int(rng.integers(0, 2))
        spec["mvars"].append({"name": "og", "desc": "", "log": is_log})
        spec["mshocks"].append({"name": "wg", "desc": ""})
        if is_log:
            rhs = E.bin_("*", E.bin_("*", E.num(_r(rng, 0.5, 1.5, 2)), E.var(name, -lag)), E.call("exp", E.var("wg", 0)))
        else:
            rhs = E.add_all([E.var(name, -lag), E.num(_r(rng, -0.5, 0.5, 2)), E.var("wg", 0)])
        spec["meqs"].append({"lhs": E.var("og", 0), "rhs": rhs, "steady": None, "desc": "", "eqsign": "="})
        steady["og"] = (None, steady[name][1])
    return spec, steady, meta
