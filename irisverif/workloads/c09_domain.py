"""
Bounded period domain shared by C09 and C11 (enumerated COMPLETELY in each tier) and helpers
that build irispie periods through the public constructors.

quick    Y/H/Q/M: every period of the years 1900..2100 and of the boundary years below
         D:       every day of 1999..2001, 2023..2025 and of the daily boundary years
         I:       ii(-400..400) and a few large magnitudes
thorough Y/H/Q/M: every period of the years 1..9999 (the whole calendar datetime supports)
         D:       every day of 1583..2400 and of the daily boundary years
         I:       ii(-5000..5000) and a few large magnitudes
"""

from __future__ import annotations

from ..oracles import c09_calendar as cal

BOUNDARY_YEARS = (1, 2, 4, 100, 400, 1582, 1583, 1600, 1700, 9998, 9999)
DAILY_BOUNDARY_YEARS = (1, 4, 100, 400, 1583, 1900, 2100, 9999)
BIG_INTEGERS = (10 ** 4, -10 ** 4, 10 ** 6, -10 ** 6, 2 ** 31 - 1, 2 ** 31, -2 ** 31, 2 ** 63, -2 ** 63 - 1)


def regular_years(tier):
    if tier == "thorough":
        return list(range(1, 10000))
    return sorted(set(range(1900, 2101)) | set(BOUNDARY_YEARS))


def daily_years(tier):
    if tier == "thorough":
        return sorted(set(range(1583, 2401)) | set(DAILY_BOUNDARY_YEARS))
    return sorted({1999, 2000, 2001, 2023, 2024, 2025} | set(DAILY_BOUNDARY_YEARS))


def integer_numbers(tier):
    r = 5000 if tier == "thorough" else 400
    return list(range(-r, r + 1)) + list(BIG_INTEGERS)


def domain_description(tier):
    ry, dy = regular_years(tier), daily_years(tier)
    return {
        "regular_years": f"{ry[0]}..{ry[-1]} ({len(ry)} years)",
        "daily_years": f"{len(dy)} years between {dy[0]} and {dy[-1]}",
        "integer": f"{len(integer_numbers(tier))} numbers",
    }


def enumerate_domain(tier, shard=0, nshards=1, freqs=cal.ALL):
    """yield (f, year, segment) of this shard; the union over shards is the whole bounded domain.
    Daily periods are given as (year, day-of-year). Interleaved so that every shard sees every structure."""
    idx = 0
    ry = regular_years(tier)
    for y in ry:
        for f in cal.REGULAR:
            if f not in freqs:
                continue
            for s in range(1, cal.PER_YEAR[f] + 1):
                if idx % nshards == shard:
                    yield f, y, s
                idx += 1
    if "D" in freqs:
        for y in daily_years(tier):
            for s in range(1, cal.n_segments("D", y) + 1):
                if idx % nshards == shard:
                    yield "D", y, s
                idx += 1
    if "I" in freqs:
        for n in integer_numbers(tier):
            if idx % nshards == shard:
                yield "I", 0, n
            idx += 1


def domain_size(tier, freqs=cal.ALL):
    n = 0
    ry = regular_years(tier)
    for f in cal.REGULAR:
        if f in freqs:
            n += len(ry) * cal.PER_YEAR[f]
    if "D" in freqs:
        n += sum(cal.n_segments("D", y) for y in daily_years(tier))
    if "I" in freqs:
        n += len(integer_numbers(tier))
    return n


def offsets_for(f):
    fv = cal.FREQ_VALUE[f] or 7
    base = {0, 1, 2, 3, fv, fv - 1, fv + 1, 365, 366, 10 ** 4}
    out = set()
    for b in base:
        out.add(b)
        out.add(-b)
    return sorted(out)


def make_period(f, y, s):
    """construct through the public constructors irispie.yy/hh/qq/mm/dd/ii"""
    import irispie
    if f == "Y":
        return irispie.yy(y)
    if f == "H":
        return irispie.hh(y, s)
    if f == "Q":
        return irispie.qq(y, s)
    if f == "M":
        return irispie.mm(y, s)
    if f == "D":
        return irispie.dd(y, None, s)
    if f == "I":
        return irispie.ii(s)
    raise ValueError(f)


def frequency_of(f):
    import irispie
    return irispie.Frequency(cal.FREQ_VALUE[f])
