"""
c19_gen -- seeded generators of C19 cases (pure JSON, no irispie imports)

box spec     {"items": [[name, item], ...]}
  item       {"t": "s", "f": "Q", "lo": ordinal, "v": [[row of variants], ...], "d": description}   series
             {"t": "e", "nv": 2, "d": ""}                                                          series without start
             {"t": "p", "v": python value}                                                          anything else
selection    None | {"k": "list", "v": [...]} | {"k": "str", "v": name} | {"k": "tuple", "v": [...]}
             | {"k": "pred", "p": "startswith"|"contains"|"in"|"shorter", "a": ...}
renaming     None | {"k": "list", "v": [...]} | {"k": "str", "v": name} | {"k": "ren", "p": "prefix"|"suffix"|"upper"|"map", "a": ...}
"""

from __future__ import annotations

import math

from ..oracles import c19_model as M

NAN = math.nan

NAME_POOL = [
    "gdp", "gdp_us", "gdp_ea", "cpi", "cpi_core", "x", "x1", "x2", "y", "yy_", "Alpha", "beta", "r", "rs", "rs_ea",
    "ab", "abc", "a", "b", "ex_rate", "M2", "unemp", "k_1", "k_2", "zeta",
]

DESC_POOL = [
    "", "", "Gross domestic product", "CPI, all items", 'He said "hello"', "it's 5% p.a.", 'a,b,"c",d', " leading space",
    "semi;colon", "tab\there", "*", "__quarterly__", "trailing comma,", '"quoted"', "1.5", "#hash and 100%", "x=y+z; (a*b)",
]

# anchors around which series start (ordinal space of each frequency), incl. year ends and a leap day
_ANCHORS = {
    "Y": [M.ordinal("Y", 1999), M.ordinal("Y", 2020)],
    "H": [M.ordinal("H", 2019, 2), M.ordinal("H", 2020, 1)],
    "Q": [M.ordinal("Q", 2019, 3), M.ordinal("Q", 2020, 1), M.ordinal("Q", 1999, 4)],
    "M": [M.ordinal("M", 2019, 11), M.ordinal("M", 2020, 1), M.ordinal("M", 2020, 12)],
    "D": [M.ordinal("D", 2020, 2, 26), M.ordinal("D", 2019, 12, 28), M.ordinal("D", 2021, 2, 25)],
    "I": [-4, 0, 1, 7],
}


def pick(rng, seq):
    return seq[int(rng.integers(0, len(seq)))]


def anchor(rng, f):
    return int(pick(rng, _ANCHORS[f]) + rng.integers(-3, 4))


def gen_value(rng):
    k = int(rng.integers(0, 9))
    if k == 0:
        return float(rng.integers(-5, 100))
    if k == 1:
        return float(rng.integers(-2000, 2000)) / 64.0
    if k == 2:
        return float(rng.standard_normal() * 10.0 ** int(rng.integers(-6, 7)))
    if k == 3:
        return round(float(rng.standard_normal() * 100), int(rng.integers(0, 5)))
    if k == 4:
        return float(pick(rng, [0.0, -0.0, 1.0, -1.0, 1e-13, 123456.123456789012, 1e15 + 0.5, 0.1 + 0.2, 1 / 3, 2.5e-7, -7.000000000001, 5e-324, 1e12 / 7]))
    return float(rng.standard_normal())


def gen_rows(rng, nrows, nv, p_nan):
    rows = []
    for _ in range(nrows):
        rows.append([NAN if rng.random() < p_nan else gen_value(rng) for _ in range(nv)])
    # sometimes all-missing edge rows (a fresh series trims them)
    if nrows and rng.random() < 0.15:
        rows[0] = [NAN] * nv
    if nrows and rng.random() < 0.15:
        rows[-1] = [NAN] * nv
    return rows


def gen_series(rng, f=None, lo=None, nv=None, max_rows=10, p_empty=0.08):
    if rng.random() < p_empty:
        return {"t": "e", "nv": int(nv or rng.integers(1, 4)), "d": pick(rng, DESC_POOL)}
    f = f or pick(rng, M.FREQS)
    nv = int(nv or pick(rng, [1, 1, 1, 2, 2, 3]))
    nrows = int(rng.integers(1, max_rows + 1))
    lo = anchor(rng, f) if lo is None else lo
    p_nan = pick(rng, [0.0, 0.0, 0.1, 0.3])
    return {"t": "s", "f": f, "lo": int(lo), "v": gen_rows(rng, nrows, nv, p_nan), "d": pick(rng, DESC_POOL)}


def gen_py(rng, numeric_only=False):
    k = int(rng.integers(0, 8 if not numeric_only else 4))
    if k == 0:
        return {"t": "p", "v": float(rng.integers(-5, 50)) / 4}
    if k == 1:
        return {"t": "p", "v": int(rng.integers(-5, 50))}
    if k == 2:
        return {"t": "p", "v": [float(rng.integers(0, 100)) / 8 for _ in range(int(rng.integers(1, 4)))]}
    if k == 3:
        return {"t": "p", "v": [int(rng.integers(0, 100)) for _ in range(int(rng.integers(1, 4)))]}
    if k == 4:
        return {"t": "p", "v": pick(rng, ["text", "", "a,b", "2020-Q1"])}
    if k == 5:
        return {"t": "p", "v": None}
    if k == 6:
        return {"t": "p", "v": ["u", "v"][: int(rng.integers(1, 3))]}
    return {"t": "p", "v": {"nested": 1}}


def gen_box(rng, n_items=None, freqs=None, p_py=0.2, numeric_py=False, max_rows=10, p_empty=0.08, names=None):
    n_items = int(rng.integers(0, 13)) if n_items is None else n_items
    if freqs is None:
        k = pick(rng, [1, 1, 2, 2, 3, 6])
        freqs = [str(f) for f in rng.choice(M.FREQS, size=min(k, 6), replace=False)]
    pool = list(names) if names is not None else [str(n) for n in rng.choice(NAME_POOL, size=min(n_items, len(NAME_POOL)), replace=False)]
    items = []
    for name in pool[:n_items]:
        if rng.random() < p_py:
            items.append([name, gen_py(rng, numeric_py)])
        else:
            f = pick(rng, freqs)
            items.append([name, gen_series(rng, f, max_rows=(max_rows if f != "D" else max_rows + 8), p_empty=p_empty)])
    return {"items": items}


def box_names(box):
    return [n for n, _ in box["items"]]


def gen_other(rng, box, p_share=0.7):
    """a second box that shares names with `box` (mostly same frequency, overlapping spans) and adds new ones"""
    items = []
    for name, it in box["items"]:
        if rng.random() > p_share:
            continue
        r = rng.random()
        if it["t"] == "s":
            nv_self = len(it["v"][0]) if it["v"] else 1
            if r < 0.70:
                nv = pick(rng, [nv_self, nv_self, nv_self, 1])
                lo = it["lo"] + int(rng.integers(-6, 7))
                items.append([name, gen_series(rng, it["f"], lo=lo, nv=nv, p_empty=0.05)])
            elif r < 0.78:
                nv = pick(rng, [1, 2, 3])
                items.append([name, gen_series(rng, it["f"], lo=it["lo"] + int(rng.integers(-3, 4)), nv=nv, p_empty=0.0)])
            elif r < 0.88:
                items.append([name, gen_series(rng, None)])            # most likely another frequency
            else:
                items.append([name, gen_py(rng)])
        elif it["t"] == "e":
            items.append([name, gen_series(rng, None, nv=pick(rng, [it["nv"], 1])) if r < 0.8 else gen_py(rng)])
        else:
            items.append([name, gen_py(rng) if r < 0.8 else gen_series(rng, None)])
    used = {n for n, _ in items} | set(box_names(box))
    extra = [n for n in NAME_POOL if n not in used]
    for _ in range(int(rng.integers(0, 4))):
        if not extra:
            break
        n = extra.pop(int(rng.integers(0, len(extra))))
        items.append([n, gen_series(rng, None) if rng.random() < 0.7 else gen_py(rng)])
    order = rng.permutation(len(items))
    return {"items": [items[int(i)] for i in order]}


# ------------------------------------------------------------------------------
# selections
# ------------------------------------------------------------------------------


def _subset(rng, names, allow_missing=True):
    if not names:
        sub = []
    else:
        k = int(rng.integers(0, len(names) + 1))
        sub = [str(n) for n in rng.choice(names, size=k, replace=False)]
    if allow_missing and rng.random() < 0.25:
        sub.insert(int(rng.integers(0, len(sub) + 1)), pick(rng, ["zz_missing", "nope"]))
    return sub


def gen_source(rng, names, allow_none=True, allow_missing=True):
    k = int(rng.integers(0, 10))
    if k == 0 and allow_none:
        return None
    if k in (1, 2) and names:
        return {"k": "str", "v": pick(rng, names)}
    if k == 3:
        return {"k": "tuple", "v": _subset(rng, names, allow_missing)}
    if k in (4, 5):
        p = pick(rng, ["startswith", "contains", "shorter", "in"])
        if p == "startswith":
            a = pick(rng, ["g", "x", "c", "r", "a", "gdp", "k_"])
        elif p == "contains":
            a = pick(rng, ["_", "p", "1", "a"])
        elif p == "shorter":
            a = int(rng.integers(1, 5))
        else:
            a = _subset(rng, names, True)
        return {"k": "pred", "p": p, "a": a}
    return {"k": "list", "v": _subset(rng, names, allow_missing)}


def gen_target(rng, source, names):
    """renaming for a given source selection (no collisions most of the time)"""
    k = int(rng.integers(0, 10))
    if source is not None and source["k"] == "str":
        if k < 5:
            return {"k": "str", "v": source["v"] + pick(rng, ["_new", "2", "_x"])}
        if k < 6 and names:
            return {"k": "str", "v": pick(rng, names)}          # possible collision (not decided)
    if k < 3:
        return None
    if k < 5:
        return {"k": "ren", "p": "prefix", "a": pick(rng, ["new_", "z", "A_"])}
    if k < 7:
        return {"k": "ren", "p": "suffix", "a": pick(rng, ["_new", "_1", "X"])}
    if k < 8:
        return {"k": "ren", "p": "upper", "a": None}
    if source is not None and source["k"] in ("list", "tuple"):
        src = source["v"]
        if k < 9:
            return {"k": "list", "v": [s + "_r" for s in src]}
        perm = [src[int(i)] for i in rng.permutation(len(src))]    # permutation among the sources: collisions
        return {"k": "list", "v": perm}
    return {"k": "ren", "p": "map", "a": {n: n + "_m" for n in names[::2]}}


def materialize_source(sel):
    if sel is None:
        return None
    k = sel["k"]
    if k == "str":
        return sel["v"]
    if k == "list":
        return list(sel["v"])
    if k == "tuple":
        return tuple(sel["v"])
    if k == "pred":
        p, a = sel["p"], sel["a"]
        if p == "startswith":
            return lambda n: n.startswith(a)
        if p == "contains":
            return lambda n: a in n
        if p == "shorter":
            return lambda n: len(n) <= a
        if p == "in":
            aset = set(a)
            return lambda n: n in aset
    raise ValueError(sel)


def materialize_target(sel):
    if sel is None:
        return None
    k = sel["k"]
    if k == "str":
        return sel["v"]
    if k == "list":
        return list(sel["v"])
    if k == "ren":
        p, a = sel["p"], sel["a"]
        if p == "prefix":
            return lambda n: a + n
        if p == "suffix":
            return lambda n: n + a
        if p == "upper":
            return lambda n: n.upper()
        if p == "map":
            amap = dict(a)
            return lambda n: amap.get(n, n)
    raise ValueError(sel)


def sel_kind(sel):
    if sel is None:
        return "none"
    return sel["k"] if sel["k"] not in ("pred", "ren") else sel["k"] + ":" + sel["p"]


# ------------------------------------------------------------------------------
# histories
# ------------------------------------------------------------------------------

OPS = ["overlay", "underlay", "clip", "prepend", "copy", "shallow", "rename", "keep", "remove", "merge", "by_merging", "or"]
_OP_WEIGHTS = [3, 3, 3, 3, 3, 2, 3, 2, 2, 3, 1, 1]
MERGE_STRATEGIES = ["stack", "stack", "stack", "hstack", "replace", "discard", "silent", "warning", "error", "critical"]


def _series_items(box):
    return [(n, it) for n, it in box["items"] if it["t"] == "s"]


def gen_op(rng, cur_names, cur_box_hint):
    """one operation; `cur_names` are the names the box is expected to hold now, `cur_box_hint` a box spec with
    (approximately) the current content, used to draw frequencies and dates that hit the data"""
    w = [x / sum(_OP_WEIGHTS) for x in _OP_WEIGHTS]
    op = str(rng.choice(OPS, p=w))
    series = _series_items(cur_box_hint)
    if op in ("overlay", "underlay"):
        other = gen_other(rng, cur_box_hint)
        names = None
        if rng.random() < 0.4:
            pool = sorted(set(cur_names) | set(box_names(other)))
            names = {"k": pick(rng, ["list", "tuple"]), "v": _subset(rng, pool, True)}
        return {"op": op, "other": other, "names": names, "strict": bool(rng.random() < 0.15), "method": bool(rng.random() < 0.2)}
    if op == "clip":
        if series and rng.random() < 0.9:
            n, it = pick(rng, series)
            f, lo, hi = it["f"], it["lo"], it["lo"] + len(it["v"]) - 1
        else:
            f = pick(rng, M.FREQS)
            lo = anchor(rng, f)
            hi = lo + 5
        s = None if rng.random() < 0.3 else int(lo + rng.integers(-3, max(1, hi - lo) + 3))
        e = None if rng.random() < 0.3 else int(hi + rng.integers(-max(1, hi - lo) - 2, 4))
        return {"op": "clip", "f": f, "s": s, "e": e}
    if op == "prepend":
        other = gen_other(rng, cur_box_hint, p_share=0.85)
        if series:
            n, it = pick(rng, series)
            f, e = it["f"], it["lo"] + int(rng.integers(-3, len(it["v"]) + 2))
        else:
            f = pick(rng, M.FREQS)
            e = anchor(rng, f)
        return {"op": "prepend", "other": other, "f": f, "e": int(e)}
    if op in ("copy", "shallow"):
        if rng.random() < 0.25:
            src = tgt = None
        else:
            src = gen_source(rng, cur_names)
            tgt = gen_target(rng, src, cur_names) if rng.random() < 0.6 else None
        return {"op": op, "src": src, "tgt": tgt, "strict": bool(rng.random() < 0.15), "switch": bool(rng.random() < 0.5)}
    if op == "rename":
        src = gen_source(rng, cur_names, allow_none=bool(rng.random() < 0.3))
        tgt = gen_target(rng, src, cur_names)
        return {"op": "rename", "src": src, "tgt": tgt, "strict": bool(rng.random() < 0.15)}
    if op in ("keep", "remove"):
        src = gen_source(rng, cur_names, allow_none=bool(rng.random() < 0.1))
        return {"op": op, "src": src, "strict": bool(rng.random() < 0.15)}
    if op == "merge":
        n_others = pick(rng, [1, 1, 1, 2])
        others = [gen_other(rng, cur_box_hint, p_share=0.5) for _ in range(n_others)]
        return {"op": "merge", "others": others, "single": bool(n_others == 1 and rng.random() < 0.7),
                "strategy": pick(rng, MERGE_STRATEGIES), "default": bool(rng.random() < 0.2)}
    if op == "by_merging":
        others = [gen_other(rng, cur_box_hint, p_share=0.5) for _ in range(int(rng.integers(1, 3)))]
        return {"op": "by_merging", "others": others, "strategy": pick(rng, MERGE_STRATEGIES), "switch": bool(rng.random() < 0.5)}
    if op == "or":
        return {"op": "or", "other": gen_other(rng, cur_box_hint, p_share=0.5), "switch": bool(rng.random() < 0.5)}
    raise ValueError(op)


def gen_history(rng, max_ops=15):
    box = gen_box(rng)
    n_ops = int(rng.integers(1, max_ops + 1))
    return {"kind": "history", "box": box, "n_ops": n_ops, "opseed": int(rng.integers(0, 2 ** 31))}


# ------------------------------------------------------------------------------
# CSV and dataslate cases
# ------------------------------------------------------------------------------

NAN_STRS = ["", "", "NaN", "nan", "NA", "-", ".", "missing"]


def gen_csv_case(rng):
    box = gen_box(rng, p_py=0.15, p_empty=0.03)
    names = box_names(box)
    series = _series_items(box)
    w = {}
    r = {}
    if rng.random() < 0.55:
        w["description_row"] = r["description_row"] = True
    if rng.random() < 0.3:
        w["nan_str"] = pick(rng, NAN_STRS)
    if rng.random() < 0.35:
        w["round"] = pick(rng, [None, 0, 2, 6, 12, 15])
    if rng.random() < 0.08:
        d = pick(rng, [";", "\t", "|"])
        w["delimiter"] = r["delimiter"] = d
    if rng.random() < 0.3:
        w["names"] = gen_source(rng, names)
    k = rng.random()
    if k < 0.2 and series:
        n, it = pick(rng, series)
        lo = it["lo"] + int(rng.integers(-3, len(it["v"]) + 1))
        n_per = int(rng.integers(1, 9))
        ords = list(range(lo, lo + n_per))
        if rng.random() < 0.25:
            ords = ords[::2]
        w["span"] = {"f": it["f"], "o": ords, "as": pick(rng, ["span", "list", "tuple"]) if ords == list(range(lo, lo + len(ords))) else "list"}
    elif k < 0.4:
        fs = {}
        freqs = sorted({it["f"] for _, it in series}) or ["Q"]
        for f in freqs:
            u = rng.random()
            if u < 0.4:
                fs[f] = "..."
            elif u < 0.8:
                its = [it for _, it in series if it["f"] == f]
                lo = (pick(rng, its)["lo"] if its else anchor(rng, f)) + int(rng.integers(-3, 6))
                fs[f] = list(range(lo, lo + int(rng.integers(1, 9))))
            elif u < 0.9:
                fs[f] = None
        if rng.random() < 0.2:
            fs["D" if "D" not in fs else "Y"] = "..."
        w["frequency_span"] = {"v": fs, "int_keys": bool(rng.random() < 0.3)}
    if rng.random() < 0.15:
        r["start_period_only"] = True
    if rng.random() < 0.1:
        r["name_row_transform"] = "upper"
    if rng.random() < 0.08 and not any(it["f"] == "I" for _, it in series):
        w["date_formatter"] = r["period_from_string"] = "iso"
    if rng.random() < 0.1:
        w["return_info"] = True
    return {"kind": "csv", "box": box, "w": w, "r": r}


def gen_slate_case(rng):
    f = pick(rng, M.FREQS)
    p_other = pick(rng, [0.0, 0.0, 0.0, 0.15])
    n_items = int(rng.integers(1, 9)) if rng.random() < 0.97 else 0
    names = [str(n) for n in rng.choice(NAME_POOL, size=n_items, replace=False)]
    lo = anchor(rng, f)
    n_per = int(rng.integers(1, 13))
    items = []
    for n in names:
        u = rng.random()
        if u < 0.15:
            items.append([n, gen_py(rng, numeric_only=rng.random() < 0.9)])
        elif u < 0.15 + p_other:
            items.append([n, gen_series(rng, None)])
        else:
            items.append([n, gen_series(rng, f, lo=lo + int(rng.integers(-6, n_per + 2)), max_rows=12)])
    box = {"items": items}
    sel = _subset(rng, names, True) if rng.random() < 0.8 else None
    if sel is not None and not sel and rng.random() < 0.9:
        sel = names[:1] + ["zz_missing"]
    nv = int(pick(rng, [1, 1, 2, 3, 4]))
    case = {"kind": "slate", "box": box, "names": sel, "f": f, "lo": lo, "n": n_per, "nv": nv,
            "periods_as": pick(rng, ["span", "tuple", "list"]), "as_dict": bool(rng.random() < 0.2)}
    cand = (sel if sel is not None else names) or []
    if rng.random() < 0.4 and cand:
        k = int(rng.integers(1, min(3, len(cand)) + 1))
        case["fallbacks"] = {str(n): (float(rng.integers(-9, 10)) if rng.random() < 0.7 else [float(rng.integers(0, 5)) for _ in range(int(rng.integers(1, 4)))])
                             for n in rng.choice(cand, size=k, replace=False)}
    if rng.random() < 0.3 and cand:
        k = int(rng.integers(1, min(2, len(cand)) + 1))
        case["overwrites"] = {str(n): (float(rng.integers(-9, 10)) / 2 if rng.random() < 0.7 else [float(rng.integers(0, 5)) for _ in range(int(rng.integers(1, 4)))])
                              for n in rng.choice(cand, size=k, replace=False)}
    if rng.random() < 0.35:
        a = int(rng.integers(0, n_per))
        b = int(rng.integers(a, n_per))
        case["base"] = list(range(a, b + 1))
        case["clip"] = bool(rng.random() < 0.6)
        case["out_span"] = pick(rng, ["full", "base"])
    if rng.random() < 0.2:
        case["trim"] = False
    if rng.random() < 0.2 and cand:
        case["output_names"] = _subset(rng, list(cand), False)
    if rng.random() < 0.25:
        case["target"] = gen_box(rng, n_items=int(rng.integers(0, 5)), names=[str(n) for n in rng.choice(NAME_POOL, size=4, replace=False)])
    return case
