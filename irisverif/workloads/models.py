"""
Shared generator of model programs (ModelSpec) and renderer to irispie model source text.

A ModelSpec is a JSON-serialisable dict:
  tvars/mvars/exog : [{"name", "desc", "log"}]
  tshocks/mshocks  : [{"name", "desc"}]
  params           : [{"name", "desc", "value"}]
  teqs/meqs        : [{"lhs": ast, "rhs": ast, "steady": None | {"lhs": ast, "rhs": ast}, "desc": str,
                       "eqsign": "=" | ":=" , optional "family": k}]
  families         : [{"ctrl": "?i", "tokens": [...], "template": eq dict whose names contain the ctrl placeholder,
                       "members": indexes into teqs}]
  flags            : {"linear": bool, "flat": bool}
  user_funcs       : {name: python source of a lambda}    (context functions)

The oracle never parses text: specs are generated as ASTs and only rendered to text.
"""

from __future__ import annotations

import copy
import json

import numpy as np

from ..oracles import expr as E

# ------------------------------------------------------------------------------
# name pools
# ------------------------------------------------------------------------------

_TV_POOL = ["y", "yy", "y_1", "y1", "c", "k", "pie", "r", "rr", "x", "xx", "x_gap", "logx", "expo", "diffy", "max_y",
            "Y", "N", "W", "Lambda", "dP", "d4P", "R20", "A", "inv", "w_r", "zz", "q", "qq1", "u_n", "lam", "abs_v"]
_MV_POOL = ["obs_y", "obs_pi", "Short", "Infl", "obs1", "OBS_2", "m_x", "obs_c", "o3"]
_TS_POOL = ["e_y", "eps", "ey", "Ea", "Er", "shk_1", "e1", "e2", "eta_c", "uu"]
_MS_POOL = ["w_y", "omega", "me1", "me_2", "noise"]
_P_POOL = ["alpha", "beta", "rho", "rho_1", "rho2", "gam", "delta", "kappa", "ss_y", "c0", "c1", "a_b", "Theta", "psi", "mu"]
_X_POOL = ["ex1", "oil", "z_ex", "tax"]
_DESC_POOL = [
    "Output", "Output gap, pct", "Inflation Q/Q", "Long run growth !! \\alpha", "Rate; annualised", "5-year rate (exp.)",
    "Share of x % of y", "Wage # index", "it's a trap", "Policy rate: short", "a=b+c", "Habit [internal]", "", "",
    "Habit !! \\chi_{1}", "Lagged rate x{-1}, pct", "Term premium \\rho_{t20}", "set {2} of {+3}",
    "Prices & wages", "Gap > 0 (Okun's law)",
]


def _pick(rng, pool, n, taken):
    avail = [p for p in pool if p not in taken]
    idx = rng.choice(len(avail), size=n, replace=False)
    out = [avail[int(i)] for i in idx]
    taken.update(out)
    return out


def _desc(rng):
    return _DESC_POOL[int(rng.integers(0, len(_DESC_POOL)))]


# ------------------------------------------------------------------------------
# random expression trees
# ------------------------------------------------------------------------------


class TreeGen:
    """Random expression trees with a positivity discipline so that logs, roots and powers stay in their domain
    when every variable and parameter is positive and shocks are small."""

    def __init__(self, rng, variables, shocks, params, max_lag=2, max_lead=2, funcs=None, pseudo=False, user_funcs=(), shock_prob=0.0):
        self.rng = rng
        self.variables = list(variables)
        self.shocks = list(shocks)
        self.params = list(params)
        self.max_lag = max_lag
        self.max_lead = max_lead
        self.funcs = list(funcs if funcs is not None else ["log", "exp", "sqrt", "logistic", "abs", "maximum", "minimum", "normal_cdf", "normal_pdf"])
        self.pseudo = pseudo
        self.user_funcs = list(user_funcs)
        self.shock_prob = shock_prob

    def shift(self):
        r = self.rng.random()
        if r < 0.5:
            return 0
        return int(self.rng.integers(-self.max_lag, self.max_lead + 1))

    def leaf_pos(self):
        r = self.rng.random()
        if r < 0.6 and self.variables:
            return E.var(self.variables[int(self.rng.integers(0, len(self.variables)))], self.shift())
        if r < 0.85 and self.params:
            return E.par(self.params[int(self.rng.integers(0, len(self.params)))])
        if self.rng.random() < 0.15:
            # a constant with many significant digits (calibrated numbers, also large ones): it has to arrive in the equation as it is,
            # whether typed in the source or inserted from the preparser context
            return E.num(float(np.round(self.rng.choice([0.123456789, 1.987654321, 0.0123456789, 12.3456789, 0.33333333]) * self.rng.uniform(0.5, 2.0), 9)))
        return E.num(float(self.rng.choice([0.25, 0.5, 1, 1.5, 2, 3, 0.1, 0.9])))

    def pos(self, d):
        """tree with a strictly positive, moderate value"""
        if d <= 0:
            return self.leaf_pos()
        r = self.rng.random()
        if r < 0.22:
            return E.bin_("+", self.pos(d - 1), self.pos(d - 1))
        if r < 0.40:
            return E.bin_("*", self.pos(d - 1), self.pos(d - 1))
        if r < 0.52:
            return E.bin_("/", self.pos(d - 1), self.pos(d - 1))
        if r < 0.64:
            # power: positive base, moderate exponent (number, parameter or small tree)
            ex = self.rng.random()
            if ex < 0.4:
                e = E.num(float(self.rng.choice([2, 0.5, 3, -1, 1.5, -0.5])))
            elif ex < 0.7 and self.params:
                e = E.par(self.params[int(self.rng.integers(0, len(self.params)))])
            else:
                e = E.bin_("-", self.pos(0), E.num(0.5))
            return E.bin_("^", self.pos(d - 1), e)
        if r < 0.72 and "exp" in self.funcs:
            return E.call("exp", self.any(d - 1, bounded=True))
        if r < 0.78 and "sqrt" in self.funcs:
            return E.call("sqrt", self.pos(d - 1))
        if r < 0.83 and "logistic" in self.funcs:
            return E.call("logistic", self.any(d - 1, bounded=True))
        if r < 0.87 and "maximum" in self.funcs:
            return E.call("maximum", self.pos(d - 1), self.pos(d - 1))
        if r < 0.90 and "minimum" in self.funcs:
            return E.call("minimum", self.pos(d - 1), self.pos(d - 1))
        if r < 0.93 and "normal_cdf" in self.funcs:
            return E.call("normal_cdf", self.any(d - 1, bounded=True))
        if r < 0.95 and "normal_pdf" in self.funcs:
            return E.call("normal_pdf", self.any(d - 1, bounded=True))
        if r < 0.97 and self.user_funcs:
            f, nargs = self.user_funcs[int(self.rng.integers(0, len(self.user_funcs)))]
            return E.call(f, *[self.pos(d - 1) for _ in range(nargs)])
        if self.pseudo and r < 0.99:
            return self.pseudo_node(d - 1, positive=True)
        return self.leaf_pos()

    def any(self, d, bounded=False):
        """tree of any sign; bounded=True keeps the value moderate (for exp / logistic arguments)"""
        if d <= 0:
            r = self.rng.random()
            if self.shocks and r < max(0.15, self.shock_prob):
                return E.var(self.shocks[int(self.rng.integers(0, len(self.shocks)))], 0)
            return self.leaf_pos()
        r = self.rng.random()
        if r < 0.25:
            return E.bin_("-", self.pos(d - 1), self.pos(d - 1))
        if r < 0.35:
            return E.neg(self.pos(d - 1))
        if r < 0.50 and "log" in self.funcs:
            return E.call("log", self.pos(d - 1))
        if r < 0.60:
            return E.bin_("*", self.any(d - 1, bounded), self.pos(d - 1))
        if r < 0.68:
            return E.bin_("+", self.any(d - 1, bounded), self.any(d - 1, bounded))
        if r < 0.74 and "abs" in self.funcs:
            return E.call("abs", self.any(d - 1, bounded))
        if r < 0.80:
            return E.bin_("/", self.any(d - 1, bounded), self.pos(d - 1))
        if self.pseudo and r < 0.90:
            return self.pseudo_node(d - 1, positive=False)
        return self.pos(d - 1) if not bounded else self.pos(min(d - 1, 1))

    def pseudo_node(self, d, positive):
        """pseudofunction applied to an expression with at most one level of parentheses in its rendering:
        argument = sum/product of leaves and single-argument calls on leaves"""
        if positive:
            f = str(self.rng.choice(["roc", "mov_sum", "mov_avg", "mov_prod", "shift"]))
        else:
            f = str(self.rng.choice(["diff", "diff_log", "pct", "shift", "roc", "mov_sum", "mov_avg"]))
        arg = self.flat_pos()
        if self.rng.random() < 0.5:
            k = None
        else:
            k = int(self.rng.choice([-1, -2, -3, -4, 1, 2, 0]))   # an explicit shift of zero is a shift like any other
            if f.startswith("mov") and k == 0:
                k = -2
        return E.pseudo(f, arg, k)

    def flat_pos(self):
        """positive expression whose minimal rendering has at most one level of parentheses"""
        r = self.rng.random()
        a, b = self.leaf_pos(), self.leaf_pos()
        if r < 0.35:
            return a
        if r < 0.55:
            return E.bin_("+", a, b)
        if r < 0.70:
            return E.bin_("*", a, b)
        if r < 0.80:
            return E.bin_("/", a, b)
        if r < 0.90:
            return E.bin_("*", a, E.call("exp", E.bin_("-", b, E.num(1.0))))
        return E.bin_("+", a, E.bin_("*", E.num(0.5), E.call("sqrt", b)))


# ------------------------------------------------------------------------------
# random "general" specs (parser / differentiation workloads)
# ------------------------------------------------------------------------------


def random_general_spec(rng, size="small", pseudo=True, funcs=None, with_measurement=None, with_exog=None,
                        with_steady_versions=True, user_funcs=False, max_lag=2, max_lead=2, depth=None, families=True):
    taken = set()
    n_t = int(rng.integers(1, 4 if size == "small" else 6))
    tv = _pick(rng, _TV_POOL, n_t, taken)
    n_ts = int(rng.integers(1, min(n_t, 3) + 1))
    ts = _pick(rng, _TS_POOL, n_ts, taken)
    n_p = int(rng.integers(1, 5))
    ps = _pick(rng, _P_POOL, n_p, taken)
    if with_measurement is None:
        with_measurement = rng.random() < 0.5
    n_m = int(rng.integers(1, 3)) if with_measurement else 0
    mv = _pick(rng, _MV_POOL, n_m, taken)
    ms = _pick(rng, _MS_POOL, int(rng.integers(0, n_m + 1)), taken) if n_m else []
    if with_exog is None:
        with_exog = rng.random() < 0.25
    xs = _pick(rng, _X_POOL, 1, taken) if with_exog else []
    ufs = {}
    uf_list = []
    if user_funcs:
        ufs = {"ufun1": "lambda a: a*a/(1+a)", "ufun2": "lambda a, b: a*b + a/b"}
        uf_list = [("ufun1", 1), ("ufun2", 2)]
    if depth is None:
        depth = int(rng.integers(1, 4))
    log_prob = float(rng.choice([0.0, 0.3, 0.7, 1.0]))
    spec = {
        "tvars": [{"name": n, "desc": _desc(rng), "log": bool(rng.random() < log_prob)} for n in tv],
        "mvars": [{"name": n, "desc": _desc(rng), "log": bool(rng.random() < log_prob)} for n in mv],
        "exog": [{"name": n, "desc": _desc(rng), "log": bool(rng.random() < 0.35)} for n in xs],
        "tshocks": [{"name": n, "desc": _desc(rng)} for n in ts],
        "mshocks": [{"name": n, "desc": _desc(rng)} for n in ms],
        "params": [{"name": n, "desc": _desc(rng), "value": float(np.round(rng.uniform(0.3, 1.4), 3))} for n in ps],
        "teqs": [], "meqs": [], "families": [],
        "flags": {"linear": False, "flat": bool(rng.random() < 0.5)},
        "user_funcs": ufs,
    }
    g = TreeGen(rng, tv + xs, ts, ps, max_lag=max_lag, max_lead=max_lead, funcs=funcs, pseudo=pseudo, user_funcs=uf_list)
    for i, n in enumerate(tv):
        eq = _random_equation(rng, g, n, depth, ts[i % len(ts)] if i < len(ts) or rng.random() < 0.5 else None, with_steady_versions)
        spec["teqs"].append(eq)
    gm = TreeGen(rng, tv, ms, ps, max_lag=max_lag, max_lead=0, funcs=funcs, pseudo=False, user_funcs=uf_list)
    for i, n in enumerate(mv):
        lhs = E.var(n, 0)
        rhs = gm.pos(max(1, depth - 1))
        if i < len(ms):
            rhs = E.bin_("+", rhs, E.var(ms[i], 0))
        spec["meqs"].append({"lhs": lhs, "rhs": rhs, "steady": None, "desc": _desc(rng), "eqsign": "="})
    if families and rng.random() < 0.5:
        _add_family(rng, spec, taken)
    return spec


def _random_equation(rng, g, own, depth, shock, with_steady):
    style = rng.random()
    if style < 0.5:
        lhs = E.var(own, 0)
    elif style < 0.7 and g.pseudo:
        lhs = E.pseudo(str(rng.choice(["diff", "diff_log", "pct", "roc"])), E.var(own, 0), None)
    elif style < 0.85:
        lhs = E.call("log", E.var(own, 0))
    else:
        lhs = E.bin_("*", g.leaf_pos(), E.var(own, 0))
    rhs = g.any(depth) if rng.random() < 0.5 else g.pos(depth)
    if shock is not None:
        r = rng.random()
        if r < 0.6:
            rhs = E.bin_("+", rhs, E.var(shock, 0))
        elif r < 0.8:
            rhs = E.bin_("*", rhs, E.call("exp", E.var(shock, 0)))
        else:
            rhs = E.bin_("-", rhs, E.bin_("*", g.leaf_pos(), E.var(shock, 0)))
    steady = None
    if with_steady and rng.random() < 0.3:
        g2 = TreeGen(g.rng, g.variables, [], g.params, max_lag=0, max_lead=0, funcs=g.funcs, pseudo=False)
        steady = {"lhs": E.var(own, 0), "rhs": g2.pos(1)}
    return {"lhs": lhs, "rhs": rhs, "steady": steady, "desc": _desc(rng), "eqsign": str(rng.choice(["=", "=", "=", ":="]))}


def _add_family(rng, spec, taken):
    """a family of structurally identical equations, renderable as a !for loop"""
    tokens_pool = [["a", "b"], ["us", "ea", "jp"], ["1", "2", "3"], ["N", "S"], ["hh", "fi"]]
    tokens = tokens_pool[int(rng.integers(0, len(tokens_pool)))]
    base = str(rng.choice(["z_", "g", "sec_", "v"]))
    if any((base + t) in taken for t in tokens) or any(("rf_" + t) in taken for t in tokens) or any(("ef_" + t) in taken for t in tokens):
        return
    ctrl = str(rng.choice(["?i", "?(c)", "?k", "?"]))
    ph = "ZZPHZZ"  # placeholder inside names of the template
    other = spec["tvars"][0]["name"]
    tmpl_rhs = E.add_all([
        E.bin_("*", E.par("rf_" + ph), E.var(base + ph, -1)),
        E.bin_("*", E.num(0.1), E.var(other, int(rng.integers(-1, 2)))),
        E.var("ef_" + ph, 0),
    ])
    if rng.random() < 0.5:
        tmpl_rhs = E.bin_("+", tmpl_rhs, E.pseudo("diff", E.var(base + ph, 0), -2))
    template = {"lhs": E.var(base + ph, 0), "rhs": tmpl_rhs, "steady": None, "desc": "", "eqsign": "="}
    members = []
    logflag = bool(rng.random() < 0.3)
    for t in tokens:
        eq = json.loads(json.dumps(template).replace(ph, t))
        eq["family"] = len(spec["families"])
        members.append(len(spec["teqs"]))
        spec["teqs"].append(eq)
        spec["tvars"].append({"name": base + t, "desc": "", "log": logflag, "family": len(spec["families"])})
        spec["tshocks"].append({"name": "ef_" + t, "desc": "", "family": len(spec["families"])})
        spec["params"].append({"name": "rf_" + t, "desc": "", "value": float(np.round(rng.uniform(0.3, 0.9), 3)), "family": len(spec["families"])})
        taken.update([base + t, "ef_" + t, "rf_" + t])
    spec["families"].append({"ctrl": ctrl, "tokens": tokens, "template": template, "members": members, "placeholder": ph,
                             "var_base": base, "shock_base": "ef_", "param_base": "rf_"})


# ------------------------------------------------------------------------------
# spec helpers
# ------------------------------------------------------------------------------


def all_names(spec):
    out = {}
    for kind in ("tvars", "mvars", "exog", "tshocks", "mshocks", "params"):
        out[kind] = [q["name"] for q in spec[kind]]
    return out


def shift_range(spec):
    lo = hi = 0
    for eq in spec["teqs"] + spec["meqs"]:
        for side in ("lhs", "rhs"):
            for _, s in E.occurrences(eq[side]):
                lo, hi = min(lo, s), max(hi, s)
        if eq.get("steady"):
            for side in ("lhs", "rhs"):
                for _, s in E.occurrences(eq["steady"][side]):
                    lo, hi = min(lo, s), max(hi, s)
    return lo, hi


def user_funcs_of(spec):
    return {k: eval(v, {"__builtins__": {}}) for k, v in (spec.get("user_funcs") or {}).items()}


def random_data(rng, spec, ncols, positive=True, shock_scale=0.05):
    """dict name -> array over columns; positive levels for variables, small shocks; ant_ twins included"""
    data = {}
    for kind in ("tvars", "mvars", "exog"):
        for q in spec[kind]:
            data[q["name"]] = rng.uniform(0.6, 1.8, size=ncols) if positive else rng.normal(0, 1, size=ncols)
    for q in spec["tshocks"]:
        data[q["name"]] = rng.normal(0, shock_scale, size=ncols)
        data["ant_" + q["name"]] = rng.normal(0, shock_scale, size=ncols)
    for q in spec["mshocks"]:
        data[q["name"]] = rng.normal(0, shock_scale, size=ncols)
    return data


def eval_equation(eq, data, params, t, which="dynamic", twins=None, user_funcs=None):
    """rhs - lhs of the dynamic or steady version"""
    src = eq["steady"] if (which == "steady" and eq.get("steady")) else eq
    tw = twins if which == "dynamic" else None
    return E.evaluate(src["rhs"], data, params, t, user_funcs, tw) - E.evaluate(src["lhs"], data, params, t, user_funcs, tw)


# ------------------------------------------------------------------------------
# rendering a spec to source text
# ------------------------------------------------------------------------------

_KW = {
    "tvars": ["!transition-variables", "!transition_variables", "!variables"],
    "mvars": ["!measurement-variables", "!measurement_variables"],
    "exog": ["!exogenous-variables", "!exogenous_variables"],
    "tshocks": ["!transition-shocks", "!transition_shocks", "!shocks"],
    "mshocks": ["!measurement-shocks", "!measurement_shocks"],
    "params": ["!parameters"],
    "teqs": ["!transition-equations", "!transition_equations", "!equations"],
    "meqs": ["!measurement-equations", "!measurement_equations"],
    "log": ["!log-variables", "!log_variables"],
    "allbut": ["!all-but", "!all_but"],
    "subs": ["!substitutions"],
}

_COMMENTS = ["% a comment", "# another; comment = with, stuff", "%% section", "% x = y + 1;", "# !transition-variables fake",
             "% \"quoted\" text", "%"]


def plain_profile():
    return {"level": 0}


def render_source(spec, rng=None, level=1):
    """Render spec to model source. level 0: canonical plain rendering (no preparser features);
    level 1: syntactic alternatives; level 2: plus loops / conditionals / substitutions / lists / context expressions.
    Returns dict(source=..., context=..., features=[...])."""
    if rng is None:
        rng = np.random.default_rng(0)
        level = 0
    feats = set()
    context = {}
    for k, v in (spec.get("user_funcs") or {}).items():
        context[k] = v  # source of the lambda; the caller evals it into a callable
    coin = (lambda p=0.5: bool(rng.random() < p)) if level > 0 else (lambda p=0.5: False)
    pick = lambda lst: lst[int(rng.integers(0, len(lst)))] if level > 0 else lst[0]

    def eq_profile():
        if level == 0:
            return {"shift_style": "square", "parens": "minimal", "spaces": "none"}
        return {
            "shift_style": pick(["square", "curly", "mixed"]),
            "shift_plus": coin(),
            "shift_blank": coin(0.2),
            "parens": pick(["minimal", "minimal", "mixed", "full"]),
            "spaces": pick(["none", "some", "wide"]),
            "num_style": pick(["plain", "plain", "sci", "dot"]),
            "pseudo_spelling": int(rng.integers(0, 2)),
            "pseudo_explicit_default": coin(0.3),
        }

    subs_defs = []
    ctx_counter = [0]

    def maybe_context_numbers(node, in_pseudo=False):
        """replace some numeric constants by <ctx> expressions"""
        if level < 2:
            return node
        kind = node[0]
        if kind == "num" and coin(0.25) and node[1] > 0:
            ctx_counter[0] += 1
            name = f"K{ctx_counter[0]}"
            v = node[1]
            val = int(v) if v == int(v) else v
            if coin(0.5):
                context[name] = val
                feats.add("ctx-expr")
                return ["raw", f"<{name}>"]
            context[name] = val * 2 if isinstance(val, int) else v * 2
            # only exact halves
            if isinstance(val, int) or (v * 2) / 2 == v:
                feats.add("ctx-expr-arith")
                return ["raw", f"<{name}/2>" if not isinstance(val, int) else f"<{name}//2>"]
            context[name] = val
            return ["raw", f"<{name}>"]
        if kind == "neg":
            return ["neg", maybe_context_numbers(node[1], in_pseudo)]
        if kind == "bin":
            # exponents stay literal: "<K>" renders as an atom, but a float like 0.5 as exponent is fine either way
            return ["bin", node[1], maybe_context_numbers(node[2], in_pseudo), maybe_context_numbers(node[3], in_pseudo)]
        if kind == "call":
            return ["call", node[1], [maybe_context_numbers(a, in_pseudo) for a in node[2]]]
        return node  # pseudo arguments are left alone (their text is re-scanned by the expander)

    def maybe_substitution(node):
        """move one top-level additive term of node into a !substitutions definition"""
        if level < 2 or not coin(0.3):
            return node
        if node[0] == "bin" and node[1] in "+-" and node[3][0] in ("bin", "call"):
            term = node[3]
            name = f"sub{len(subs_defs) + 1}"
            text = E.Renderer({"shift_style": "square", "parens": "minimal", "spaces": "none"}, rng).render(term)
            subs_defs.append((name, text))
            feats.add("substitution")
            return ["bin", node[1], node[2], ["raw", f"${name}$"]]
        return node

    class R2(E.Renderer):
        def render(self, node, parent_prec=0, side=None, parent_op=None):
            if node[0] == "raw":
                return node[1]
            return super().render(node, parent_prec, side, parent_op)

    def render_side(node, prof, top=True):
        r = R2(prof, rng if level > 0 else None)
        if top and node[0] == "neg" and coin(0.5):
            return "-" + r.render(node[1], 3)
        return r.render(node)

    def render_eq(eq, allow_subs=True, force_square=False):
        prof = eq_profile()
        if force_square:
            prof["shift_style"] = "square"
        lhs = eq["lhs"]
        rhs = maybe_context_numbers(eq["rhs"])
        if allow_subs:
            rhs = maybe_substitution(rhs)
        sign = eq.get("eqsign", "=") if level > 0 else "="
        pad = "" if prof.get("spaces") == "none" else " "
        text = render_side(lhs, prof) + pad + sign + pad + render_side(rhs, prof)
        if eq.get("steady"):
            prof2 = eq_profile()
            text += f"{pad}!!{pad}" + render_side(eq["steady"]["lhs"], prof2) + pad + "=" + pad + render_side(eq["steady"]["rhs"], prof2)
            feats.add("steady-version")
        if sign == ":=":
            feats.add("colon-equals")
        if "{" in text:
            feats.add("curly-shift")
        return text

    def break_lines(text):
        """line breaks / continuations inside an equation"""
        if level == 0 or not coin(0.3) or len(text) < 25:
            return text
        # break after an operator that is outside any bracket
        depth = 0
        cands = []
        for i, ch in enumerate(text):
            if ch in "([{<":
                depth += 1
            elif ch in ")]}>":
                depth -= 1
            elif ch in "+*" and depth == 0 and 5 < i < len(text) - 5:
                cands.append(i)
        if not cands:
            return text
        i = cands[int(rng.integers(0, len(cands)))]
        cont = pick(["\n        ", " ...\n        ", " ... continuation comment\n        ", " \\\n        ", " % trailing comment\n        "])
        if "..." in cont:
            feats.add("dots-continuation")
        if "\\" in cont:
            feats.add("backslash-continuation")
        return text[:i + 1] + cont + text[i + 1:]

    def desc_text(d):
        if level == 0 or not d:
            return ""
        if level >= 2 and "{" not in d and coin(0.25):
            # the description is inserted by the templater from the context ({{ name }}): it must arrive character by character
            name = f"DESC{len(context)}"
            context[name] = d
            feats.add("jinja-inserted-description")
            return '"{{ ' + name + ' }}" '
        return '"' + d + '" '

    fam_as_loop = {k: (level >= 2 and coin(0.75)) for k in range(len(spec.get("families", [])))}
    # parenthesised controls ?(c) have three body forms: ?(c) as listed, ?[c] lower case, ?{c} upper case. When the names of
    # the family are all lower (upper) case, the tokens may be LISTED with any capitalisation and referred to by ?[c] (?{c})
    fam_form = {}
    for k_, fam_ in enumerate(spec.get("families", [])):
        listed, body = list(fam_["tokens"]), fam_["ctrl"]
        if fam_["ctrl"].startswith("?(") and coin(0.5):
            name = fam_["ctrl"][2:-1]
            if all(t == t.lower() for t in fam_["tokens"]):
                listed = [("".join(ch.upper() if coin(0.5) else ch for ch in t)) for t in fam_["tokens"]]
                body = f"?[{name}]"
                feats.add("for-control-lower-form")
            elif all(t == t.upper() for t in fam_["tokens"]):
                listed = [("".join(ch.lower() if coin(0.5) else ch for ch in t)) for t in fam_["tokens"]]
                body = "?{" + name + "}"
                feats.add("for-control-upper-form")
        fam_form[k_] = (listed, body)

    # ---- declaration blocks
    blocks = []  # (sortkey, text)
    log_names = [q["name"] for kind in ("tvars", "mvars", "exog") for q in spec[kind] if q.get("log")]
    nonlog_names = [q["name"] for kind in ("tvars", "mvars", "exog") for q in spec[kind] if not q.get("log")]
    use_list_for_log = level >= 2 and log_names and coin(0.3)
    if use_list_for_log:
        feats.add("typed-list")

    def decl_block(kind):
        items = [q for q in spec[kind] if not (q.get("family") is not None and fam_as_loop.get(q["family"]))]
        looped = sorted({q["family"] for q in spec[kind] if q.get("family") is not None and fam_as_loop.get(q["family"])})
        if not items and not looped:
            return []
        chunks = [items]
        if level > 0 and len(items) >= 2 and coin(0.3):
            cut = int(rng.integers(1, len(items)))
            chunks = [items[:cut], items[cut:]]
            feats.add("split-blocks")
        out = []
        for ci, chunk in enumerate(chunks):
            kw = pick(_KW[kind])
            if kw != _KW[kind][0]:
                feats.add("keyword-alias")
            sep = pick([", ", "\n    ", "; ", " ", ",\n    "]) if level > 0 else ", "
            parts = []
            for q in chunk:
                nm = q["name"] + ("`lg" if (use_list_for_log and q.get("log")) else "")
                parts.append(desc_text(q.get("desc", "")) + nm)
            text = kw + "\n    " + sep.join(parts)
            if ci == 0:
                for k in looped:
                    fam = spec["families"][k]
                    base = {"tvars": fam["var_base"], "tshocks": fam["shock_base"], "params": fam["param_base"]}[kind]
                    ctrl = fam["ctrl"]
                    listed_, body_ = fam_form[k]
                    sfx = "`lg" if (use_list_for_log and kind == "tvars" and any(q.get("log") for q in spec["tvars"] if q.get("family") == k)) else ""
                    text += f"\n    !for {ctrl} = {', '.join(listed_)} !do\n        {base}{body_}{sfx}\n    !end"
                    feats.add("for-loop-declaration")
            out.append(text)
        return out

    for kind in ("tvars", "mvars", "exog", "tshocks", "mshocks", "params"):
        for b in decl_block(kind):
            blocks.append(b)

    # ---- log block
    if log_names:
        if use_list_for_log:
            blocks.append(pick(_KW["log"]) + "\n    !list(`lg)")
        elif level > 0 and coin(0.5):
            blocks.append(pick(_KW["log"]) + " " + pick(_KW["allbut"]) + "\n    " + ", ".join(nonlog_names))
            feats.add("log-all-but")
        else:
            blocks.append(pick(_KW["log"]) + "\n    " + ", ".join(log_names))
            feats.add("log-list")

    # ---- equation blocks
    def eq_block(kind):
        eqs = spec[kind]
        lines = []
        done_fam = set()
        for i, eq in enumerate(eqs):
            fam_k = eq.get("family")
            if fam_k is not None and fam_as_loop.get(fam_k):
                if fam_k in done_fam:
                    continue
                done_fam.add(fam_k)
                fam = spec["families"][fam_k]
                ctrl = fam["ctrl"]
                listed_, body_ = fam_form[fam_k]
                tmpl = json.loads(json.dumps(fam["template"]).replace(fam["placeholder"], body_))
                body = render_eq(tmpl, allow_subs=False)   # (curly shifts directly after ?(c) were rejected by irispie: fixed)
                lines.append(f"!for {ctrl} = {', '.join(listed_)} !do\n        {body};\n    !end")
                feats.add("for-loop")
                continue
            text = break_lines(render_eq(eq))
            d = desc_text(eq.get("desc", ""))
            line = d + text + ";"
            if level >= 2 and coin(0.15):
                # conditional: the true branch holds the equation, the other a decoy
                flag = f"FLAG{len(context)}"
                truth = coin()
                context[flag] = truth
                decoy = render_eq({"lhs": eq["lhs"], "rhs": E.bin_("+", eq["rhs"], E.num(1.0)), "steady": None}, allow_subs=False) + ";"
                cond = pick([flag, f"{flag} == True", f"not (not {flag})", f"{flag} > 0"]) if truth else pick([f"not {flag}", f"{flag} == False", f"1 > {flag}"])
                if coin(0.25):
                    # the condition itself comes from the context through the templater
                    cname = f"COND{len(context)}"
                    context[cname] = cond
                    cond = "{{ " + cname + " }}"
                    feats.add("jinja-inserted-condition")
                form = int(rng.integers(0, 4))
                if form == 0:
                    line = f"!if {cond} !then\n        {line}\n    !else\n        {decoy}\n    !end"
                elif form == 1:
                    neg_cond = f"not ({cond})"
                    line = f"!if {neg_cond} !then\n        {decoy}\n    !else\n        {line}\n    !end"
                elif form == 2:
                    # no !else branch: the equation is kept because the condition holds
                    line = f"!if {cond} !then\n        {line}\n    !end"
                    feats.add("if-without-else")
                else:
                    # no !else branch: a decoy is dropped because the condition fails; the equation follows unconditionally
                    neg_cond = f"not ({cond})"
                    line = f"!if {neg_cond} !then\n        {decoy}\n    !end\n    {line}"
                    feats.add("if-without-else")
                feats.add("if-then-else")
            if level > 0 and coin(0.2):
                line += "  " + pick(_COMMENTS)
                feats.add("line-comment")
            lines.append(line)
        if not lines:
            return []
        chunks = [lines]
        if level > 0 and len(lines) >= 2 and coin(0.25):
            cut = int(rng.integers(1, len(lines)))
            chunks = [lines[:cut], lines[cut:]]
            feats.add("split-blocks")
        out = []
        for chunk in chunks:
            kw = pick(_KW[kind])
            if kw != _KW[kind][0]:
                feats.add("keyword-alias")
            out.append(kw + "\n    " + "\n    ".join(chunk))
        return out

    eq_blocks = eq_block("teqs") + eq_block("meqs")
    if subs_defs:
        blocks.append(_KW["subs"][0] + "\n    " + "\n    ".join(f"{n} := ({t});" for n, t in subs_defs))
    blocks.extend(eq_blocks)

    if level > 0:
        order = rng.permutation(len(blocks))
        # keep relative order of blocks of the same keyword family (declaration order inside a kind is meaningful)
        blocks = _stable_shuffle(blocks, order)
        if coin(0.3):
            # one, two or three comments, also several block comments with the SAME marker around live model text
            for _ in range(int(rng.integers(1, 4))):
                k = int(rng.integers(0, len(blocks) + 1))
                blocks.insert(k, pick(["%{ block comment\n x = y; !equations\n%}", "#{ another\nblock comment #}", "% standalone comment line",
                                       "%{ second block comment %}", "#{ !parameters\n  zzz\n#}"]))
            feats.add("block-comment")
    source = "\n\n".join(blocks) + "\n"
    return {"source": source, "context": context, "features": sorted(feats)}


def _stable_shuffle(blocks, order):
    """shuffle blocks but keep the relative order of blocks that start with equivalent keywords"""
    def fam(b):
        head = b.split()[0].replace("_", "-") if b.strip() else ""
        alias = {"!variables": "!transition-variables", "!shocks": "!transition-shocks", "!equations": "!transition-equations"}
        return alias.get(head, head)
    shuffled = [blocks[int(i)] for i in order]
    # restore order inside each family
    by_fam = {}
    for b in blocks:
        by_fam.setdefault(fam(b), []).append(b)
    out = []
    counters = {k: 0 for k in by_fam}
    for b in shuffled:
        f = fam(b)
        out.append(by_fam[f][counters[f]])
        counters[f] += 1
    return out


def context_for_irispie(context):
    """the rendered context holds user functions as lambda source; turn them into callables"""
    out = {}
    for k, v in context.items():
        if isinstance(v, str) and v.startswith("lambda"):
            out[k] = eval(v, {"__builtins__": {}})
        else:
            out[k] = v
    return out
