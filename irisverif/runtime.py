"""
irisverif.runtime -- shared machinery of every check

* Ctx            per-shard recorder: events, distinct structural keys, samples,
                 violations (with self-contained replay cases), inconclusives
* ReachMonitor   sys.monitoring PY_START reach monitor over anchor code objects
* main()         ./check entry: shards a property over subprocesses, merges
                 their reports, confirms violations in fresh processes,
                 classifies them against known_findings.json, writes evidence,
                 prints VIOLATION / KNOWN-FINDING lines, sets the exit code

Exit codes: 0 held (possibly with KNOWN-FINDING lines), 1 violation,
2 inconclusive (deciding monitors observed fewer events than the minimum).
"""

from __future__ import annotations

import argparse
import collections
import contextlib
import hashlib
import importlib
import io
import json
import math
import os
import random
import subprocess
import sys
import threading
import time
import traceback
import zlib

VERIF = os.path.dirname(os.path.dirname(os.path.abspath(__file__)))
REPO = os.environ.get("IRISVERIF_REPO", "/repo")
PYTHON = os.environ.get("IRISVERIF_PYTHON", "/venv/bin/python")
GUARD = "IRISPIE_VERIF"
DEPS = os.path.join(VERIF, ".deps")

_CTX = None


def ctx():
    return _CTX


def set_ctx(c):
    global _CTX
    _CTX = c
    return c


# ------------------------------------------------------------------------------
# JSON helpers
# ------------------------------------------------------------------------------


def jsonable(x, depth=0):
    """Best-effort conversion to JSON-serialisable structures (numpy aware)"""
    try:
        import numpy as np
    except Exception:  # pragma: no cover
        np = None
    if depth > 200:
        return repr(x)
    if x is None or isinstance(x, (bool, int, str)):
        return x
    if isinstance(x, float):
        if math.isnan(x):
            return "nan"
        if math.isinf(x):
            return "inf" if x > 0 else "-inf"
        return x
    if np is not None:
        if isinstance(x, np.ndarray):
            return jsonable(x.tolist(), depth + 1)
        if isinstance(x, np.generic):
            return jsonable(x.item(), depth + 1)
    if isinstance(x, complex):
        return {"re": jsonable(x.real), "im": jsonable(x.imag)}
    if isinstance(x, dict):
        return {str(k): jsonable(v, depth + 1) for k, v in x.items()}
    if isinstance(x, (list, tuple, set, frozenset)):
        return [jsonable(v, depth + 1) for v in x]
    return repr(x)


def unnan(x):
    """Inverse of jsonable for floats: 'nan'/'inf' strings back to floats (recursive)"""
    if isinstance(x, str):
        if x == "nan":
            return float("nan")
        if x == "inf":
            return float("inf")
        if x == "-inf":
            return float("-inf")
        return x
    if isinstance(x, list):
        return [unnan(v) for v in x]
    if isinstance(x, dict):
        return {k: unnan(v) for k, v in x.items()}
    return x


def short(x, n=400):
    s = x if isinstance(x, str) else json.dumps(jsonable(x), sort_keys=True)
    return s if len(s) <= n else s[:n] + "...(%d chars)" % len(s)


def stable_hash(x) -> str:
    return hashlib.sha1(json.dumps(jsonable(x), sort_keys=True).encode()).hexdigest()[:12]


# ------------------------------------------------------------------------------
# Recorder
# ------------------------------------------------------------------------------


class Ctx:
    MAX_KEYS = 50000
    MAX_SAMPLES = 6
    MAX_VIOLATIONS = 40

    def __init__(self, prop, tier="quick", seed=0, shard=0, nshards=1, budget_s=60.0, replay=False):
        import numpy as np
        self.prop = prop
        self.tier = tier
        self.seed = int(seed)
        self.shard = int(shard)
        self.nshards = int(nshards)
        self.budget_s = float(budget_s)
        self.replay = replay
        self.t0 = time.time()
        ss = [self.seed, self.shard, zlib.crc32(prop.encode())]
        self.rng = np.random.default_rng(ss)
        self.pyrng = random.Random(self.seed * 1000003 + self.shard * 7919 + zlib.crc32(prop.encode()))
        self.events = collections.Counter()
        self.keys = {}
        self.keys_overflow = 0
        self.samples = []
        self.violations = []
        self.violation_counts = collections.Counter()
        self.inconclusive = collections.Counter()
        self.notes = collections.Counter()
        self.case = None
        self.cases_run = 0
        self.extra = {}
        self.stopped_by = None

    # -- tier helpers
    def scale(self, quick, thorough):
        return thorough if self.tier == "thorough" else quick

    def time_left(self):
        return self.budget_s - (time.time() - self.t0)

    def out_of_time(self):
        if self.time_left() <= 0:
            self.stopped_by = "time_budget"
            return True
        return False

    # -- recording
    def event(self, monitor, op="", key=None, nontrivial=True, n=1):
        """One oracle evaluation by `monitor` on operation class `op`.
        key: structural key (hashable/jsonable) counted towards distinct_nontrivial
        when nontrivial is True."""
        self.events[f"{monitor}|{op}"] += n
        if key is not None and nontrivial:
            k = key if isinstance(key, str) else json.dumps(jsonable(key), sort_keys=True)
            if k in self.keys:
                self.keys[k] += 1
            elif len(self.keys) < self.MAX_KEYS:
                self.keys[k] = 1
            else:
                self.keys_overflow += 1

    def note(self, what, n=1):
        self.notes[what] += n

    def inconc(self, reason, n=1):
        self.inconclusive[reason] += n

    def sample(self, obj, force=False):
        if force or len(self.samples) < self.MAX_SAMPLES:
            self.samples.append(jsonable(obj))

    def violation(self, key, message, detail=None, case=None):
        """Record a violation. `key` names the mechanism (used to match known findings);
        `case` (default: the case being run) must be self-contained and JSON-serialisable."""
        self.violation_counts[key] += 1
        per_key = sum(1 for v in self.violations if v["key"] == key)
        if per_key >= 3 or len(self.violations) >= self.MAX_VIOLATIONS:
            return
        self.violations.append({
            "property": self.prop,
            "key": key,
            "message": short(message, 2000),
            "detail": jsonable(detail),
            "case": jsonable(case if case is not None else self.case),
            "seed": self.seed,
            "tier": self.tier,
            "shard": self.shard,
        })

    @contextlib.contextmanager
    def running(self, case):
        """Declare the case being executed (attached to violations recorded inside)"""
        old = self.case
        self.case = case
        self.cases_run += 1
        try:
            yield
        finally:
            self.case = old

    def report(self):
        return {
            "property": self.prop,
            "tier": self.tier,
            "seed": self.seed,
            "shard": self.shard,
            "nshards": self.nshards,
            "events": dict(self.events),
            "keys": self.keys,
            "keys_overflow": self.keys_overflow,
            "samples": self.samples,
            "violations": self.violations,
            "violation_counts": dict(self.violation_counts),
            "inconclusive": dict(self.inconclusive),
            "notes": dict(self.notes),
            "cases_run": self.cases_run,
            "extra": jsonable(self.extra),
            "stopped_by": self.stopped_by,
            "wall_s": time.time() - self.t0,
        }


# ------------------------------------------------------------------------------
# Reach monitor
# ------------------------------------------------------------------------------


class ReachMonitor:
    """Records which anchor functions ("module:qual.name") were entered at least once.
    Uses sys.monitoring PY_START with DISABLE per code object (cost ~ once per code object)."""

    TOOL = 4

    def __init__(self, anchors):
        self.anchors = list(anchors)
        self.code_to_name = {}
        self.missing = []
        self.reached = set()
        self.active = False

    def _resolve(self):
        for spec in self.anchors:
            try:
                modname, qual = spec.split(":")
                obj = importlib.import_module(modname)
                for part in qual.split("."):
                    obj = obj.__dict__[part] if isinstance(obj, type) and part in obj.__dict__ else getattr(obj, part)
                obj = getattr(obj, "__func__", obj)
                obj = getattr(obj, "fget", obj) if isinstance(obj, property) else obj
                while hasattr(obj, "__wrapped__"):
                    obj = obj.__wrapped__
                code = obj.__code__
                self.code_to_name[code] = spec
            except Exception:
                self.missing.append(spec)

    def start(self):
        self._resolve()
        mon = getattr(sys, "monitoring", None)
        if mon is None or not self.code_to_name:
            return self
        try:
            mon.use_tool_id(self.TOOL, "irisverif-reach")
        except Exception:
            return self
        def on_start(code, offset):
            name = self.code_to_name.get(code)
            if name is not None:
                self.reached.add(name)
            return mon.DISABLE
        mon.register_callback(self.TOOL, mon.events.PY_START, on_start)
        mon.set_events(self.TOOL, mon.events.PY_START)
        self.active = True
        return self

    def stop(self):
        mon = getattr(sys, "monitoring", None)
        if self.active and mon is not None:
            mon.set_events(self.TOOL, 0)
            mon.register_callback(self.TOOL, mon.events.PY_START, None)
            mon.free_tool_id(self.TOOL)
            self.active = False

    def report(self):
        names = set(self.code_to_name.values())
        return {
            "anchors_reached": sorted(self.reached),
            "anchors_not_reached": sorted(names - self.reached),
            "anchors_missing": sorted(self.missing),
        }


# ------------------------------------------------------------------------------
# Generic wrapper installer (harness-side monitors)
# ------------------------------------------------------------------------------


_INSTALLED = []


def wrap_attr(owner, name, make_wrapper):
    """Replace owner.name by make_wrapper(original). Returns True if installed.
    staticmethod/classmethod descriptors are preserved."""
    try:
        raw = owner.__dict__[name] if hasattr(owner, "__dict__") and name in owner.__dict__ else getattr(owner, name)
    except AttributeError:
        c = ctx()
        if c is not None:
            c.note(f"anchor_missing:{getattr(owner, '__name__', owner)}.{name}")
        return False
    if isinstance(raw, staticmethod):
        new = staticmethod(make_wrapper(raw.__func__))
    elif isinstance(raw, classmethod):
        new = classmethod(make_wrapper(raw.__func__))
    else:
        new = make_wrapper(raw)
    try:
        new.__wrapped__ = raw
    except Exception:
        pass
    setattr(owner, name, new)
    _INSTALLED.append((owner, name, raw))
    return True


def unwrap_all():
    while _INSTALLED:
        owner, name, raw = _INSTALLED.pop()
        setattr(owner, name, raw)


@contextlib.contextmanager
def quiet():
    """irispie's solvers print iteration tables; keep them out of the check's stdout"""
    buf = io.StringIO()
    with contextlib.redirect_stdout(buf):
        yield buf


# ------------------------------------------------------------------------------
# Property modules
# ------------------------------------------------------------------------------


def load_prop(prop):
    return importlib.import_module(f"irisverif.props.{prop.lower()}")


def ensure_paths():
    if os.path.isdir(DEPS) and DEPS not in sys.path:
        sys.path.append(DEPS)
    src = os.path.join(REPO, "src")
    # the editable install already points at /repo/src; IRISVERIF_REPO overrides (self-test on scratch copies)
    if REPO != "/repo" and src not in sys.path:
        sys.path.insert(0, src)


def run_worker(args):
    """Executed in a subprocess: one shard (or one replay) of one property"""
    ensure_paths()
    os.environ[GUARD] = "1"
    mod = load_prop(args.prop)
    budget = float(args.budget)
    c = set_ctx(Ctx(args.prop, args.tier, args.seed, args.shard, args.nshards, budget, replay=bool(args.replay)))
    reach = ReachMonitor(getattr(mod, "ANCHORS", ()))
    reach.start()
    status = "ok"
    try:
        if args.replay:
            with open(args.replay) as f:
                rec = json.load(f)
            case = unnan(rec["case"]) if getattr(mod, "UNNAN_CASES", True) else rec["case"]
            with c.running(rec["case"]):
                mod.replay(c, case)
        else:
            mod.shard(c)
    except BaseException as exc:  # harness failure, not a verdict
        status = "harness_error"
        c.extra["harness_error"] = "".join(traceback.format_exception(type(exc), exc, exc.__traceback__))[-4000:]
    finally:
        reach.stop()
    rep = c.report()
    rep["status"] = status
    rep.update(reach.report())
    tmp = args.out + ".tmp"
    with open(tmp, "w") as f:
        json.dump(rep, f)
    os.replace(tmp, args.out)
    return 0


# ------------------------------------------------------------------------------
# Known findings
# ------------------------------------------------------------------------------


def load_known_findings(prop):
    out = {}
    paths = [os.path.join(VERIF, "known_findings.json")]
    extra = os.environ.get("VERIF_KF_EXTRA")
    if extra:
        paths.append(extra)
    for p in paths:
        if not os.path.exists(p):
            continue
        with open(p) as f:
            data = json.load(f)
        for e in data.get("findings", []):
            if e.get("property") == prop and e.get("status") == "known":
                out[e["key"]] = e
    return out


# ------------------------------------------------------------------------------
# Orchestrator
# ------------------------------------------------------------------------------


def _spawn(cmd, timeout, env):
    try:
        p = subprocess.run(cmd, timeout=timeout, env=env, stdout=subprocess.PIPE, stderr=subprocess.STDOUT, text=True)
        return p.returncode, p.stdout
    except subprocess.TimeoutExpired as exc:
        return -9, "TIMEOUT " + (exc.stdout or "" if isinstance(exc.stdout, str) else "")


def ensure_deps(verbose=False):
    """Offline install of icontract/deal beside the repository's interpreter (git-ignored .deps)"""
    ok = os.path.isdir(os.path.join(DEPS, "icontract"))
    if ok:
        return True
    cmd = [PYTHON, "-m", "pip", "install", "--quiet", "--no-index", "--find-links", "/opt/veriftools/wheels",
           "--target", DEPS, "icontract", "deal"]
    try:
        p = subprocess.run(cmd, stdout=subprocess.PIPE, stderr=subprocess.STDOUT, text=True, timeout=300)
        if verbose:
            print(p.stdout)
        return p.returncode == 0
    except Exception as exc:  # tooling problems never break a check: monitors fall back to plain wrappers
        if verbose:
            print("deps install failed:", exc)
        return False


def worker_env():
    env = dict(os.environ)
    env.setdefault("PYTHONHASHSEED", "0")
    env[GUARD] = "1"
    env["PYTHONPATH"] = VERIF + os.pathsep + env.get("PYTHONPATH", "")
    env["OMP_NUM_THREADS"] = "1"
    env["OPENBLAS_NUM_THREADS"] = "1"
    env["MKL_NUM_THREADS"] = "1"
    env["PYTHONDONTWRITEBYTECODE"] = "1"
    env["MPLBACKEND"] = "Agg"
    return env


def main(argv=None):
    ap = argparse.ArgumentParser(prog="check")
    ap.add_argument("prop", nargs="?")
    ap.add_argument("--tier", default=os.environ.get("VERIF_TIER", "quick"), choices=["quick", "thorough"])
    ap.add_argument("--seed", type=int, default=int(os.environ.get("VERIF_SEED", "0") or 0))
    ap.add_argument("--replay")
    ap.add_argument("--setup", action="store_true")
    ap.add_argument("--shards", type=int)
    ap.add_argument("--budget", type=float, help="soft per-shard time budget in seconds")
    ap.add_argument("--no-evidence", action="store_true", help="do not rewrite the evidence file (development)")
    # worker mode
    ap.add_argument("--worker", action="store_true")
    ap.add_argument("--shard", type=int, default=0)
    ap.add_argument("--nshards", type=int, default=1)
    ap.add_argument("--out")
    args = ap.parse_args(argv)

    if args.setup:
        ok = ensure_deps(verbose=True)
        rc, out = _spawn([PYTHON, "-c", "import irispie, numpy, scipy; print('irispie', irispie.__version__, 'from', irispie.__file__)"], 120, worker_env())
        print(out.strip())
        print("deps:", "ok" if ok else "unavailable (falling back to plain wrappers)")
        return 0 if rc == 0 else 1

    if not args.prop:
        ap.error("property id required")
    args.prop = args.prop.upper()

    if args.worker:
        return run_worker(args)

    ensure_deps()
    sys.path.insert(0, VERIF)
    mod = load_prop(args.prop)
    t0 = time.time()
    env = worker_env()
    scratch = os.path.join(VERIF, ".scratch", f"{args.prop}-{os.getpid()}")
    os.makedirs(scratch, exist_ok=True)

    # ---------------- replay mode
    if args.replay:
        out = os.path.join(scratch, "replay.json")
        try:
            rmode = (json.load(open(args.replay)) or {}).get("replay_mode")
        except Exception:
            rmode = None
        if rmode and rmode.get("kind") == "shard":
            # history-dependent violation: the replay is the shard that produced it (same seed, same cases, same order)
            cmd = [PYTHON, "-m", "irisverif.runtime", args.prop, "--worker", "--tier", rmode["tier"], "--seed", str(rmode["seed"]),
                   "--shard", str(rmode["shard"]), "--nshards", str(rmode["nshards"]), "--out", out, "--budget", str(rmode["budget"])]
            rc, log = _spawn(cmd, float(rmode["budget"]) * 3 + 600, env)
        else:
            cmd = [PYTHON, "-m", "irisverif.runtime", args.prop, "--worker", "--tier", args.tier, "--seed", str(args.seed),
                   "--replay", args.replay, "--out", out, "--budget", "600"]
            rc, log = _spawn(cmd, 900, env)
        rep = _read(out)
        if rep is not None and rmode and rmode.get("kind") == "shard":
            rep["violations"] = [w for w in rep.get("violations", []) if stable_hash(w.get("case")) == rmode.get("case_hash")]
        _rmtree(scratch)
        if rep is None or rep.get("status") != "ok":
            print(f"INCONCLUSIVE property={args.prop} replay harness error")
            print((rep or {}).get("extra", {}).get("harness_error", log)[-3000:])
            return 2
        kf = load_known_findings(args.prop)
        bad = [v for v in rep["violations"] if v["key"] not in kf]
        for v in rep["violations"]:
            tag = "KNOWN-FINDING:" if v["key"] in kf else "VIOLATION-DETAIL:"
            print(f"{tag} property={args.prop} key={v['key']} {v['message']}")
        if bad:
            print(f"VIOLATION property={args.prop} replay={args.replay}")
            return 1
        print(f"replay of {args.replay}: no unlisted violation reproduced")
        return 0

    # ---------------- sharded run
    cfg = getattr(mod, "TIERS", {})
    tcfg = dict(cfg.get(args.tier, {}))
    nshards = args.shards or tcfg.get("shards", 8 if args.tier == "quick" else 16)
    budget = args.budget or tcfg.get("budget_s", 40 if args.tier == "quick" else 600)
    hard = budget * 3 + 120
    results = [None] * nshards
    logs = [None] * nshards

    def run_one(i):
        out = os.path.join(scratch, f"shard{i}.json")
        cmd = [PYTHON, "-m", "irisverif.runtime", args.prop, "--worker", "--tier", args.tier, "--seed", str(args.seed),
               "--shard", str(i), "--nshards", str(nshards), "--out", out, "--budget", str(budget)]
        rc, log = _spawn(cmd, hard, env)
        results[i] = _read(out)
        logs[i] = (rc, log)

    sem = threading.Semaphore(int(os.environ.get("VERIF_JOBS", "16")))
    def guarded(i):
        with sem:
            run_one(i)
    threads = [threading.Thread(target=guarded, args=(i,)) for i in range(nshards)]
    for t in threads:
        t.start()
    for t in threads:
        t.join()

    # ---------------- merge
    events = collections.Counter()
    keys = {}
    samples = []
    inconclusive = collections.Counter()
    notes = collections.Counter()
    violations = []
    violation_counts = collections.Counter()
    reached, not_reached, missing = set(), set(), set()
    cases_run = 0
    dead = 0
    extra = {}
    harness_errors = []
    for i, rep in enumerate(results):
        if rep is None:
            dead += 1
            inconclusive["shard_dead_or_timed_out"] += 1
            harness_errors.append(f"shard {i}: rc={logs[i][0]} {logs[i][1][-1500:] if logs[i][1] else ''}")
            continue
        if rep.get("status") != "ok":
            inconclusive["shard_harness_error"] += 1
            harness_errors.append(f"shard {i}: {rep.get('extra', {}).get('harness_error', '')[-1500:]}")
        events.update(rep["events"])
        for k, n in rep["keys"].items():
            keys[k] = keys.get(k, 0) + n
        for s in rep["samples"]:
            if len(samples) < 8:
                samples.append(s)
        inconclusive.update(rep["inconclusive"])
        notes.update(rep["notes"])
        violations.extend(rep["violations"])
        violation_counts.update(rep["violation_counts"])
        reached.update(rep.get("anchors_reached", ()))
        not_reached.update(rep.get("anchors_not_reached", ()))
        missing.update(rep.get("anchors_missing", ()))
        cases_run += rep.get("cases_run", 0)
        for k, v in (rep.get("extra") or {}).items():
            if k == "harness_error":
                continue
            if isinstance(v, (int, float)) and not isinstance(v, bool):
                extra[k] = extra.get(k, 0) + v
            else:
                extra.setdefault(k, v)
    not_reached -= reached

    # ---------------- classify, confirm, report
    kf = load_known_findings(args.prop)
    known_hit = collections.OrderedDict()
    confirmed = []
    unconfirmed = 0
    replay_dir = os.path.join(VERIF, "replays", args.prop)
    seen_keys = collections.Counter()
    shard_reruns = {}
    for v in violations:
        if v["key"] in kf:
            known_hit.setdefault(v["key"], v)
            continue
        seen_keys[v["key"]] += 1
        if seen_keys[v["key"]] > 2:
            continue
        os.makedirs(replay_dir, exist_ok=True)
        path = os.path.join(replay_dir, f"{_slug(v['key'])}-{stable_hash(v['case'])}.json")
        with open(path, "w") as f:
            json.dump(v, f, indent=1)
        if getattr(mod, "CONFIRM_IN_FRESH_PROCESS", True) and v.get("case") is not None:
            out = os.path.join(scratch, "confirm.json")
            if os.path.exists(out):
                os.remove(out)
            cmd = [PYTHON, "-m", "irisverif.runtime", args.prop, "--worker", "--tier", args.tier, "--seed", str(args.seed),
                   "--replay", path, "--out", out, "--budget", "600"]
            rc, log = _spawn(cmd, 900, env)
            rep = _read(out)
            if rep is None or rep.get("status") != "ok" or not any(w["key"] == v["key"] for w in rep["violations"]):
                # second stage: the case alone does not reproduce it -- does the shard that produced it (same seed, same cases
                # in the same order, fresh process)?  A violation that needs the cases before it depends on process history
                # (a cache that outlives a call, module-level state) and is as real as any other
                sh = v.get("shard")
                if sh is not None and sh not in shard_reruns:
                    out2 = os.path.join(scratch, f"rerun{sh}.json")
                    cmd2 = [PYTHON, "-m", "irisverif.runtime", args.prop, "--worker", "--tier", args.tier, "--seed", str(args.seed),
                            "--shard", str(sh), "--nshards", str(nshards), "--out", out2, "--budget", str(budget * 3)]
                    _spawn(cmd2, hard * 3, env)
                    shard_reruns[sh] = _read(out2)
                rep2 = shard_reruns.get(sh)
                same = [w for w in (rep2 or {}).get("violations", []) if w["key"] == v["key"] and stable_hash(w.get("case")) == stable_hash(v.get("case"))]
                if rep2 is not None and rep2.get("status") == "ok" and same:
                    v["replay_mode"] = {"kind": "shard", "tier": args.tier, "seed": args.seed, "shard": sh, "nshards": nshards, "budget": budget * 3,
                                        "case_hash": stable_hash(v.get("case"))}
                    v["message"] += "  [reproduced in a fresh process only together with the cases that precede it in its shard: depends on process history]"
                    with open(path, "w") as f:
                        json.dump(v, f, indent=1)
                    confirmed.append((v, path))
                    continue
                unconfirmed += 1
                inconclusive["violation_not_reproduced_in_fresh_process"] += 1
                os.replace(path, path + ".unconfirmed")
                continue
        confirmed.append((v, path))

    n_events = sum(events.values())
    deciding = getattr(mod, "DECIDING", None)
    n_deciding = n_events if not deciding else sum(n for k, n in events.items() if k.split("|")[0] in deciding)
    min_events = getattr(mod, "MIN_EVENTS", {}).get(args.tier, 1)

    wall = time.time() - t0
    nontrivial_keys = len(keys)
    evidence = {
        "property_id": args.prop,
        "tier": args.tier,
        "seed": args.seed,
        "level": "exploration",
        "coverage": {
            "evaluations": int(n_events),
            "distinct_nontrivial": int(nontrivial_keys),
            "rule": getattr(mod, "RULE", ""),
            "samples": samples if samples else [],
            "cases_run": cases_run,
            "events_by_monitor_and_op": dict(sorted(events.items())),
            "deciding_events": int(n_deciding),
            "min_deciding_events_required": int(min_events),
            "anchors_reached": sorted(reached),
            "anchors_not_reached": sorted(not_reached),
            "anchors_missing": sorted(missing),
            "inconclusive": dict(inconclusive),
            "notes": dict(notes),
            "known_findings_hit": {k: violation_counts.get(k, 0) for k in known_hit},
            "violation_keys": {k: n for k, n in violation_counts.items() if k not in kf},
            "unconfirmed_violations": unconfirmed,
            "shards": nshards,
            "shards_dead": dead,
            "extra": extra,
            "exhaustive": bool(getattr(mod, "EXHAUSTIVE", {}).get(args.tier, False)) and dead == 0 and not harness_errors,
        },
        "assumptions": list(getattr(mod, "ASSUMPTIONS", [])),
        "wall_s": round(wall, 2),
        "violations": len(confirmed),
    }
    if not args.no_evidence:
        os.makedirs(os.path.join(VERIF, "evidence"), exist_ok=True)
        with open(os.path.join(VERIF, "evidence", f"{args.prop}.json"), "w") as f:
            json.dump(evidence, f, indent=1, sort_keys=True)
    _rmtree(scratch)

    print(f"[{args.prop}] tier={args.tier} seed={args.seed} shards={nshards} cases={cases_run} "
          f"monitor_evaluations={n_events} deciding={n_deciding} distinct_nontrivial={nontrivial_keys} wall={wall:.1f}s")
    top = sorted(events.items(), key=lambda kv: -kv[1])[:12]
    print("  events: " + ", ".join(f"{k}={n}" for k, n in top))
    if inconclusive:
        print("  inconclusive: " + ", ".join(f"{k}={n}" for k, n in inconclusive.items()))
    if not_reached or missing:
        print(f"  anchors not reached: {sorted(not_reached)} missing: {sorted(missing)}")
    for e in harness_errors[:3]:
        print("  HARNESS: " + e.replace("\n", "\n    "))
    for k, v in known_hit.items():
        print(f"KNOWN-FINDING: property={args.prop} {k}: {kf[k].get('what', '')} (observed {violation_counts.get(k, 0)}x this run)")
    if confirmed:
        for v, path in confirmed:
            print(f"VIOLATION-DETAIL: property={args.prop} key={v['key']} {v['message']}")
            print(f"VIOLATION property={args.prop} replay={path}")
        return 1
    if harness_errors:
        print(f"INCONCLUSIVE property={args.prop}: {len(harness_errors)} shard(s) ended with a harness error")
        return 2
    if n_deciding < min_events or dead == nshards:
        print(f"INCONCLUSIVE property={args.prop}: deciding monitors observed {n_deciding} events (< {min_events})")
        return 2
    print(f"[{args.prop}] held on everything observed")
    return 0


def _slug(s):
    return "".join(ch if ch.isalnum() or ch in "-_." else "_" for ch in s)[:60]


def _read(path):
    try:
        with open(path) as f:
            return json.load(f)
    except Exception:
        return None


def _rmtree(path):
    import shutil
    shutil.rmtree(path, ignore_errors=True)


if __name__ == "__main__":
    # run through the canonical module object so that monitors and runner share one _CTX
    from irisverif import runtime as _canonical
    sys.exit(_canonical.main())
