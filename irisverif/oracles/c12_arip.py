"""
C12 arip oracle -- the DOCUMENTED criterion of disaggregate(method="arip"), solved densely

Docstring of Series.disaggregate ("ARIP algorithm"):

  "rate":  x_t = rho x_{t-1} + eps_t,       eps_t ~ N(0, sigma_t^2),  sigma_0 = 1, sigma_t = rho sigma_{t-1}
  "diff":  x_t = x_{t-1} + c + eps_t,       eps_t ~ N(0, 1)
  y = Z x per low-frequency period, Z = ones | ones/n | e_first | e_last  (or a user vector)
  rho = average gross rate of change of the observed low-frequency series converted to high frequency
  c   = average difference of the observed low-frequency series converted to high frequency

Read as the (Gaussian maximum-likelihood == least-squares) problem

  minimise   sum_{t=1}^{T-1} ((x_t - rho x_{t-1} - c) / sigma_t)^2
  subject to Z_p x = y_p  for the observed low periods p,   x_h = target_h for the given targets

with  rho = ((y_last / y_first)^(1/n))^(f_low/f_high),  c = ((y_last - y_first)/n) (f_low/f_high),
n = number of low periods between the first and the last observation, and no initial condition.

Solved here by the null-space method (QR of the constraint matrix + least squares); no irispie import.
"""

from __future__ import annotations

import math

import numpy as np


class NotApplicable(Exception):
    pass


def z_vector(aggregation, k):
    if isinstance(aggregation, str):
        if aggregation == "sum":
            return np.ones(k)
        if aggregation in ("mean", "avg"):
            return np.ones(k) / k
        if aggregation == "first":
            z = np.zeros(k); z[0] = 1.0
            return z
        if aggregation == "last":
            z = np.zeros(k); z[-1] = 1.0
            return z
        raise NotApplicable(f"aggregation {aggregation!r}")
    z = np.asarray(aggregation, dtype=float).ravel()
    if z.size != k:
        raise NotApplicable("custom aggregation vector length differs from the number of members")
    return z


def documented_parameters(form, low_f, high_f, y):
    """(rho, c) from the low-frequency observations y (1-D, NaN = unobserved), or None when the
    documentation does not determine them (fewer than two observations, non-positive ratio)."""
    y = np.asarray(y, dtype=float)
    idx = np.flatnonzero(np.isfinite(y))
    if idx.size < 2:
        return None
    n = int(idx[-1] - idx[0])
    first, last = float(y[idx[0]]), float(y[idx[-1]])
    conv = float(low_f) / float(high_f)
    if form in ("rate", "multiplicative"):
        if not (first != 0 and last / first > 0):
            return None
        rho = ((last / first) ** (1.0 / n)) ** conv
        return rho, 0.0
    if form in ("diff", "additive"):
        return 1.0, (last - first) / n * conv
    raise NotApplicable(f"form {form!r}")


def criterion_matrices(T, form, rho, c):
    """K ((T-1) x T) and d ((T-1),) with objective(x) = || K x - d ||^2"""
    K = np.zeros((max(T - 1, 0), T))
    d = np.zeros(max(T - 1, 0))
    if form in ("rate", "multiplicative"):
        sigma = rho ** np.arange(T, dtype=float)
    else:
        sigma = np.ones(T)
    for t in range(1, T):
        K[t - 1, t] = 1.0 / sigma[t]
        K[t - 1, t - 1] = -rho / sigma[t]
        d[t - 1] = c / sigma[t]
    return K, d


def objective(x, K, d):
    r = K @ np.asarray(x, dtype=float) - d
    return float(r @ r)


def constraint_system(group_sizes, aggregation, y, targets):
    """A x = b: one aggregation row per observed low period that is not completely covered by targets
    (a completely targeted low period is determined by its targets), one unit row per target.
    targets: 1-D array over the high-frequency span, NaN = no target.
    Returns A, b, kinds where kinds[i] = ("agg", low index) | ("target", high index)"""
    y = np.asarray(y, dtype=float)
    targets = np.asarray(targets, dtype=float)
    T = int(sum(group_sizes))
    offs = np.concatenate([[0], np.cumsum(group_sizes)]).astype(int)
    rows, rhs, kinds = [], [], []
    for p, k in enumerate(group_sizes):
        if not np.isfinite(y[p]):
            continue
        seg = targets[offs[p]:offs[p + 1]]
        if np.all(np.isfinite(seg)):
            continue
        r = np.zeros(T)
        r[offs[p]:offs[p + 1]] = z_vector(aggregation, k)
        rows.append(r); rhs.append(y[p]); kinds.append(("agg", p))
    for h in np.flatnonzero(np.isfinite(targets)):
        r = np.zeros(T)
        r[h] = 1.0
        rows.append(r); rhs.append(targets[h]); kinds.append(("target", int(h)))
    A = np.array(rows).reshape(len(rows), T)
    b = np.array(rhs, dtype=float)
    return A, b, kinds


def rank_of(A):
    if A.shape[0] == 0:
        return 0
    s = np.linalg.svd(A, compute_uv=False)
    return int(np.sum(s > s[0] * 1e-10)) if s.size and s[0] > 0 else 0


def constrained_minimum(K, d, A, b):
    """minimise ||K x - d||^2 s.t. A x = b. Returns (x, objective, cond of the reduced problem).
    Raises NotApplicable when the problem is infeasible/degenerate or not uniquely solvable."""
    T = K.shape[1]
    m = A.shape[0]
    if m == 0:
        raise NotApplicable("no constraint")
    if rank_of(A) < m:
        raise NotApplicable("constraints rank deficient")
    Q, R = np.linalg.qr(A.T, mode="complete")     # A.T = Q[:, :m] R[:m]
    xp = Q[:, :m] @ np.linalg.solve(R[:m, :].T, b)
    N = Q[:, m:]
    if N.shape[1] == 0:
        return xp, objective(xp, K, d), 1.0
    M = K @ N
    s = np.linalg.svd(M, compute_uv=False)
    if s.size < N.shape[1] or s[-1] <= s[0] * 1e-11:
        raise NotApplicable("criterion not strictly convex on the feasible set")
    z, *_ = np.linalg.lstsq(M, d - K @ xp, rcond=None)
    x = xp + N @ z
    return x, objective(x, K, d), float(s[0] / s[-1])


def feasibility(A, b, kinds, x, rtol=1e-9):
    """list of (kind, residual, scale) for violated constraints. The residual is judged relative to the size of the
    data of the whole problem (a linear solve is accurate relative to max|x|, not to an individual y that happens to
    be close to zero)."""
    x = np.asarray(x, dtype=float)
    out = []
    xmax = float(np.max(np.abs(x))) if x.size else 0.0
    for i in range(A.shape[0]):
        lhs = float(A[i] @ x)
        scale = max(abs(b[i]), float(np.abs(A[i]) @ np.abs(x)), float(np.sum(np.abs(A[i]))) * xmax, 1e-300)
        if not (abs(lhs - b[i]) <= rtol * scale):
            out.append((kinds[i], lhs - b[i], scale))
    return out
