"""
Independent linear rational-expectations oracle.

From a ModelSpec (ASTs) and a steady path it builds, by finite differences of the AST evaluator, the
linearised model in "maybelog" deviations

    sum_cells J[e, (name, shift)] * dev(name, t+shift) + sum_shocks Ju[e, shock] * shock_t = 0

stacks it into its own first-order pencil  A xi_t + B xi_{t-1} = 0, computes generalized eigenvalues with
scipy.linalg.eig and classifies determinacy (Blanchard-Kahn counting). No irispie imports.
"""

from __future__ import annotations

import numpy as np
import scipy.linalg as sla

from . import expr as E


class Lin:
    """linearised model"""

    def __init__(self):
        self.tnames = []      # transition variable names
        self.mnames = []
        self.tshocks = []
        self.mshocks = []
        self.logly = {}       # name -> bool
        self.teq = []         # list of dict {(name, shift): coef}
        self.teq_u = []       # list of dict {shock: coef}
        self.meq = []
        self.meq_w = []
        self.const_t = None   # residuals at the steady path (should vanish at a true steady state)
        self.const_m = None
        self.steady = {}      # name -> (level, change)


def steady_path(spec, steady, params, ncols, col0):
    """data dict over ncols columns: level + change*s (level*change**s for log-variables); shocks zero"""
    data = {}
    s = np.arange(ncols, dtype=float) - col0
    for grp in ("tvars", "mvars", "exog"):
        for q in spec[grp]:
            lvl, chg = steady[q["name"]]
            if q.get("log"):
                data[q["name"]] = lvl * (chg if chg is not None else 1.0) ** s
            else:
                data[q["name"]] = lvl + (chg if chg is not None else 0.0) * s
    for q in spec["tshocks"]:
        data[q["name"]] = np.zeros(ncols)
        data["ant_" + q["name"]] = np.zeros(ncols)
    for q in spec["mshocks"]:
        data[q["name"]] = np.zeros(ncols)
    return data


def linearize(spec, steady, params=None, user_funcs=None, t_eval=0):
    """steady: dict name -> (level, change). Derivatives w.r.t. the log of a cell for log-variables."""
    params = params if params is not None else {p["name"]: p["value"] for p in spec["params"]}
    lin = Lin()
    lin.tnames = [q["name"] for q in spec["tvars"]]
    lin.mnames = [q["name"] for q in spec["mvars"]]
    lin.tshocks = [q["name"] for q in spec["tshocks"]]
    lin.mshocks = [q["name"] for q in spec["mshocks"]]
    lin.logly = {q["name"]: bool(q.get("log")) for grp in ("tvars", "mvars", "exog") for q in spec[grp]}
    lin.steady = dict(steady)
    lo = hi = 0
    for eq in spec["teqs"] + spec["meqs"]:
        for side in ("lhs", "rhs"):
            for _, s in E.occurrences(eq[side]):
                lo, hi = min(lo, s), max(hi, s)
    pad = 2
    ncols = hi - lo + 1 + 2 * pad
    col0 = -lo + pad + t_eval
    base = steady_path(spec, steady, params, ncols + abs(t_eval), -lo + pad)

    def resid(eq, data):
        with np.errstate(all="ignore"):
            return float(E.evaluate(eq["rhs"], data, params, col0, user_funcs) - E.evaluate(eq["lhs"], data, params, col0, user_funcs))

    def d_cell(eq, name, shift):
        x0 = base[name][col0 + shift]
        is_log = lin.logly.get(name, False)
        z0 = np.log(x0) if is_log else x0
        def f(z):
            data = dict(base)
            arr = base[name].copy()
            arr[col0 + shift] = np.exp(z) if is_log else z
            data[name] = arr
            return resid(eq, data)
        d, err = E.richardson(f, z0)
        return d, err

    def d_shock(eq, name):
        def f(z):
            data = dict(base)
            arr = base[name].copy()
            arr[col0] = z
            data[name] = arr
            return resid(eq, data)
        d, err = E.richardson(f, 0.0, h0=1e-3)
        return d, err

    varnames = set(lin.tnames) | set(lin.mnames)
    max_err = 0.0
    for grp, store, store_s, shocks in (("teqs", lin.teq, lin.teq_u, lin.tshocks), ("meqs", lin.meq, lin.meq_w, lin.mshocks)):
        for eq in spec[grp]:
            occ = set()
            for side in ("lhs", "rhs"):
                occ |= E.occurrences(eq[side])
            coefs = {}
            scoefs = {}
            for name, shift in sorted(occ):
                if name in varnames:
                    d, err = d_cell(eq, name, shift)
                    max_err = max(max_err, err / (1 + abs(d)))
                    # structural occurrences are kept even when their derivative vanishes (0.1*x[1] + (-0.1)*x[1]):
                    # they determine the lag/lead structure (and thereby the number of forward-looking variables)
                    coefs[(name, shift)] = d
                elif name in shocks and shift == 0:
                    d, err = d_shock(eq, name)
                    scoefs[name] = d
            store.append(coefs)
            store_s.append(scoefs)
    lin.const_t = np.array([resid(eq, base) for eq in spec["teqs"]])
    lin.const_m = np.array([resid(eq, base) for eq in spec["meqs"]])
    lin.fd_rel_err = max_err
    return lin


def tokens_of(lin):
    """own state vector xi: for each transition variable the shifts minlag+1 .. maxlead (minlag <= -1);
    a variable read at shift -k in a measurement equation needs xi to contain shift -k"""
    lo = {n: -1 for n in lin.tnames}
    hi = {n: 0 for n in lin.tnames}
    for coefs in lin.teq:
        for (n, s) in coefs:
            if n in lo:
                lo[n] = min(lo[n], s)
                hi[n] = max(hi[n], s)
    for coefs in lin.meq:
        for (n, s) in coefs:
            if n in lo:
                lo[n] = min(lo[n], s - 1)
                hi[n] = max(hi[n], s)
    toks = []
    for n in lin.tnames:
        for s in range(hi[n], lo[n], -1):
            toks.append((n, s))
    # forward-looking first (shift > 0), then the rest
    toks.sort(key=lambda t: (-(t[1] > 0), -t[1], lin.tnames.index(t[0])))
    return toks, lo, hi


def pencil(lin):
    """A xi_t + B xi_{t-1} + D u_t = 0 with identity rows appended"""
    toks, lo, hi = tokens_of(lin)
    idx = {t: i for i, t in enumerate(toks)}
    n = len(toks)
    rows_A, rows_B, rows_D = [], [], []
    for coefs, scoefs in zip(lin.teq, lin.teq_u):
        a = np.zeros(n)
        b = np.zeros(n)
        for (name, s), v in coefs.items():
            if (name, s) in idx:
                a[idx[(name, s)]] += v
            else:
                b[idx[(name, s + 1)]] += v
        rows_A.append(a)
        rows_B.append(b)
        rows_D.append([scoefs.get(u, 0.0) for u in lin.tshocks])
    for (name, s) in toks:
        if s < hi[name]:
            a = np.zeros(n)
            b = np.zeros(n)
            a[idx[(name, s)]] = 1.0
            b[idx[(name, s + 1)]] = -1.0
            rows_A.append(a)
            rows_B.append(b)
            rows_D.append([0.0] * len(lin.tshocks))
    A = np.array(rows_A)
    B = np.array(rows_B)
    D = np.array(rows_D).reshape(len(rows_A), len(lin.tshocks))
    return A, B, D, toks


def eigenvalues(A, B):
    """generalized eigenvalues lambda of xi_t = lambda xi_{t-1}:  (A lambda + B) v = 0"""
    w = sla.eig(-B, A, right=False, homogeneous_eigvals=True)
    alpha, beta = w[0], w[1]
    with np.errstate(divide="ignore", invalid="ignore"):
        lam = np.where(np.abs(beta) > 1e-14 * np.maximum(1.0, np.abs(alpha)), alpha / np.where(beta == 0, 1, beta), np.inf)
    return lam


def classify(lin, gap=0.03, unit_tol=1e-8):
    """returns dict with counts and a determinacy verdict; 'certified' is False when an eigenvalue lies
    within `gap` of the unit circle without being an (intended) exact unit root"""
    A, B, D, toks = pencil(lin)
    if A.shape[0] != A.shape[1]:
        return {"square": False, "certified": False}
    lam = eigenvalues(A, B)
    mod = np.abs(lam)
    n_forward = sum(1 for (_, s) in toks if s > 0)
    unit = np.abs(mod - 1.0) <= unit_tol
    near = (np.abs(mod - 1.0) <= gap) & ~unit
    n_unstable = int(np.sum(mod > 1.0 + unit_tol))
    n_unit = int(np.sum(unit))
    n_stable = int(np.sum(mod < 1.0 - unit_tol))
    # repeated unit roots would give polynomial growth: not certified
    certified = (not near.any()) and n_unit <= len(lin.tnames)
    rank_cond = None
    if n_unstable == n_forward and np.all(np.isfinite(A)) and np.all(np.isfinite(B)):
        # Blanchard-Kahn rank condition by the oracle's own ordered QZ: the stable invariant subspace must map one-to-one
        # onto the predetermined (non-forward) part of xi; otherwise the counting verdict is accidental
        try:
            def stable_first(alpha, beta):
                with np.errstate(divide="ignore", invalid="ignore"):
                    return np.abs(beta) <= (1.0 + unit_tol) * np.abs(alpha)
            _, _, _, _, _, Zq = sla.ordqz(A, B, sort=stable_first, output="complex")
            nb = len(toks) - n_forward
            Z21 = Zq[n_forward:, :nb]
            rank_cond = float(np.linalg.cond(Z21)) if nb else 1.0
            if not np.isfinite(rank_cond) or rank_cond > 1e6:
                certified = False
        except Exception:
            certified = False
    if n_unstable == n_forward:
        verdict = "determinate"
    elif n_unstable > n_forward:
        verdict = "no_stable"
    else:
        verdict = "multiple_stable"
    return {
        "square": True, "certified": bool(certified), "verdict": verdict, "n_forward": n_forward,
        "n_unstable": n_unstable, "n_unit": n_unit, "n_stable": n_stable,
        "moduli": sorted(float(m) if np.isfinite(m) else float("inf") for m in mod),
        "rank_condition_cond": rank_cond,
        "tokens": toks,
    }


def linear_steady_exists(spec, params, flat):
    """own consistency test of the linear steady-state system: unknown levels (and changes when non-flat);
    equation e at dates 0 and 1:  sum coef*(L + C*(t+s)) + const = 0.  True iff a (not necessarily unique) solution exists."""
    lin = linearize(spec, {q["name"]: (0.0, 0.0) for q in spec["tvars"] + spec["mvars"]}, params)
    names = lin.tnames + lin.mnames
    idx = {n: i for i, n in enumerate(names)}
    n = len(names)
    rows, rhs = [], []
    for t in ((0,) if flat else (0, 1)):
        for coefs, const in list(zip(lin.teq, lin.const_t)) + list(zip(lin.meq, lin.const_m)):
            r = np.zeros(n if flat else 2 * n)
            for (nm, s_), cf in coefs.items():
                r[idx[nm]] += cf
                if not flat:
                    r[n + idx[nm]] += cf * (t + s_)
            rows.append(r)
            rhs.append(-const)
    A = np.array(rows)
    b = np.array(rhs)
    sol = np.linalg.lstsq(A, b, rcond=None)[0]
    res = np.max(np.abs(A @ sol - b)) if len(b) else 0.0
    sv = np.linalg.svd(A, compute_uv=False)
    # near-singular but consistent-by-rounding systems are not certified either
    consistent = bool(res <= 1e-10 * (1 + np.max(np.abs(b), initial=0)))
    if not sv.size or sv.max() == 0:
        # no unknown enters (pure random walk x = x[-1] + e): any level solves it iff the constants vanish
        return consistent
    small = sv[sv > 1e-12 * sv.max()].min()
    return consistent and bool(small / sv.max() > 1e-9)




def square_solution_consistent(T, model_eigenvalues, tol=1e-6):
    """Rank-condition certificate from a solved model's own outputs: the square transition matrix T must carry exactly the
    stable / unit roots the model reports. When an explosive backward root is offset in the COUNT by a stable forward block,
    the Blanchard-Kahn counting says "determinate" but no unique stable solution exists; the square solution is then
    degenerate (its eigenvalues no longer coincide with the reported stable roots). Such models are outside every
    "unique stable saddle path" quantifier."""
    ev = np.asarray(model_eigenvalues, dtype=complex)
    keep = np.sort(np.abs(ev[np.abs(ev) <= 1 + 1e-8]))
    evT = np.sort(np.abs(np.linalg.eigvals(np.asarray(T, dtype=float))))
    k = min(len(keep), len(evT))
    if not k:
        return True
    return bool(np.max(np.abs(keep[-k:] - evT[-k:])) <= tol)
