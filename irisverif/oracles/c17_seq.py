"""
c17_seq -- what "the simulated Sequential model holds" means, checked on plain arrays

No irispie import.  Inputs are
  spec    {"equations": [{"lhs", "transform", "identity", "rhs": tree}, ...]}   (c17_expr trees)
  params  [ {name: float}, ... ]          one dict per variant
  T       number of simulated periods; period offsets k are relative to the first simulated period
  inp/out Table objects: name -> (k0, array[periods, columns])   (input databox / output databox)
  cells   {(lhs_name, k): (kind, when_data)}  exogenized points, kind in none|log|diff|diff_log|roc|pct

check() returns a Report: counts of evaluated cells per class, inconclusive reasons, problems
[(key, message, detail)] where key names the mechanism.
"""

from __future__ import annotations

import collections
import math

from . import c17_expr as E

RTOL = 1e-10
KNOWN_RTOL = 1e-9


class Table:
    """name -> (k0, rows) with rows[i][col]; a single column is broadcast over variants"""

    def __init__(self, items=None):
        self.items = {}
        for name, (k0, rows) in (items or {}).items():
            self.put(name, k0, rows)

    def put(self, name, k0, rows):
        rows = [list(r) if isinstance(r, (list, tuple)) else [r] for r in _tolist(rows)]
        self.items[name] = (int(k0), rows)

    def __contains__(self, name):
        return name in self.items

    def names(self):
        return list(self.items)

    def range(self, name):
        k0, rows = self.items[name]
        return k0, k0 + len(rows)

    def get(self, name, k, v):
        it = self.items.get(name)
        if it is None:
            return E.NAN
        k0, rows = it
        i = k - k0
        if i < 0 or i >= len(rows):
            return E.NAN
        row = rows[i]
        if not row:
            return E.NAN
        val = row[v] if v < len(row) else row[-1]
        return float(val)


def _tolist(x):
    return x.tolist() if hasattr(x, "tolist") else x


class Report:
    def __init__(self):
        self.cells = collections.Counter()     # op class -> evaluated cells
        self.inconc = collections.Counter()
        self.problems = []                     # (key, message, detail)
        self.problem_counts = collections.Counter()
        self.max_rel = 0.0                     # largest |discrepancy| / (1+scale) among accepted cells

    def problem(self, key, message, detail=None):
        self.problem_counts[key] += 1
        if self.problem_counts[key] <= 2:
            self.problems.append((key, message, detail))


# ------------------------------------------------------------------------------
# Structure: which execution orders compute every value before it is read
# ------------------------------------------------------------------------------


def structure(spec):
    eqs = spec["equations"]
    lhs = [e["lhs"] for e in eqs]
    pos = {}
    dup = False
    for i, n in enumerate(lhs):
        if n in pos:
            dup = True
        pos.setdefault(n, i)
    max_lag = 0
    max_lead = 0
    all_refs = []
    for i, e in enumerate(eqs):
        r = E.refs(e["rhs"])
        if e["transform"] in E.LAGGED_TRANSFORMS:
            max_lag = max(max_lag, 1)
        for n, s in r:
            max_lag = max(max_lag, -s)
            max_lead = max(max_lead, s)
        all_refs.append(r)
    return {"lhs": lhs, "pos": pos, "dup": dup, "refs": all_refs, "max_lag": max_lag, "max_lead": max_lead}


def valid_orders(spec):
    """{"dates_equations": (bool, why), "equations_dates": (bool, why)}

    dates_equations: for t: for e   -> a zero-shift read of another LHS variable needs an earlier equation; a lead of
                     any LHS variable is read before it is computed; lags are always computed already.
    equations_dates: for e: for t   -> every read (any shift) of another LHS variable needs an earlier equation;
                     own variable only at lags.
    Reads that fall before the first simulated period are initial conditions and reads beyond the last simulated
    period are terminal conditions (never computed by anyone), so they never invalidate an order by themselves --
    but a lead t+s<=end is inside the span for some t whenever the span is longer than s, and we do not make the
    verdict depend on the span length: any lead of an LHS variable invalidates dates_equations.
    """
    st = structure(spec)
    res = {}
    if st["dup"]:
        why = "two equations share a left-hand variable"
        return {"dates_equations": (False, why), "equations_dates": (False, why)}
    ok, why = True, ""
    for i, r in enumerate(st["refs"]):
        for n, s in r:
            j = st["pos"].get(n)
            if j is None:
                continue
            if j == i:
                if s >= 0:
                    ok, why = False, f"equation {i} reads its own {n}[{s:+d}]"
            elif s > 0:
                ok, why = False, f"equation {i} reads the lead {n}[{s:+d}]"
            elif s == 0 and j > i:
                ok, why = False, f"equation {i} reads {n} determined by the later equation {j}"
    res["dates_equations"] = (ok, why)
    ok, why = True, ""
    for i, r in enumerate(st["refs"]):
        for n, s in r:
            j = st["pos"].get(n)
            if j is None:
                continue
            if j == i:
                if s >= 0:
                    ok, why = False, f"equation {i} reads its own {n}[{s:+d}]"
            elif j > i:
                ok, why = False, f"equation {i} reads {n}[{s:+d}] determined by the later equation {j}"
    res["equations_dates"] = (ok, why)
    return res


def resolve_plan(spec, plan_calls, T):
    """cells {(name, k): (kind, when_data)} from the list of exogenize calls (later calls overwrite earlier ones)"""
    can = [e["lhs"] for e in spec["equations"] if not e.get("identity")]
    cells = {}
    for call in plan_calls or []:
        names = call["names"]
        names = can if names == "all" else ([names] if isinstance(names, str) else list(names))
        dates = call["dates"]
        dates = list(range(T)) if dates == "all" else list(dates)
        kind = call.get("transform") or "none"
        if kind == "difflog":
            kind = "diff_log"
        if kind in ("level",):
            kind = "none"
        shift = int(call.get("shift", -1) or -1) if kind in E.LAGGED_TRANSFORMS else -1
        for n in names:
            for k in dates:
                cells[(n, int(k))] = (kind, bool(call.get("when_data")), shift, call.get("name_format"))   # shift: reference lag; name_format: custom databox name
    return cells


# ------------------------------------------------------------------------------
# The postcondition
# ------------------------------------------------------------------------------


def _finite(a):
    return a == a and abs(a) != math.inf


def _in_domain(transform, x_now, x_lag):
    if transform == "none":
        return True
    if transform == "log":
        return x_now > 0
    if transform == "diff":
        return True
    if transform == "diff_log":
        return x_now > 0 and x_lag > 0
    return x_lag != 0


def _cell_order(n_eq, T, order):
    if order == "equations_dates":
        return [(i, k) for i in range(n_eq) for k in range(T)]
    return [(i, k) for k in range(T) for i in range(n_eq)]


def check(spec, params, T, inp, out, cells, nv, shocks_from_data=True, order="dates_equations", rep=None):
    """Cells are visited in the execution order; a cell whose own evaluation is not finite (domain error, overflow,
    missing input) is UNDEFINED, and so is every later cell that reads it: those are inconclusive, whatever the
    output databox shows there."""
    rep = rep or Report()
    eqs = spec["equations"]
    lhs_names = {e["lhs"] for e in eqs}
    res_names = {"res_" + e["lhs"] for e in eqs if not e.get("identity")}
    static_refs = [E.refs(e["rhs"]) for e in eqs]

    for v in range(nv):
        P = params[v] if v < len(params) else params[-1]
        undefined = set()   # (lhs name, k) inside the span

        for i, k in _cell_order(len(eqs), T, order):
            eq = eqs[i]
            x = eq["lhs"]
            tr = eq["transform"]
            ident = bool(eq.get("identity"))
            res = None if ident else "res_" + x
            lagged = tr in E.LAGGED_TRANSFORMS

            def read(name, shift, k=k, v=v):
                kk = k + shift
                if 0 <= kk < T and (name in lhs_names or name in out):
                    return out.get(name, kk, v)
                return inp.get(name, kk, v)

            where = {"equation": i, "lhs": x, "transform": tr, "k": k, "variant": v}
            cell = None if ident else cells.get((x, k))
            exo = False
            datum = E.NAN
            if cell is not None:
                kind, wd = cell[0], cell[1]
                fmt_ = cell[3] if len(cell) > 3 else None
                datum = inp.get(fmt_.format(x) if fmt_ else E.PLAN_PREFIX[kind] + x, k, v)
                if datum != datum:
                    if not wd:
                        rep.inconc["exogenized-point-without-datum"] += 1
                        undefined.add((x, k))
                        continue
                else:
                    exo = True
            plan_lagged = exo and cell[0] in E.LAGGED_TRANSFORMS
            plan_shift = (cell[2] if len(cell) > 2 else -1) if plan_lagged else -1
            need_lag = lagged or plan_lagged
            reads_undefined = any((n, k + s) in undefined for n, s in static_refs[i])
            lag_undefined = (lagged and (x, k - 1) in undefined) or (plan_lagged and (x, k + plan_shift) in undefined)
            st = E.Scale()
            rhs = E.ev(eq["rhs"], read, P, st)
            x_now = st.see(read(x, 0))
            x_lag = st.see(read(x, -1)) if need_lag else 0.0
            x_lag_plan = st.see(read(x, plan_shift)) if plan_lagged else x_lag   # reference value of the plan transform
            if ident:
                r_out = 0.0
                r_in = 0.0
                r_in_eff, r_in_given = 0.0, False
            else:
                r_out = out.get(res, k, v)
                r_in = inp.get(res, k, v) if shocks_from_data else 0.0
                if r_in != r_in:
                    r_in_eff, r_in_given = 0.0, False
                else:
                    r_in_eff, r_in_given = r_in, True
            st.see(r_out)

            if exo:
                kind = cell[0]
                if lag_undefined or not _finite(x_lag) or not _finite(x_lag_plan):
                    rep.inconc["exogenized:lag-undefined"] += 1
                    undefined.add((x, k))
                    continue
                implied = E.implied_level(kind, datum, x_lag_plan)
                if not _finite(implied):
                    rep.inconc["exogenized:implied-level-not-finite"] += 1
                    undefined.add((x, k))
                    continue
                opclass = f"exogenized:{kind}" + ("?" if cell[1] else "") + f"->{tr}"
                tol_x = RTOL * (1.0 + abs(implied) + abs(x_lag_plan) + abs(datum))
                rep.cells["exogenized-level:" + kind + ("" if plan_shift == -1 else ":shift")] += 1
                if not abs(x_now - implied) <= tol_x:
                    rep.problem(f"exogenized:lhs-not-implied-value:{kind}",
                                f"{x}[k={k}] = {x_now!r} but the exogenized {kind} datum {datum!r} implies {implied!r}",
                                dict(where, kind=kind, datum=datum, implied=implied, got=x_now, lag=x_lag))
                if reads_undefined or not _finite(rhs) or not _in_domain(tr, implied, x_lag):
                    rep.inconc["exogenized:equation-not-evaluable"] += 1
                    continue
                tv = st.see(E.transform_value(tr, x_now, x_lag, st))
                tol = RTOL * (1.0 + st.v)
                disc = tv - (rhs + r_out)
                rep.cells[opclass] += 1
                if abs(disc) <= tol:
                    rep.max_rel = max(rep.max_rel, abs(disc) / (1.0 + st.v))
                    continue
                detail = dict(where, kind=kind, lhs_transform_value=tv, rhs_without_residual=rhs, residual_out=r_out,
                              residual_in=r_in_eff, discrepancy=disc, tol=tol)
                if r_in_eff != 0.0 and abs(disc - r_in_eff) <= KNOWN_RTOL * (1.0 + st.v):
                    rep.problem("exogenized:residual-ignores-input-residual",
                                f"exogenized {x}[k={k}]: {tr}(lhs) - rhs - residual = {disc!r} = the input residual {r_in_eff!r}; "
                                f"the output residual {r_out!r} was computed net of the residual already in the data",
                                detail)
                else:
                    rep.problem(f"exogenized:equation-violated:{tr}",
                                f"exogenized {x}[k={k}]: {tr}(lhs)={tv!r} rhs={rhs!r} residual_out={r_out!r} discrepancy={disc!r} (tol {tol:.3g})",
                                detail)
                continue

            # ordinary simulated point
            if reads_undefined or lag_undefined:
                rep.inconc["depends-on-undefined-cell"] += 1
                undefined.add((x, k))
                continue
            if not _finite(rhs) or not _finite(x_lag):
                rep.inconc["rhs-or-lag-not-finite"] += 1
                undefined.add((x, k))
                continue
            if lagged and not _in_domain(tr, 1.0, x_lag):
                rep.inconc["lag-outside-transform-domain"] += 1
                undefined.add((x, k))
                continue
            if _finite(r_out):
                level = E.implied_level(tr, rhs + r_out, x_lag)
                if not _finite(level) or (tr in ("log", "diff_log") and abs(level) < 1e-290):
                    rep.inconc["level-not-representable(overflow/underflow)"] += 1
                    undefined.add((x, k))
                    continue
            tv = st.see(E.transform_value(tr, x_now, x_lag, st))
            tol = RTOL * (1.0 + st.v)
            disc = tv - (rhs + r_out)
            opclass = ("identity:" if ident else "equation:") + tr
            if cell is not None:
                opclass = f"when_data-missing:{cell[0]}->{tr}"
            rep.cells[opclass] += 1
            if abs(disc) <= tol:
                rep.max_rel = max(rep.max_rel, abs(disc) / (1.0 + st.v))
            else:
                key = ("identity-violated:" if ident else "equation-violated:") + tr
                if cell is not None:
                    key = "when_data-missing:" + key
                rep.problem(key,
                            f"{x}[k={k}] variant {v}: {tr}(lhs)={tv!r} but rhs+residual={rhs + r_out!r} (rhs={rhs!r}, residual={r_out!r}, "
                            f"lhs level={x_now!r}, discrepancy={disc!r}, tol {tol:.3g})",
                            dict(where, lhs_transform_value=tv, rhs_without_residual=rhs, residual_out=r_out, level=x_now,
                                 lag=x_lag, discrepancy=disc, tol=tol))
                if not _finite(x_now):
                    undefined.add((x, k))
            if not ident and shocks_from_data and r_in_given:
                rep.cells["residual-kept"] += 1
                if not r_out == r_in:
                    rep.problem("residual-changed-at-non-exogenized-point",
                                f"{res}[k={k}] variant {v}: input {r_in!r}, output {r_out!r}",
                                dict(where, residual_in=r_in, residual_out=r_out))

    # ---- data that simulate has no business changing (one event per series, variant and class, not per period)
    compared = set()
    for name in out.names():
        if name not in inp:
            continue
        o0, o1 = out.range(name)
        is_lhs = name in lhs_names
        is_res = name in res_names
        for v in range(nv):
            for k in range(o0, o1):
                inside = 0 <= k < T
                if inside and (is_lhs or is_res):
                    continue
                a = inp.get(name, k, v)
                if a != a:
                    continue
                b = out.get(name, k, v)
                cls = "rhs-only-inside-span" if inside else "outside-span"
                compared.add((name, v, cls))
                if not a == b:
                    rep.problem(f"input-data-changed:{cls}",
                                f"{name}[k={k}] variant {v}: input {a!r}, output {b!r}",
                                {"name": name, "k": k, "variant": v, "input": a, "output": b})
    for _, _, cls in compared:
        rep.cells["untouched:" + cls] += 1
    return rep
