"""
c17_expr -- expression trees of Sequential-model equations: direct evaluator, renderer, references

Independent of irispie: equations are generated as trees (JSON lists) and only RENDERED to model
text for irispie; the oracle evaluates the tree itself with Python floats.

Nodes
  ["num", 0.25]                      literal (always exactly representable by its rendered text)
  ["par", "rho"]                     parameter
  ["var", "x", -2]                   variable at a time shift
  ["neg", e]
  ["+", a, b] ["-", a, b] ["*", a, b] ["/", a, b] ["^", a, b]
  ["call", "log"|"exp"|"sqrt"|"abs"|"logistic"|"maximum"|"minimum", e, ...]
  ["pf", "diff"|"diff_log"|"roc"|"pct", "x", shift, by]    pseudofunction of x[shift] against x[shift+by], by<0
"""

from __future__ import annotations

import math

NAN = float("nan")
TRANSFORMS = ("none", "log", "diff", "diff_log", "roc", "pct")
LAGGED_TRANSFORMS = ("diff", "diff_log", "roc", "pct")
PLAN_PREFIX = {"none": "", "log": "log_", "diff": "diff_", "diff_log": "diff_log_", "roc": "roc_", "pct": "pct_"}


# ------------------------------------------------------------------------------
# numeric primitives with IEEE (numpy-like) semantics, never raising
# ------------------------------------------------------------------------------


def _log(a):
    if a != a or a < 0:
        return NAN
    if a == 0:
        return -math.inf
    return math.log(a)


def _exp(a):
    try:
        return math.exp(a)
    except OverflowError:
        return math.inf


def _sqrt(a):
    if a != a or a < 0:
        return NAN
    return math.sqrt(a)


def _div(a, b):
    if b == 0:
        if a != a or a == 0:
            return NAN
        return math.copysign(math.inf, a) * math.copysign(1.0, b)
    return a / b


def _pow(a, b):
    try:
        r = a ** b
    except ZeroDivisionError:
        return math.inf
    except OverflowError:
        return math.inf
    if isinstance(r, complex):
        return NAN
    return r


def _logistic(a):
    if a >= 0:
        return 1.0 / (1.0 + _exp(-a))
    e = _exp(a)
    return e / (1.0 + e)


def _mul(a, b):
    try:
        return a * b
    except OverflowError:  # pragma: no cover (floats do not raise)
        return math.inf


_CALLS = {
    "log": lambda a: _log(a),
    "exp": lambda a: _exp(a),
    "sqrt": lambda a: _sqrt(a),
    "abs": lambda a: abs(a),
    "logistic": lambda a: _logistic(a),
    "maximum": lambda a, b: (NAN if (a != a or b != b) else max(a, b)),
    "minimum": lambda a, b: (NAN if (a != a or b != b) else min(a, b)),
}


class Scale:
    """largest magnitude met while evaluating (leaves and intermediate results)"""
    __slots__ = ("v",)

    def __init__(self):
        self.v = 0.0

    def see(self, a):
        if a == a and abs(a) != math.inf and abs(a) > self.v:
            self.v = abs(a)
        return a


def pseudo(fname, a, b, st=None):
    """value of the pseudofunction for current value a and earlier value b"""
    if fname == "diff":
        return a - b
    if fname == "diff_log":
        la, lb = _log(a), _log(b)
        if st is not None:
            st.see(la), st.see(lb)
        return la - lb
    if fname == "roc":
        return _div(a, b)
    if fname == "pct":
        q = _div(100.0 * a, b)
        if st is not None:
            st.see(q)
        return q - 100.0
    raise ValueError(fname)


def transform_value(transform, x_now, x_lag, st=None):
    """value of the left-hand side transform(x)_t given x_t and x_{t-1}"""
    if transform == "none":
        return x_now
    if transform == "log":
        return _log(x_now)
    return pseudo(transform, x_now, x_lag, st)


def implied_level(kind, datum, x_lag):
    """level of x_t implied by an exogenized datum of the given kind"""
    if kind == "none":
        return datum
    if kind == "log":
        return _exp(datum)
    if kind == "diff":
        return x_lag + datum
    if kind == "diff_log":
        return x_lag * _exp(datum)
    if kind == "roc":
        return x_lag * datum
    if kind == "pct":
        return x_lag * (1.0 + datum / 100.0)
    raise ValueError(kind)


def ev(node, read, par, st):
    """evaluate; read(name, shift) -> float, par: {name: float}, st: Scale"""
    op = node[0]
    if op == "num":
        return st.see(float(node[1]))
    if op == "par":
        return st.see(float(par[node[1]]))
    if op == "var":
        return st.see(read(node[1], node[2]))
    if op == "neg":
        return -ev(node[1], read, par, st)
    if op == "pf":
        _, fname, name, shift, by = node
        a = st.see(read(name, shift))
        b = st.see(read(name, shift + by))
        return st.see(pseudo(fname, a, b, st))
    if op == "call":
        args = [ev(a, read, par, st) for a in node[2:]]
        return st.see(_CALLS[node[1]](*args))
    a = ev(node[1], read, par, st)
    b = ev(node[2], read, par, st)
    if op == "+":
        r = a + b
    elif op == "-":
        r = a - b
    elif op == "*":
        r = _mul(a, b)
    elif op == "/":
        r = _div(a, b)
    elif op == "^":
        r = _pow(a, b)
    else:
        raise ValueError(op)
    return st.see(r)


def refs(node, out=None):
    """every (name, shift) read by the expression (pseudofunctions expanded)"""
    if out is None:
        out = []
    op = node[0]
    if op == "var":
        out.append((node[1], int(node[2])))
    elif op == "pf":
        out.append((node[2], int(node[3])))
        out.append((node[2], int(node[3]) + int(node[4])))
    elif op in ("num", "par"):
        pass
    elif op == "call":
        for a in node[2:]:
            refs(a, out)
    else:
        for a in node[1:]:
            refs(a, out)
    return out


def pars(node, out=None):
    if out is None:
        out = set()
    op = node[0]
    if op == "par":
        out.add(node[1])
    elif op in ("num", "var", "pf"):
        pass
    elif op == "call":
        for a in node[2:]:
            pars(a, out)
    else:
        for a in node[1:]:
            pars(a, out)
    return out


# ------------------------------------------------------------------------------
# Rendering to irispie model text
# ------------------------------------------------------------------------------


def fmt_num(v):
    """fixed-point text (irispie reads 'e' of 1e-05 as a name); spec numbers are made with q() so that
    float(text) == v exactly"""
    s = f"{abs(float(v)):.6f}".rstrip("0")
    if s.endswith("."):
        s += "0" if len(s) > 1 else "0"
    return s


def q(v):
    """quantize a number so that its fixed-point rendering is exact"""
    return float(f"{float(v):.6f}")


class Style:
    """syntactic alternatives, drawn once per model"""

    def __init__(self, rng=None):
        r = (lambda: 0.0) if rng is None else rng.random
        self.curly = r() < 0.25
        self.power = "**" if r() < 0.3 else "^"
        self.space = r() < 0.5
        self.plus_shift = r() < 0.5
        self.difflog_alias = r() < 0.3
        self.explicit_by = r() < 0.2


def _shift_text(name, shift, sty):
    if shift == 0:
        return name
    s = f"{shift:+d}" if (shift < 0 or sty.plus_shift) else f"{shift:d}"
    return f"{name}{{{s}}}" if sty.curly else f"{name}[{s}]"


def render(node, sty, top=False):
    """text of the expression; everything non-atomic is parenthesised (no reliance on precedence)"""
    op = node[0]
    sp = " " if sty.space else ""
    if op == "num":
        v = float(node[1])
        t = fmt_num(v)
        return f"(-{t})" if (v < 0 or (v == 0 and math.copysign(1, v) < 0)) else t
    if op == "par":
        return node[1]
    if op == "var":
        return _shift_text(node[1], node[2], sty)
    if op == "neg":
        return f"(-{render(node[1], sty)})"
    if op == "pf":
        _, fname, name, shift, by = node
        fn = "difflog" if (fname == "diff_log" and sty.difflog_alias) else fname
        arg = _shift_text(name, shift, sty)
        if by != -1 or sty.explicit_by:
            return f"{fn}({arg},{sp}{by:d})"
        return f"{fn}({arg})"
    if op == "call":
        return f"{node[1]}(" + f",{sp}".join(render(a, sty, top=True) for a in node[2:]) + ")"
    a = render(node[1], sty)
    b = render(node[2], sty)
    sym = sty.power if op == "^" else op
    if op == "^":
        body = f"{a}{sym}{b}"
    else:
        body = f"{a}{sp}{sym}{sp}{b}"
    return body if top else f"({body})"


def render_top(node, sty):
    """top level of a right-hand side: the left spine of +/- is written without parentheses"""
    sp = " " if sty.space else ""
    op = node[0]
    if op in ("+", "-"):
        return f"{render_top(node[1], sty)}{sp}{op}{sp}{render(node[2], sty)}"
    if op == "neg":
        return f"-{render(node[1], sty)}"
    return render(node, sty, top=True)


def sum_node(terms):
    """the tree of a signed sum [(sign, node)], left-nested (render_top writes it without parentheses)"""
    node = None
    for sign, t in terms:
        if node is None:
            node = ["neg", t] if sign < 0 else t
        else:
            node = ["-" if sign < 0 else "+", node, t]
    return node


def render_lhs(name, transform, sty):
    if transform == "none":
        return name
    if transform == "diff_log" and sty.difflog_alias:
        return f"difflog({name})"
    return f"{transform}({name})"


def render_equation(eq, sty):
    rhs = render_top(eq["rhs"], sty)
    sign = "===" if eq.get("identity") else "="
    sp = " " if sty.space else ""
    return f"{render_lhs(eq['lhs'], eq['transform'], sty)}{sp}{sign}{sp}{rhs};"
