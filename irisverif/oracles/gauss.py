"""
Dense joint-Gaussian oracle for a linear state space over a span (no irispie imports).

    xi_t = T xi_{t-1} + K + P u_t + imp_t         u_t ~ N(ubar_t, diag(su_t^2))
    y_t  = Z xi_t + D + H w_t                      w_t ~ N(wbar_t, diag(sw_t^2))
    xi_0 ~ N(mu0, S0)  (+ optional fixed unknown component  xi_0 += E delta)

All quantities are affine functions of the primitive vector s = [xi_0; u_1..u_N; w_1..w_N]; conditioning on the
observed cells of y is done with plain numpy linear algebra (no recursion), so prediction (given y_1..t-1),
updating (y_1..t) and smoothing (y_1..N) moments, the log density and per-period contributions come from one
joint covariance matrix.
"""

from __future__ import annotations

import numpy as np


def stationary_init(T, K, P, su):
    """mu0 = (I-T)^-1 K, S0 solves S0 = T S0 T' + P diag(su^2) P' (Kronecker solve)"""
    n = T.shape[0]
    mu0 = np.linalg.solve(np.eye(n) - T, K)
    Q = P @ np.diag(np.asarray(su, dtype=float) ** 2) @ P.T
    S0 = np.linalg.solve(np.eye(n * n) - np.kron(T, T), Q.reshape(-1)).reshape(n, n)
    return mu0, (S0 + S0.T) / 2


class Joint:
    def __init__(self, T, K, P, Z, D, H, mu0, S0, su, sw, ubar=None, wbar=None, imp=None, N=1):
        n, nu = P.shape
        ny, nw = H.shape if H.size else (Z.shape[0], 0)
        self.n, self.nu, self.ny, self.nw, self.N = n, nu, ny, nw, N
        dim = n + N * nu + N * nw
        self.dim = dim
        su = np.asarray(su, dtype=float).reshape(nu, N) if nu else np.zeros((0, N))
        sw = np.asarray(sw, dtype=float).reshape(nw, N) if nw else np.zeros((0, N))
        ubar = np.zeros((nu, N)) if ubar is None else np.asarray(ubar, dtype=float).reshape(nu, N)
        wbar = np.zeros((nw, N)) if wbar is None else np.asarray(wbar, dtype=float).reshape(nw, N)
        imp = np.zeros((n, N)) if imp is None else np.asarray(imp, dtype=float).reshape(n, N)
        m = np.zeros(dim)
        S = np.zeros((dim, dim))
        m[:n] = mu0
        S[:n, :n] = S0
        for t in range(N):
            a = n + t * nu
            m[a:a + nu] = ubar[:, t]
            S[a:a + nu, a:a + nu] = np.diag(su[:, t] ** 2)
            b = n + N * nu + t * nw
            m[b:b + nw] = wbar[:, t]
            S[b:b + nw, b:b + nw] = np.diag(sw[:, t] ** 2)
        self.m_s, self.S_s = m, S
        # affine maps
        self.A_xi, self.c_xi, self.A_y, self.c_y, self.A_u, self.A_w = [], [], [], [], [], []
        A_prev = np.zeros((n, dim))
        A_prev[:, :n] = np.eye(n)
        c_prev = np.zeros(n)
        for t in range(N):
            Eu = np.zeros((nu, dim))
            Eu[:, n + t * nu:n + (t + 1) * nu] = np.eye(nu)
            Ew = np.zeros((nw, dim))
            Ew[:, n + N * nu + t * nw:n + N * nu + (t + 1) * nw] = np.eye(nw)
            A = T @ A_prev + P @ Eu
            c = T @ c_prev + K + imp[:, t]
            self.A_xi.append(A)
            self.c_xi.append(c)
            self.A_y.append(Z @ A + (H @ Ew if nw else 0))
            self.c_y.append(Z @ c + D)
            self.A_u.append(Eu)
            self.A_w.append(Ew)
            A_prev, c_prev = A, c

    def set_observations(self, Y):
        """Y: ny x N with NaN for missing"""
        Y = np.asarray(Y, dtype=float).reshape(self.ny, self.N)
        self.Y = Y
        rows, cons, vals, tags = [], [], [], []
        for t in range(self.N):
            for i in range(self.ny):
                if np.isfinite(Y[i, t]):
                    rows.append(self.A_y[t][i])
                    cons.append(self.c_y[t][i])
                    vals.append(Y[i, t])
                    tags.append((t, i))
        self.A_obs = np.array(rows).reshape(len(rows), self.dim)
        self.c_obs = np.array(cons)
        self.y_obs = np.array(vals)
        self.tags = tags
        self.m_obs = self.A_obs @ self.m_s + self.c_obs
        self.S_obs = self.A_obs @ self.S_s @ self.A_obs.T
        self.S_obs = (self.S_obs + self.S_obs.T) / 2

    def cond(self, A, c, upto):
        """conditional mean and covariance of q = A s + c given observations dated < upto (period index, exclusive)"""
        sel = [k for k, (t, _) in enumerate(self.tags) if t < upto]
        mq = A @ self.m_s + c
        Sq = A @ self.S_s @ A.T
        if not sel:
            return mq, Sq
        So = self.S_obs[np.ix_(sel, sel)]
        Cqo = A @ self.S_s @ self.A_obs[sel].T
        G = np.linalg.solve(So, Cqo.T).T
        mean = mq + G @ (self.y_obs[sel] - self.m_obs[sel])
        cov = Sq - G @ Cqo.T
        return mean, cov

    def cond_number(self):
        if self.S_obs.size == 0:
            return 1.0
        sv = np.linalg.svd(self.S_obs, compute_uv=False)
        return float(sv[0] / sv[-1]) if sv[-1] > 0 else float("inf")

    def neg_log_density(self):
        k = len(self.y_obs)
        if k == 0:
            return 0.0, 0.0, 0
        sign, logdet = np.linalg.slogdet(self.S_obs)
        r = self.y_obs - self.m_obs
        quad = float(r @ np.linalg.solve(self.S_obs, r))
        return 0.5 * (k * np.log(2 * np.pi) + logdet + quad), quad, k

    def contributions(self):
        """-log p(y_t | y_1..t-1) per period, by the chain rule on the joint density"""
        out = np.zeros(self.N)
        Fs, pes = [], []
        for t in range(self.N):
            sel_t = [k for k, (tt, _) in enumerate(self.tags) if tt == t]
            if not sel_t:
                Fs.append(None)
                pes.append(None)
                continue
            mean, cov = self.cond(self.A_obs[sel_t], self.c_obs[sel_t], t)
            pe = self.y_obs[sel_t] - mean
            cov = (cov + cov.T) / 2
            sign, logdet = np.linalg.slogdet(cov)
            out[t] = 0.5 * (len(sel_t) * np.log(2 * np.pi) + logdet + float(pe @ np.linalg.solve(cov, pe)))
            Fs.append(cov)
            pes.append(pe)
        return out, Fs, pes
