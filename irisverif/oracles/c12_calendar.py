"""
C12 calendar oracle -- periods as (frequency, ordinal), membership by datetime only

Nothing from irispie is imported here. A calendar frequency is one of
1 (yearly), 2 (half-yearly), 4 (quarterly), 12 (monthly), 365 (daily).

    regular ordinal = year * f + (segment - 1)       (own convention, never compared with irispie serials)
    daily ordinal   = datetime.date.toordinal()

The only definition of membership used anywhere in C12: a higher-frequency period h is a member
of the lower-frequency period p iff  start_day(p) <= start_day(h) <= end_day(p).
"""

from __future__ import annotations

import calendar as _ca
import datetime as _dt

REGULAR = (1, 2, 4, 12)
DAILY = 365
CALENDAR = REGULAR + (DAILY,)
LETTER = {1: "Y", 2: "H", 4: "Q", 12: "M", 365: "D"}


def ordinal_from_label(f, label):
    """label = (year, segment) for regular frequencies, (year, month, day) for daily"""
    f = int(f)
    if f == DAILY:
        y, m, d = label
        return _dt.date(int(y), int(m), int(d)).toordinal()
    y, s = label
    if not 1 <= int(s) <= f:
        raise ValueError(f"segment {s} outside 1..{f}")
    return int(y) * f + int(s) - 1


def label_from_ordinal(f, o):
    f = int(f)
    if f == DAILY:
        d = _dt.date.fromordinal(int(o))
        return (d.year, d.month, d.day)
    return (int(o) // f, int(o) % f + 1)


def start_day(f, o):
    f = int(f)
    if f == DAILY:
        return _dt.date.fromordinal(int(o))
    y, s = label_from_ordinal(f, o)
    months_per = 12 // f
    return _dt.date(y, (s - 1) * months_per + 1, 1)


def end_day(f, o):
    f = int(f)
    if f == DAILY:
        return _dt.date.fromordinal(int(o))
    y, s = label_from_ordinal(f, o)
    months_per = 12 // f
    last_month = s * months_per
    return _dt.date(y, last_month, _ca.monthrange(y, last_month)[1])


def containing(f, day):
    """ordinal of the f-period that contains the calendar day"""
    f = int(f)
    if f == DAILY:
        return day.toordinal()
    months_per = 12 // f
    return day.year * f + (day.month - 1) // months_per


def members(low_f, low_o, high_f):
    """ordinals of the high_f periods whose start day lies in the low_f period low_o (increasing)"""
    lo_day, hi_day = start_day(low_f, low_o), end_day(low_f, low_o)
    h = containing(high_f, lo_day)
    # the high period containing the first day starts on or before it; skip it if it starts before
    while start_day(high_f, h) < lo_day:
        h += 1
    out = []
    while start_day(high_f, h) <= hi_day:
        out.append(h)
        h += 1
    return out


def parent(low_f, high_f, high_o):
    """ordinal of the low_f period the high_f period high_o is a member of"""
    return containing(low_f, start_day(high_f, high_o))


def has_leap_day(f, first_o, last_o):
    """does [start_day(first), end_day(last)] contain a 29 February"""
    a, b = start_day(f, first_o), end_day(f, last_o)
    for y in range(a.year, b.year + 1):
        if _ca.isleap(y) and a <= _dt.date(y, 2, 29) <= b:
            return True
    return False


def start_class(f, o, other_f):
    """position of the period within the enclosing period of the coarser of (f, other_f): 'first' | 'inner' | 'last' | 'only'"""
    low = min(int(f), int(other_f))
    if int(f) == low:
        return "low"
    p = parent(low, f, o)
    mem = members(low, p, f)
    if len(mem) == 1:
        return "only"
    if o == mem[0]:
        return "first"
    if o == mem[-1]:
        return "last"
    return "inner"
