"""
Reference model for C13 (temporal change / cumulation transforms). numpy + datetime only, no irispie imports.

A series is a snapshot (start_serial | None, data[n_periods, n_variants], freq_value); NaN = missing.
Period serials: regular frequencies year*f + segment - 1; daily = proleptic Gregorian ordinal; integer = the number itself.
Everything is evaluated period by period from the documented formulas

    diff  x_t - x_s          diff_log  log x_t - log x_s        pct  100 (x_t/x_s - 1)        roc  x_t/x_s
    adiff a (x_t - x_{t-1})  adiff_log a (log x_t - log x_{t-1}) apct 100 ((x_t/x_{t-1})^a - 1) aroc (x_t/x_{t-1})^a

with a = frequency value (1 for integer frequency), s = t-k for shift=-k, and for keyword shifts
    yoy  s = t - a        soy  s = first segment of the year of t       eopy  s = last segment of the previous year
    tty  s = t-1 except in the first segment of a year where "the value of the resulting series is unchanged" (= x_t)
A missing operand gives a missing result.
"""

from __future__ import annotations

import datetime as _dt

import numpy as np

REGULAR = (1, 2, 4, 12)
KEYWORDS = ("yoy", "soy", "eopy", "tty")
FREQ_LETTER = {1: "Y", 2: "H", 4: "Q", 12: "M", 365: "D", 0: "I"}


def annual_factor(freq):
    return freq if freq and freq > 0 else 1


def year_segment(freq, serial):
    if freq in REGULAR:
        return serial // freq, serial % freq + 1
    if freq == 365:
        d = _dt.date.fromordinal(serial)
        return d.year, (d - _dt.date(d.year, 1, 1)).days + 1
    raise ValueError("no calendar for this frequency")


def reference_serial(freq, serial, shift):
    """serial of the reference period; None = start-of-year period under 'tty'"""
    if not isinstance(shift, str):
        return serial + int(shift)
    if shift == "yoy":
        return serial - freq
    _, seg = year_segment(freq, serial)
    if shift == "soy":
        return serial - (seg - 1)
    if shift == "eopy":
        return serial - seg
    if shift == "tty":
        return serial - 1 if seg > 1 else None
    raise ValueError(shift)


def row(snap, serial):
    start, data, _ = snap
    if start is None or serial < start or serial >= start + data.shape[0]:
        return np.full(data.shape[1], np.nan)
    return data[serial - start]


def _formula(func, X, R, a):
    """returns (value, tolerance) elementwise; NaN where an operand is missing"""
    with np.errstate(all="ignore"):
        if func == "diff":
            v = X - R
            tol = 1e-12 * (np.abs(X) + np.abs(R))
        elif func == "adiff":
            v = a * (X - R)
            tol = 1e-12 * a * (np.abs(X) + np.abs(R))
        elif func == "diff_log":
            v = np.log(X) - np.log(R)
            tol = 1e-12 * (np.abs(np.log(X)) + np.abs(np.log(R)) + 1)
        elif func == "adiff_log":
            v = a * (np.log(X) - np.log(R))
            tol = 1e-12 * a * (np.abs(np.log(X)) + np.abs(np.log(R)) + 1)
        elif func == "roc":
            v = X / R
            tol = 1e-12 * np.abs(v)
        elif func == "aroc":
            v = (X / R) ** a
            tol = 1e-12 * a * np.abs(v)
        elif func == "pct":
            v = 100 * (X / R - 1)
            tol = 1e-10 * (np.abs(X / R) + 1)
        elif func == "apct":
            v = 100 * ((X / R) ** a - 1)
            tol = 1e-10 * a * (np.abs((X / R) ** a) + 1)
        else:
            raise ValueError(func)
        tol = tol + 1e-9 * np.abs(v)
    return v, tol


LOG_FUNCS = ("diff_log", "adiff_log")
RATIO_FUNCS = ("roc", "aroc", "pct", "apct")


def change_expected(snap, func, shift):
    """Expected result of a change function on the span of the input.
    Returns (E, TOL, DECIDED, SOY) arrays shaped like the data: DECIDED False where the oracle makes no claim
    (operands outside the domain of the formula, or documented behaviour not decided), SOY marks 'tty' start-of-year rows."""
    start, data, freq = snap
    n, nv = data.shape
    a = annual_factor(freq)
    R = np.full((n, nv), np.nan)
    soy = np.zeros(n, dtype=bool)
    for i in range(n):
        ref = reference_serial(freq, start + i, shift)
        if ref is None:
            soy[i] = True
        else:
            R[i] = row(snap, ref)
    X = data
    E, TOL = _formula(func, X, R, a)
    decided = np.ones((n, nv), dtype=bool)
    both = ~np.isnan(X) & ~np.isnan(R)
    with np.errstate(all="ignore"):
        if func in LOG_FUNCS:
            decided &= ~both | ((X > 0) & (R > 0))
        if func in RATIO_FUNCS:
            decided &= ~both | (R != 0)
        if func in ("aroc", "apct"):
            decided &= ~both | (X / np.where(R == 0, np.nan, R) > 0) | (a == 1)
    E = np.where(both, E, np.nan)
    # 'tty' start-of-year rows: documented as "unchanged"
    SOY = np.zeros((n, nv), dtype=bool)
    if soy.any():
        E[soy] = X[soy]
        TOL[soy] = 1e-12 * np.abs(np.where(np.isnan(X[soy]), 0.0, X[soy]))
        SOY[soy] = True
        decided[soy] = True
        if func in ("pct", "apct"):
            decided[soy] = False     # no neutral value exists; the implementation returns missing -- not decided
    decided &= ~(np.isinf(E))
    TOL = np.where(np.isnan(TOL), 0.0, TOL)
    return E, TOL, decided, SOY


def compare_on_span(result_snap, lo, E, TOL, decided):
    """Compare a result snapshot with expected values on serials lo..lo+n-1 and require it to be empty elsewhere.
    Returns list of (kind, serial_offset, variant, expected, got)."""
    n, nv = E.shape
    out = []
    rstart, rdata, _ = result_snap
    if rdata.shape[1] != nv:
        return [("variants", 0, 0, nv, rdata.shape[1])]
    G = np.full((n, nv), np.nan)
    if rstart is not None and rdata.shape[0]:
        a, b = max(lo, rstart), min(lo + n - 1, rstart + rdata.shape[0] - 1)
        if a <= b:
            G[a - lo:b - lo + 1] = rdata[a - rstart:b - rstart + 1]
        # anything outside the window must be missing
        before = rdata[:max(0, min(rdata.shape[0], lo - rstart))]
        after = rdata[max(0, lo + n - rstart):]
        for blk, off in ((before, rstart - lo), (after, max(lo + n, rstart) - lo)):
            if blk.size and not np.all(np.isnan(blk)):
                i, v = np.argwhere(~np.isnan(blk))[0]
                out.append(("outside", int(off + i), int(v), float("nan"), float(blk[i, v])))
    en, gn = np.isnan(E), np.isnan(G)
    bad_nan = decided & (en != gn)
    with np.errstate(all="ignore"):
        bad_val = decided & ~en & ~gn & ~(np.abs(G - E) <= TOL)
    for kind, mask in (("missing-pattern", bad_nan), ("value", bad_val)):
        if mask.any():
            i, v = np.argwhere(mask)[0]
            out.append((kind, int(i), int(v), float(E[i, v]), float(G[i, v])))
    return out


# ------------------------------------------------------------------------------
# Conversion helpers (elementwise)
# ------------------------------------------------------------------------------


def helper_expected(name, data, freq):
    a = annual_factor(freq)
    with np.errstate(all="ignore"):
        if name == "roc_from_pct":
            v = 1 + data / 100
            decided = np.ones(data.shape, dtype=bool)
        elif name == "pct_from_roc":
            v = 100 * (data - 1)
            decided = np.ones(data.shape, dtype=bool)
        elif name == "pct_from_apct":
            base = 1 + data / 100
            v = 100 * (base ** (1 / a) - 1)
            decided = (base > 0) | np.isnan(base) | (a == 1)
        elif name == "roc_from_apct":
            base = 1 + data / 100
            v = base ** (1 / a)
            decided = (base > 0) | np.isnan(base) | (a == 1)
        elif name == "roc_from_aroc":
            v = data ** (1 / a)
            decided = (data > 0) | np.isnan(data) | (a == 1)
        else:
            raise ValueError(name)
        tol = 1e-10 * (np.abs(v) + 1) + 1e-12 * np.abs(data)
    decided = decided & ~np.isinf(v)
    return v, np.where(np.isnan(tol), 0.0, tol), decided


# ------------------------------------------------------------------------------
# Cumulation
# ------------------------------------------------------------------------------

_FORWARD = {
    "diff": lambda past, ch: past + ch,
    "diff_log": lambda past, ch: past * np.exp(ch),
    "pct": lambda past, ch: past * (1 + ch / 100),
    "roc": lambda past, ch: past * ch,
}
_BACKWARD = {
    "diff": lambda fut, ch: fut - ch,
    "diff_log": lambda fut, ch: fut / np.exp(ch),
    "pct": lambda fut, ch: fut / (1 + ch / 100),
    "roc": lambda fut, ch: fut / ch,
}
DEFAULT_INITIAL = {"diff": 0.0, "diff_log": 0.0, "pct": 1.0, "roc": 1.0}


def cumulate_expected(d_snap, func, shift, initial, S, forward):
    """d_snap: the change series; initial: float or snapshot; S: serials in the order they are written
    (ascending = forward, descending = backward). Returns {serial: row}."""
    nv = d_snap[1].shape[1]
    k = -int(shift)

    def init(t):
        if isinstance(initial, tuple):
            r = row(initial, t)
            return np.array(r, dtype=float) if r.size == nv else np.full(nv, np.nan)
        return np.full(nv, float(initial))

    y = {}
    with np.errstate(all="ignore"):
        if forward:
            for t in range(S[0] - k, S[0]):
                y[t] = init(t)
            f = _FORWARD[func]
            for t in S:
                y[t] = f(y.get(t - k, np.full(nv, np.nan)), row(d_snap, t))
        else:
            for t in range(S[0] + 1, S[0] + k + 1):
                y[t] = init(t)
            g = _BACKWARD[func]
            for s in S:
                y[s] = g(y.get(s + k, np.full(nv, np.nan)), row(d_snap, s + k))
    return y


def compare_map(result_snap, expected, tol_abs, tol_rel=1e-9):
    """expected: {serial: row}. The result must equal it where defined and be missing everywhere else."""
    rstart, rdata, _ = result_snap
    out = []
    nv = len(next(iter(expected.values()))) if expected else rdata.shape[1]
    if rdata.shape[1] != nv:
        return [("variants", 0, 0, nv, rdata.shape[1])]
    serials = set(expected)
    if rstart is not None:
        serials |= set(range(rstart, rstart + rdata.shape[0]))
    for t in sorted(serials):
        e = expected.get(t, np.full(nv, np.nan))
        g = row(result_snap, t)
        for v in range(nv):
            if np.isinf(e[v]):
                continue
            if np.isnan(e[v]) != np.isnan(g[v]):
                out.append(("missing-pattern", t, v, float(e[v]), float(g[v])))
            elif not np.isnan(e[v]) and not abs(g[v] - e[v]) <= tol_abs + tol_rel * abs(e[v]):
                out.append(("value", t, v, float(e[v]), float(g[v])))
            if len(out) >= 3:
                return out
    return out
